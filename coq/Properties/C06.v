(* C06 — Proxies relay only to bridges inside their accepted pattern.
   Statements only; the proofs are in Proofs/NameMatcherProofs.v, BrokerGateProofs.v, RelayHistoryProofs.v, ProxyRelayProofs.v.
   Models: Model/NameMatcher.v (common/namematcher/matcher.go as written),
           Model/RelayCheck.v  (broker CheckProxyRelayPattern/ProxyPolls decision; proxy runSession decision),
           Model/BrokerGate.v  (the gate in front of the matching machine; the BrokerContext as ProxyPolls sees it:
                                request bodies through the wire decoder, counters, matching core, re-installations),
           Model/ProxyRelay.v  (relay URL string -> check -> string handed to the dialer -> dial target; one
                                SnowflakeProxy over its sessions).
   Strings are arbitrary [list N] (all byte strings and more); patterns are arbitrary too
   (with/without ^ and $, empty, ^/$ in the middle). *)
From Coq Require Import List NArith Bool String.
From Snow Require Import Lib.Wire Model.NameMatcher Model.RelayCheck Proofs.NameMatcherProofs.
Import ListNotations.
Open Scope N_scope.

(* ---- the matcher ---- *)

(* A pattern judged a superset of another accepts every hostname the other accepts. *)
Theorem C06_superset_sound : forall (a b : matcher) (s : bytes),
  is_superset_of a b = true -> is_member b s = true -> is_member a s = true.
Proof. exact superset_sound. Qed.

(* The same at the level of rule strings, for all rule strings. *)
Theorem C06_superset_sound_rules : forall (ra rb s : bytes),
  is_superset_of (new_matcher ra) (new_matcher rb) = true ->
  rule_accepts rb s = true -> rule_accepts ra s = true.
Proof. exact superset_sound_rules. Qed.

(* The judgement is exact: it holds iff the accepted sets are included (so a broker never
   rejects a proxy whose pattern does cover the allowed one). *)
Theorem C06_superset_is_inclusion : forall a b : matcher,
  is_superset_of a b = true <-> (forall s, is_member b s = true -> is_member a s = true).
Proof. exact superset_iff_inclusion. Qed.

(* What a rule accepts: "^x$" exactly x; "x$" (x not starting with ^) every string ending in x. *)
Theorem C06_rule_anchored : forall x s : bytes,
  rule_accepts (CARET :: x ++ [DOLLAR]) s = true <-> s = x.
Proof. exact rule_anchored_accepts. Qed.

Theorem C06_rule_suffix : forall x s : bytes, starts_with_caret x = false ->
  (rule_accepts (x ++ [DOLLAR]) s = true <-> exists p, s = p ++ x).
Proof. exact rule_suffix_accepts. Qed.

(* ---- the broker's decision ---- *)

(* A poll goes on to be registered only if its pattern (for legacy polls: the operator's presumed
   pattern) is judged a superset of the allowed pattern; otherwise it is answered with the
   rejection status.  Equivalently: only if every hostname allowed by the broker is accepted by
   the pattern the poll is judged by. *)
Theorem C06_broker_rejects : forall (cfg : broker_cfg) (pat : option bytes),
  is_superset_of (new_matcher (effective_pattern cfg pat)) (new_matcher (allowed_pattern cfg)) = false ->
  broker_accepts_poll cfg pat = false.
Proof. exact broker_rejects. Qed.

Theorem C06_broker_accepts_iff_inclusion : forall (cfg : broker_cfg) (pat : option bytes),
  broker_accepts_poll cfg pat = true <->
  (forall host, rule_accepts (allowed_pattern cfg) host = true ->
                rule_accepts (effective_pattern cfg pat) host = true).
Proof. exact broker_accepts_iff_inclusion. Qed.

(* Legacy polls (field absent or null) are judged by the presumed pattern, whatever else they carry. *)
Theorem C06_legacy_presumed : forall cfg : broker_cfg,
  broker_accepts_poll cfg None = broker_accepts_poll cfg (Some (presumed_pattern cfg)).
Proof. exact broker_legacy_presumed. Qed.

(* ---- the proxy's decision ---- *)

(* The session proceeds towards a relay dial of the broker-supplied URL only if the URL parsed,
   its hostname is a member of the proxy's own pattern, and its scheme is wss unless non-TLS
   relays were explicitly allowed (and conversely). *)
Theorem C06_proxy_never_dials : forall (cfg : proxy_cfg) (raw : bytes) (pu : parsed_url),
  proxy_relay_decision cfg raw pu = DialBrokerURL <->
  raw <> [] /\ exists scheme host, pu = Parsed scheme host
     /\ is_member (new_matcher (relay_pattern cfg)) host = true
     /\ (allow_non_tls cfg = true \/ scheme = WSS).
Proof. exact proxy_dial_broker_iff. Qed.

(* The only other way to proceed: the broker supplied the empty URL; then the operator's own
   configured relay URL is dialled, never anything the broker chose. *)
Theorem C06_proxy_configured_only_on_empty_url : forall (cfg : proxy_cfg) (raw : bytes) (pu : parsed_url),
  proxy_relay_decision cfg raw pu = DialConfigured <-> raw = [] /\ pu <> ParseError.
Proof. exact proxy_dial_configured_iff. Qed.

Theorem C06_proxy_parse_error_refused : forall (cfg : proxy_cfg) (raw : bytes),
  proxy_relay_decision cfg raw ParseError = Refuse.
Proof. exact proxy_parse_error_refused. Qed.

(* Composition: with an honest broker (poll accepted, bridge hostname inside the allowed pattern,
   wss) the proxy does not refuse — the checks are not satisfied by refusing everything. *)
Theorem C06_honest_broker_not_refused : forall (bcfg : broker_cfg) (pcfg : proxy_cfg) (raw host : bytes),
  broker_accepts_poll bcfg (Some (relay_pattern pcfg)) = true ->
  rule_accepts (allowed_pattern bcfg) host = true ->
  proxy_relay_decision pcfg raw (Parsed WSS host) <> Refuse.
Proof. exact honest_broker_not_refused. Qed.

(* ---- the hypotheses are satisfiable (non-vacuity) ---- *)

Example C06_superset_sound_nonvacuous :
  is_superset_of (new_matcher (bs "torproject.net$")) (new_matcher (bs "^snowflake.torproject.net$")) = true
  /\ is_member (new_matcher (bs "^snowflake.torproject.net$")) (bs "snowflake.torproject.net") = true
  /\ is_superset_of (new_matcher (bs "snowflake.torproject.net$")) (new_matcher (bs "02.snowflake.torproject.net$")) = true
  /\ is_member (new_matcher (bs "02.snowflake.torproject.net$")) (bs "x02.snowflake.torproject.net") = true.
Proof. vm_compute. repeat split. Qed.

Example C06_rule_suffix_nonvacuous : starts_with_caret (bs "snowflake.torproject.net") = false.
Proof. reflexivity. Qed.

Example C06_broker_rejects_nonvacuous :
  let cfg := mk_broker_cfg (bs "snowflake.torproject.net$") (bs "^snowflake.torproject.net$") in
  is_superset_of (new_matcher (effective_pattern cfg (Some (bs "^evil.net$")))) (new_matcher (allowed_pattern cfg)) = false
  /\ broker_accepts_poll cfg None = false                         (* presumed exact pattern does not cover the suffix pattern *)
  /\ broker_accepts_poll cfg (Some (bs "torproject.net$")) = true.
Proof. vm_compute. repeat split. Qed.

Example C06_proxy_decisions_nonvacuous :
  let cfg := mk_proxy_cfg (bs "snowflake.torproject.net$") false in
  proxy_relay_decision cfg (bs "wss://snowflake.torproject.net/") (Parsed (bs "wss") (bs "snowflake.torproject.net")) = DialBrokerURL
  /\ proxy_relay_decision cfg (bs "ws://snowflake.torproject.net/") (Parsed (bs "ws") (bs "snowflake.torproject.net")) = Refuse
  /\ proxy_relay_decision cfg (bs "wss://good@evil.net/") (Parsed (bs "wss") (bs "evil.net")) = Refuse
  /\ proxy_relay_decision cfg [] (Parsed [] []) = DialConfigured.
Proof. vm_compute. repeat split. Qed.

Example C06_honest_broker_nonvacuous :
  let bcfg := mk_broker_cfg (bs "^snowflake.torproject.net$") (bs "") in
  let pcfg := mk_proxy_cfg (bs "snowflake.torproject.net$") false in
  broker_accepts_poll bcfg (Some (relay_pattern pcfg)) = true
  /\ rule_accepts (allowed_pattern bcfg) (bs "snowflake.torproject.net") = true.
Proof. vm_compute. repeat split. Qed.

(* ---- the gate composed with the matching machine (Model/Broker.v): "never gives such a proxy a client" ----
   A proxy poll enters the matching machine only through the relay-pattern gate. A poll whose pattern (for a
   legacy poll: the presumed pattern) is not judged a superset of the allowed pattern is answered with the
   rejection and changes NOTHING: no entry, no heap membership, no id-map binding exists for it, so by C02
   (clients are only ever stored in entries) no client offer can reach it, in any continuation. *)
From Snow Require Import Model.JsonBoundary Model.Messages Model.Broker Model.BrokerGate Proofs.BrokerProofs Proofs.BrokerGateProofs.

Theorem C06_rejected_poll_changes_nothing : forall cfg v s sd n pt cl pat,
  broker_accepts_poll cfg pat = false ->
  gstep cfg v s (G_ProxyPoll sd n pt cl pat) = Some (s, Some RejectedPattern).
Proof. exact rejected_poll_changes_nothing. Qed.

Theorem C06_registered_only_if_superset : forall cfg v s sd n pt cl pat s',
  gstep cfg v s (G_ProxyPoll sd n pt cl pat) = Some (s', Some Registered) ->
  broker_accepts_poll cfg pat = true /\ List.length (entries s') = S (List.length (entries s)).
Proof. exact registered_only_if_superset. Qed.

Theorem C06_gated_machine_refines_broker : forall cfg v s g s' r,
  gstep cfg v s g = Some (s', r) -> s' = s \/ exists l, step v s l = Some s'.
Proof. exact gstep_refines. Qed.

(* ---- histories: the decisions do not depend on earlier requests ----
   Model/RelayCheck.v broker_run: one broker context over any sequence of polls (pattern-carrying, legacy) and
   re-installations of the patterns; proxy_run: one proxy over any sequence of broker-supplied relay URLs.
   The correspondence check drives ONE long-lived BrokerContext / SnowflakeProxy through such sequences and
   compares every answer with these runs (ops pollseq, urlseq, urlseqfull). *)
From Snow Require Import Proofs.RelayHistoryProofs.

(* The answer to a poll at any position of any history is the decision for that poll alone under the
   patterns then in force ... *)
Theorem C06_broker_history_independent : forall (cfg : broker_cfg) (pre : list broker_event) (pat : option bytes)
                                                (post : list broker_event),
  nth_error (broker_run cfg (pre ++ EvPoll pat :: post)) (List.length pre)
  = Some (Some (broker_accepts_poll (broker_cfg_after cfg pre) pat)).
Proof. exact broker_poll_answer_at. Qed.

(* ... which are those of the latest installation: nothing that happened before it, and no poll answered
   since, has any influence. *)
Theorem C06_broker_decision_follows_latest_install :
  forall (cfg0 : broker_cfg) (before : list broker_event) (c : broker_cfg) (polls : list broker_event)
         (pat : option bytes) (post : list broker_event),
  forallb is_poll polls = true ->
  nth_error (broker_run cfg0 (before ++ EvInstall c :: polls ++ EvPoll pat :: post))
            (List.length before + S (List.length polls))
  = Some (Some (broker_accepts_poll c pat)).
Proof. exact broker_poll_answer_after_install. Qed.

(* With fixed patterns the run of the context is the pointwise image of the single-poll decision. *)
Theorem C06_broker_run_is_map : forall (cfg : broker_cfg) (pats : list (option bytes)),
  broker_run cfg (map EvPoll pats) = map (fun pat => Some (broker_accepts_poll cfg pat)) pats.
Proof. exact broker_run_polls. Qed.

(* A poll whose (effective) pattern is not a superset of the allowed pattern is rejected after ANY history. *)
Theorem C06_broker_rejects_after_any_history : forall (cfg : broker_cfg) (pre : list broker_event) (pat : option bytes)
                                                      (post : list broker_event),
  let cur := broker_cfg_after cfg pre in
  is_superset_of (new_matcher (effective_pattern cur pat)) (new_matcher (allowed_pattern cur)) = false ->
  nth_error (broker_run cfg (pre ++ EvPoll pat :: post)) (List.length pre) = Some (Some false).
Proof. exact broker_rejects_after_any_history. Qed.

(* The same through the matching machine: along any run of the gated machine from any state (any interleaving
   of polls, client offers, answers, timeouts) the reply to each label is a function of that label alone. *)
Theorem C06_gate_replies_history_independent : forall cfg v (gs : list glabel) s s' rs,
  grun cfg v s gs = Some (s', rs) -> rs = map (gate_reply cfg) gs.
Proof. exact grun_replies. Qed.

Theorem C06_gate_rejects_at_every_point : forall cfg v s (pre : list glabel) sd n pt cl pat (post : list glabel) s' rs,
  broker_accepts_poll cfg pat = false ->
  grun cfg v s (pre ++ G_ProxyPoll sd n pt cl pat :: post) = Some (s', rs) ->
  nth_error rs (List.length pre) = Some (Some RejectedPattern).
Proof. exact grun_rejects_at. Qed.

(* One proxy over any sequence of relay URLs: each decision is the single-URL decision ... *)
Theorem C06_proxy_history_independent : forall (cfg : proxy_cfg) (pre : list relay_offer) (raw : bytes) (pu : parsed_url)
                                               (post : list relay_offer),
  nth_error (proxy_run cfg (pre ++ (raw, pu) :: post)) (List.length pre) = Some (proxy_relay_decision cfg raw pu).
Proof. exact proxy_decision_at. Qed.

Theorem C06_proxy_run_is_map : forall (cfg : proxy_cfg) (offers : list relay_offer),
  proxy_run cfg offers = map (fun o : relay_offer => proxy_relay_decision cfg (fst o) (snd o)) offers.
Proof. exact proxy_run_map. Qed.

(* ... so after any history the broker-supplied URL is dialled only if its hostname passes the proxy's own
   pattern and its scheme is wss unless non-TLS relays were explicitly allowed. *)
Theorem C06_proxy_never_dials_after_any_history : forall (cfg : proxy_cfg) (pre : list relay_offer) (raw : bytes)
                                                         (pu : parsed_url) (post : list relay_offer),
  nth_error (proxy_run cfg (pre ++ (raw, pu) :: post)) (List.length pre) = Some DialBrokerURL ->
  raw <> [] /\ exists scheme host, pu = Parsed scheme host
     /\ is_member (new_matcher (relay_pattern cfg)) host = true
     /\ (allow_non_tls cfg = true \/ scheme = WSS).
Proof. exact proxy_never_dials_after_any_history. Qed.

(* non-vacuity: the histories of the two seeded defects this part was written for *)
Example C06_broker_history_nonvacuous :
  let cfg := mk_broker_cfg (bs "snowflake.torproject.net$") (bs "snowflake.bamsoftware.com$") in
  let cfg2 := mk_broker_cfg (bs "snowflake.torproject.net$") (bs "torproject.net$") in
  broker_run cfg [EvPoll None; EvPoll (Some (bs "snowflake.bamsoftware.com$")); EvPoll (Some []); EvPoll None;
                  EvInstall cfg2; EvPoll None; EvInstall cfg; EvPoll None]
  = [Some false; Some false; Some true; Some false; None; Some true; None; Some false]
  /\ forallb is_poll [EvPoll (Some []); EvPoll None] = true
  /\ is_superset_of (new_matcher (effective_pattern (broker_cfg_after cfg [EvPoll (Some [])]) None))
                    (new_matcher (allowed_pattern (broker_cfg_after cfg [EvPoll (Some [])]))) = false.
Proof. vm_compute. repeat split. Qed.

Example C06_gate_history_nonvacuous :
  let cfg := mk_broker_cfg (bs "snowflake.torproject.net$") (bs "snowflake.bamsoftware.com$") in
  exists s' , grun cfg V1 (init [(7, 9)])
    [G_ProxyPoll 1 NatUnrestricted 1 0 None; G_ProxyPoll 2 NatUnrestricted 1 0 (Some []);
     G_ProxyPoll 3 NatUnrestricted 1 0 None]
    = Some (s', [Some RejectedPattern; Some Registered; Some RejectedPattern])
  /\ broker_accepts_poll cfg None = false.
Proof. eexists. vm_compute. split; reflexivity. Qed.

Example C06_proxy_history_nonvacuous :
  let cfg := mk_proxy_cfg (bs "snowflake.torproject.net$") false in
  let h := bs "01.snowflake.torproject.net" in
  proxy_run cfg [(bs "wss://01.snowflake.torproject.net/", Parsed (bs "wss") h);
                 (bs "ws://01.snowflake.torproject.net/", Parsed (bs "ws") h);
                 (bs "wss://01.snowflake.torproject.net/", Parsed (bs "wss") h)]
  = [DialBrokerURL; Refuse; DialBrokerURL].
Proof. vm_compute. reflexivity. Qed.

(* ==================================================================================================================
   The broker and the proxy as state machines with the state the code has (Model/BrokerGate.v, Model/ProxyRelay.v).
   The correspondence check runs exactly these machines (Run/NameMatcherGate.v ops gate, bseq, sess) against one
   long-lived BrokerContext / one SnowflakeProxy configured through Start().
   ================================================================================================================== *)
From Snow Require Import Model.ProxyRelay Proofs.ProxyRelayProofs.

(* ---- broker: request bytes -> DecodeProxyPollRequestWithRelayPrefix -> CheckProxyRelayPattern -> registration ---- *)

(* The decoder reports a poll as relay-pattern aware exactly when the field is present and not null: the option
   handed to the gate is the field, whatever Version (or anything else in the request) says ... *)
Theorem C06_wire_awareness_is_field_presence : forall (v : json) sid ver ty nat n pat q,
  unmarshal poll_req_schema v = Some [VStr sid; VStr ver; VStr ty; VStr nat; VInt n; VPtr pat] ->
  decode_proxy_poll v = Ok q -> poll_pattern q = pat.
Proof. exact poll_pattern_is_field. Qed.

(* ... and the gate's verdict on it is what ProxyPolls computes: CheckProxyRelayPattern(relayPattern, !aware). *)
Theorem C06_wire_verdict_is_gate : forall (cfg : broker_cfg) (r : poll_req),
  broker_accepts_poll cfg (poll_pattern r) = check_proxy_relay_pattern cfg (pq_pattern r) (negb (pq_aware r)).
Proof. exact poll_label_verdict. Qed.

(* INVARIANT: the two patterns of a BrokerContext are written by InstallBridgeListProfile and by no other step
   (polls of any kind, malformed requests, client offers, answers, timeouts). *)
Theorem C06_broker_machine_config_invariant : forall v c ev c' r,
  bstep v c ev = Some (c', r) -> (forall cfg', ev <> B_Install cfg') -> b_cfg c' = b_cfg c.
Proof. exact bstep_cfg_not_written. Qed.

(* Hence: in any run from any context (counters at any value, any proxies registered, any goroutines in flight),
   the reply to an event is the function [breply_of] of that event and of the patterns of the latest installation
   before it — for a poll: BadRequest when the body does not decode, else the verdict of CheckProxyRelayPattern. *)
Theorem C06_broker_machine_history_independent : forall v c pre ev post c' rs,
  brun v c (pre ++ ev :: post) = Some (c', rs) ->
  nth_error rs (List.length pre) = Some (breply_of (bcfg_after (b_cfg c) pre) ev).
Proof. exact brun_reply_at. Qed.

Theorem C06_broker_machine_state_irrelevant : forall v c1 c2 evs c1' c2' rs1 rs2,
  b_cfg c1 = b_cfg c2 ->
  brun v c1 evs = Some (c1', rs1) -> brun v c2 evs = Some (c2', rs2) -> rs1 = rs2.
Proof. exact brun_state_irrelevant. Qed.

(* A poll that is not admitted (rejected pattern, or malformed) leaves the matching core exactly as it was. *)
Theorem C06_broker_machine_rejected_changes_nothing : forall v c body c' r,
  bstep v c (B_Poll body) = Some (c', r) -> r <> PollReply Registered -> b_core c' = b_core c.
Proof. exact bstep_rejected_changes_nothing. Qed.

(* "... and never gives such a proxy a client": after ANY history on a broker context started without proxies,
   every entry of the matching core — the only place a client offer is ever put (C02) — was created by a poll
   that decoded and whose pattern (its own; for a poll without the field, the presumed one) was judged a superset
   of the allowed pattern under the installation in force when it arrived. *)
Theorem C06_broker_entries_are_admitted_polls : forall v cfg br evs c' rs,
  brun v (binit cfg br) evs = Some (c', rs) ->
  forall e, In e (entries (b_core c')) ->
  exists pre body post q, evs = pre ++ B_Poll body :: post /\ opt_decode decode_proxy_poll body = Ok q
    /\ sid_tag (pq_sid q) = e_sid e /\ broker_accepts_poll (bcfg_after cfg pre) (poll_pattern q) = true.
Proof. exact brun_entries_admitted. Qed.

(* The history-free reading used above (broker_run) is the projection of the machine: its answers are the
   machine's replies to the polls that decode and to the re-installations. *)
Theorem C06_broker_machine_projects_to_run : forall v evs c c' rs,
  brun v c evs = Some (c', rs) ->
  flat_map abs_reply rs = broker_run (b_cfg c) (flat_map abs_event evs).
Proof. exact brun_projects_to_broker_run. Qed.

(* ---- proxy: relay URL string -> runSession check -> datachannelHandler -> websocket dialer ---- *)

(* THE DIALLED HOST IS THE CHECKED HOST.  [redial_preserves lib]: what is assumed of net/url (if a string parses and
   the string printed from that parse, client_ip set, parses again, scheme and host name are the same).  Then, when a
   session whose poll response carries the non-empty relay URL [raw] reaches the dialer and the dialer connects
   (ws_dial = DialTo tls h): h is the host name runSession extracted from raw and found in the proxy's pattern, and
   the connection uses TLS unless non-TLS relays were explicitly allowed. *)
Theorem C06_proxy_dials_checked_host : forall lib c raw ip t tls h,
  redial_preserves lib -> raw <> [] ->
  run_session lib c raw ip = SDial t -> ws_dial lib t = DialTo tls h ->
  exists sch, ul_parse lib raw = Parsed sch h
    /\ is_member (new_matcher (pc_pattern c)) h = true
    /\ (tls = true \/ pc_allow_non_tls c = true)
    /\ (tls = true <-> sch = WSS).
Proof. exact session_dials_checked_host. Qed.

(* The string handed to the dialer is printed from the parse of the very string that was checked (no library
   assumption), or — for an empty relay URL only — from the operator's own RelayURL. *)
Theorem C06_proxy_dial_string : forall lib c raw ip t,
  run_session lib c raw ip = SDial t ->
  (raw <> [] /\ t = ul_redial lib raw ip
   /\ exists sch h, ul_parse lib raw = Parsed sch h /\ is_member (new_matcher (pc_pattern c)) h = true
                    /\ (pc_allow_non_tls c = true \/ sch = WSS))
  \/ (raw = [] /\ t = ul_redial lib (pc_relay_url c) ip).
Proof. exact session_dial_string. Qed.

Theorem C06_proxy_empty_url_dials_configured : forall lib c ip t,
  run_session lib c [] ip = SDial t -> t = ul_redial lib (pc_relay_url c) ip.
Proof. exact session_empty_dials_configured. Qed.

(* The test reads the pattern and the flag; RelayURL only for an empty relay URL; BrokerURL, NATProbeURL, STUNURL and
   ProxyType never: a broker-supplied URL equal to any configured string is judged like every other URL. *)
Theorem C06_proxy_session_reads_only_check_fields : forall lib c1 c2 raw ip,
  pc_pattern c1 = pc_pattern c2 -> pc_allow_non_tls c1 = pc_allow_non_tls c2 ->
  (raw = [] -> pc_relay_url c1 = pc_relay_url c2) ->
  run_session lib c1 raw ip = run_session lib c2 raw ip.
Proof. exact session_reads_only_check_fields. Qed.

(* INVARIANT: no step of the proxy (sessions, NAT re-tests) writes the configuration Start() left. *)
Theorem C06_proxy_machine_config_invariant : forall lib s ev, ps_conf (fst (pstep lib s ev)) = ps_conf s.
Proof. exact pstep_conf. Qed.

(* Hence from any state and after any history the outcome of a session is [run_session] of the configuration
   and that session's relay URL. *)
Theorem C06_proxy_machine_history_independent : forall lib s pre raw ip post,
  nth_error (snd (prun lib s (pre ++ P_Session raw ip :: post))) (List.length pre)
  = Some (Some (run_session lib (ps_conf s) raw ip)).
Proof. exact prun_outcome_at. Qed.

Theorem C06_proxy_machine_state_irrelevant : forall lib s1 s2 evs,
  ps_conf s1 = ps_conf s2 -> snd (prun lib s1 evs) = snd (prun lib s2 evs).
Proof. exact prun_state_irrelevant. Qed.

(* Over the whole life of a proxy: every string it ever hands to the dialer is printed from its own RelayURL, or
   makes the dialer connect (if at all) to a host inside the proxy's pattern, over TLS unless non-TLS was allowed. *)
Theorem C06_proxy_life_dials_sound : forall lib c evs t,
  redial_preserves lib -> In t (ps_dials (fst (prun lib (pinit c) evs))) -> dial_ok lib c t.
Proof. exact proxy_life_dials_sound. Qed.

Theorem C06_proxy_machine_projects_to_run : forall lib evs s,
  zip_abs evs (snd (prun lib s evs)) = proxy_run (check_cfg (ps_conf s)) (flat_map (abs_offer lib) evs).
Proof. exact prun_projects_to_proxy_run. Qed.

(* ---- non-vacuity ---- *)

Definition ex_poll_opt (sid ver : string) (pat : option string) : option json :=
  Some (JObj ([(bs "Sid", JStr (bs sid)); (bs "Version", JStr (bs ver)); (bs "Type", JStr (bs "standalone"));
               (bs "NAT", JStr (bs "unknown")); (bs "Clients", JNum (bs "0"))]
              ++ match pat with Some p => [(bs "AcceptedRelayPattern", JStr (bs p))] | None => [] end)).
Definition ex_poll (sid ver pat : string) : option json := ex_poll_opt sid ver (Some pat).
Definition ex_poll0 (sid ver : string) : option json := ex_poll_opt sid ver None.

(* one broker context (allowed: snowflake.torproject.net$, presumed pattern covering it): an explicit pattern that
   does not cover the allowed one is rejected also when the poll announces version 1.2 or 1.0; a poll without the
   field is judged by the presumed pattern; a malformed one is a bad request; the rejected polls leave no entry;
   after the presumed pattern is re-installed to one that does not cover, the poll without the field is rejected *)
Example C06_broker_machine_nonvacuous :
  let cfg := mk_broker_cfg (bs "snowflake.torproject.net$") (bs "torproject.net$") in
  let cfg2 := mk_broker_cfg (bs "snowflake.torproject.net$") (bs "snowflake.bamsoftware.com$") in
  exists c', brun V1 (binit cfg [(7, 9)])
    [B_Poll (ex_poll "s1" "1.2" "x.snowflake.torproject.net$"); B_Poll (ex_poll "s2" "1.0" "x.snowflake.torproject.net$");
     B_Poll (ex_poll0 "s3" "1.2"); B_Poll (ex_poll "s4" "1.0" "net$"); B_Poll (ex_poll "s5" "2.0" "net$");
     B_Poll None; B_Install cfg2; B_Poll (ex_poll0 "s6" "1.3"); B_Poll (ex_poll "s7" "1.3" "net$")]
    = Some (c', [PollReply RejectedPattern; PollReply RejectedPattern; PollReply Registered; PollReply Registered;
                 BadRequest; BadRequest; Installed; PollReply RejectedPattern; PollReply Registered])
  /\ map e_sid (entries (b_core c')) = [sid_tag (bs "s3"); sid_tag (bs "s4"); sid_tag (bs "s7")]
  /\ b_metrics c' = mk_bmetrics 4 2 3
  /\ b_cfg c' = cfg2.
Proof. eexists. vm_compute. repeat split. Qed.

Example C06_wire_awareness_nonvacuous :
  exists q, opt_decode decode_proxy_poll (ex_poll "s1" "1.2" "x$") = Ok q /\ poll_pattern q = Some (bs "x$")
  /\ exists q', opt_decode decode_proxy_poll (ex_poll0 "s1" "1.3") = Ok q' /\ poll_pattern q' = None.
Proof. eexists. split; [vm_compute; reflexivity|]. split; [reflexivity|]. eexists. split; [vm_compute; reflexivity|reflexivity]. Qed.

(* a library instance that keeps the contract, a proxy configured as Start() leaves it when nothing is given, and a
   life with: the broker-supplied URL equal to the proxy's own RelayURL (refused: its host is outside the pattern),
   a good wss URL (dialled, TLS, checked host), the same over ws (refused), the empty URL (own relay dialled) *)
Definition ex_table : list (bytes * parsed_url) :=
  [(bs "wss://snowflake.bamsoftware.com/", Parsed (bs "wss") (bs "snowflake.bamsoftware.com"));
   (redial_token (bs "wss://snowflake.bamsoftware.com/") [], Parsed (bs "wss") (bs "snowflake.bamsoftware.com"));
   (bs "wss://snowflake.torproject.net/", Parsed (bs "wss") (bs "snowflake.torproject.net"));
   (redial_token (bs "wss://snowflake.torproject.net/") [], Parsed (bs "wss") (bs "snowflake.torproject.net"));
   (bs "ws://snowflake.torproject.net/", Parsed (bs "ws") (bs "snowflake.torproject.net"));
   (redial_token (bs "ws://snowflake.torproject.net/") [], Parsed (bs "ws") (bs "snowflake.torproject.net"));
   ([], Parsed [] [])].
Definition ex_conf : proxy_conf :=
  mk_proxy_conf (bs "wss://snowflake.bamsoftware.com/") (bs "snowflake.torproject.net$") false
                (bs "https://snowflake-broker.torproject.net/") (bs "https://snowflake-broker.torproject.net:8443/probe")
                (bs "stun:stun.stunprotocol.org:3478") (bs "standalone").

Example C06_proxy_library_contract_nonvacuous : redial_preserves (table_lib ex_table).
Proof. apply table_lib_preserves. vm_compute. reflexivity. Qed.

Example C06_proxy_machine_nonvacuous :
  let lib := table_lib ex_table in
  let good := bs "wss://snowflake.torproject.net/" in
  snd (prun lib (pinit ex_conf)
         [P_Session (pc_relay_url ex_conf) []; P_Session good []; P_NatProbe (bs "restricted");
          P_Session (bs "ws://snowflake.torproject.net/") []; P_Session [] []; P_Session good []])
  = [Some SRefused; Some (SDial (redial_token good [])); None; Some SRefused;
     Some (SDial (redial_token (pc_relay_url ex_conf) [])); Some (SDial (redial_token good []))]
  /\ ws_dial lib (redial_token good []) = DialTo true (bs "snowflake.torproject.net")
  /\ good <> [].
Proof. vm_compute. repeat split. discriminate. Qed.

(* ==================================================================================================================
   The proxy BINARY: from the command line of /repo/proxy/main.go to the configuration its sessions run under
   (Model/ProxyMain.v: the struct literal of main(), the defaulting and the configuration checks of Start()).
   The correspondence check runs the real main() in-process, one process per command line, against a stub broker
   (Run/NameMatcherMain.v op mainrun, harness/overlay/proxy/zz_verif_c06_main_test.go).
   ================================================================================================================== *)
From Snow Require Import Model.ProxyMain Proofs.ProxyMainProofs.

(* AllowNonTLSRelay of the proxy that main() starts is the -allow-non-tls-relay flag, nothing else: not -relay (whatever
   its scheme), not the pattern, not any other flag, not Start(). *)
Theorem C06_main_allow_non_tls_is_the_flag : forall f : proxy_flags,
  pc_allow_non_tls (proxy_config_of_flags f) = fl_allow_non_tls f.
Proof. exact main_allow_is_flag. Qed.

(* RelayDomainNamePattern is the -allowed-relay-hostname-pattern flag (snowflake.torproject.net$ when not given). *)
Theorem C06_main_pattern_is_the_flag : forall f : proxy_flags,
  pc_pattern (proxy_config_of_flags f) = flag_or DEFAULT_RELAY_PATTERN (fl_pattern f).
Proof. exact main_pattern_is_flag. Qed.

(* Two command lines that agree on those two flags run the same relay URL test. *)
Theorem C06_main_check_reads_two_flags : forall f1 f2 : proxy_flags,
  fl_pattern f1 = fl_pattern f2 -> fl_allow_non_tls f1 = fl_allow_non_tls f2 ->
  check_cfg (proxy_config_of_flags f1) = check_cfg (proxy_config_of_flags f2).
Proof. exact main_check_reads_two_flags. Qed.

(* C06_proxy_never_dials read on the command line. *)
Theorem C06_main_never_dials : forall (f : proxy_flags) (raw : bytes) (pu : parsed_url),
  proxy_relay_decision (check_cfg (proxy_config_of_flags f)) raw pu = DialBrokerURL <->
  raw <> [] /\ exists scheme host, pu = Parsed scheme host
     /\ is_member (new_matcher (flag_or DEFAULT_RELAY_PATTERN (fl_pattern f))) host = true
     /\ (fl_allow_non_tls f = true \/ scheme = WSS).
Proof. exact main_decision_iff. Qed.

(* END TO END: a proxy started WITHOUT -allow-non-tls-relay hands a broker-supplied relay URL to the dialer only when it
   is a wss URL whose host is inside the pattern flag — whatever its other flags ... *)
Theorem C06_main_without_flag_session : forall lib (f : proxy_flags) c raw ip t,
  proxy_main lib f = Some c -> fl_allow_non_tls f = false -> raw <> [] ->
  run_session lib c raw ip = SDial t ->
  t = ul_redial lib raw ip /\
  exists h, ul_parse lib raw = Parsed WSS h
            /\ is_member (new_matcher (flag_or DEFAULT_RELAY_PATTERN (fl_pattern f))) h = true.
Proof. exact main_session_without_flag. Qed.

(* ... and over the whole life of the process never makes the dialer connect without TLS, or to a host outside the
   pattern flag, except by a string printed from the operator's own -relay URL (dialled when the broker supplies no
   relay URL; its scheme is the operator's business). *)
Theorem C06_main_without_flag_never_dials_non_tls : forall lib (f : proxy_flags) evs st outs t,
  redial_preserves lib ->
  fl_allow_non_tls f = false ->
  proxy_main_run lib f evs = Some (st, outs) ->
  In t (ps_dials st) ->
  (exists ip, t = ul_redial lib (or_default DEFAULT_RELAY_URL (flag_or DEFAULT_RELAY_URL (fl_relay f))) ip)
  \/ (forall tls h, ws_dial lib t = DialTo tls h ->
        tls = true /\ is_member (new_matcher (flag_or DEFAULT_RELAY_PATTERN (fl_pattern f))) h = true).
Proof. exact main_life_without_flag. Qed.

(* Every session of the process is judged under the one configuration of the command line. *)
Theorem C06_main_history_independent : forall lib (f : proxy_flags) pre raw ip post st outs,
  proxy_main_run lib f (pre ++ P_Session raw ip :: post) = Some (st, outs) ->
  nth_error outs (List.length pre) = Some (Some (run_session lib (proxy_config_of_flags f) raw ip)).
Proof. exact main_run_outcome_at. Qed.

(* A process that reached its first poll has a pattern that ends in $ and a RelayURL that parses. *)
Theorem C06_main_started_config_checked : forall lib (f : proxy_flags) c,
  proxy_main lib f = Some c ->
  is_valid_rule (pc_pattern c) = true /\ ul_parse lib (pc_relay_url c) <> ParseError.
Proof. exact proxy_main_started. Qed.

(* non-vacuity: the operator relays to a bridge of their own over plain WebSocket and does NOT pass
   -allow-non-tls-relay: the process starts; a broker-supplied ws:// URL inside the pattern is refused (also one equal
   to the operator's own -relay URL), the wss:// one is dialled, the empty one dials the operator's relay *)
Definition ex_main_flags (allow : bool) : proxy_flags :=
  mk_proxy_flags (Some (bs "ws://snowflake.torproject.net:8080/")) None allow (Some (bs "http://127.0.0.1:8000/")) None
                 0 false None false false None None.
Definition ex_main_table : list (bytes * parsed_url) :=
  [(bs "ws://snowflake.torproject.net:8080/", Parsed (bs "ws") (bs "snowflake.torproject.net"));
   (redial_token (bs "ws://snowflake.torproject.net:8080/") [], Parsed (bs "ws") (bs "snowflake.torproject.net"));
   (bs "wss://snowflake.torproject.net/", Parsed (bs "wss") (bs "snowflake.torproject.net"));
   (redial_token (bs "wss://snowflake.torproject.net/") [], Parsed (bs "wss") (bs "snowflake.torproject.net"));
   (bs "http://127.0.0.1:8000/", Parsed (bs "http") (bs "127.0.0.1"));
   (DEFAULT_STUN_URL, Parsed (bs "stun") []);
   ([], Parsed [] [])].

Example C06_main_nonvacuous :
  let lib := table_lib ex_main_table in
  let own := bs "ws://snowflake.torproject.net:8080/" in
  let good := bs "wss://snowflake.torproject.net/" in
  redial_preserves lib
  /\ fl_allow_non_tls (ex_main_flags false) = false
  /\ (exists st, proxy_main_run lib (ex_main_flags false) [P_Session own []; P_Session good []; P_Session [] []]
                 = Some (st, [Some SRefused; Some (SDial (redial_token good [])); Some (SDial (redial_token own []))])
                 /\ ps_dials st = [redial_token own []; redial_token good []])
  /\ (exists st, proxy_main_run lib (ex_main_flags true) [P_Session own []]
                 = Some (st, [Some (SDial (redial_token own []))]))
  /\ proxy_main lib (mk_proxy_flags None (Some (bs "snowflake.torproject.net")) false None None 0 false None false false None None) = None.
Proof.
  cbv zeta. split; [apply table_lib_preserves; vm_compute; reflexivity|].
  split; [reflexivity|]. split; [eexists; vm_compute; split; reflexivity|].
  split; [eexists; vm_compute; reflexivity|vm_compute; reflexivity].
Qed.
