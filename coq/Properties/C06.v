(* C06 — Proxies relay only to bridges inside their accepted pattern.
   Statements only; the proofs are in Proofs/NameMatcherProofs.v.
   Models: Model/NameMatcher.v (common/namematcher/matcher.go as written),
           Model/RelayCheck.v  (broker CheckProxyRelayPattern/ProxyPolls decision; proxy runSession decision).
   Strings are arbitrary [list N] (all byte strings and more); patterns are arbitrary too
   (with/without ^ and $, empty, ^/$ in the middle). *)
From Coq Require Import List NArith Bool String.
From Snow Require Import Lib.Wire Model.NameMatcher Model.RelayCheck Proofs.NameMatcherProofs.
Import ListNotations.
Open Scope N_scope.

(* ---- the matcher ---- *)

(* A pattern judged a superset of another accepts every hostname the other accepts. *)
Theorem C06_superset_sound : forall (a b : matcher) (s : bytes),
  is_superset_of a b = true -> is_member b s = true -> is_member a s = true.
Proof. exact superset_sound. Qed.

(* The same at the level of rule strings, for all rule strings. *)
Theorem C06_superset_sound_rules : forall (ra rb s : bytes),
  is_superset_of (new_matcher ra) (new_matcher rb) = true ->
  rule_accepts rb s = true -> rule_accepts ra s = true.
Proof. exact superset_sound_rules. Qed.

(* The judgement is exact: it holds iff the accepted sets are included (so a broker never
   rejects a proxy whose pattern does cover the allowed one). *)
Theorem C06_superset_is_inclusion : forall a b : matcher,
  is_superset_of a b = true <-> (forall s, is_member b s = true -> is_member a s = true).
Proof. exact superset_iff_inclusion. Qed.

(* What a rule accepts: "^x$" exactly x; "x$" (x not starting with ^) every string ending in x. *)
Theorem C06_rule_anchored : forall x s : bytes,
  rule_accepts (CARET :: x ++ [DOLLAR]) s = true <-> s = x.
Proof. exact rule_anchored_accepts. Qed.

Theorem C06_rule_suffix : forall x s : bytes, starts_with_caret x = false ->
  (rule_accepts (x ++ [DOLLAR]) s = true <-> exists p, s = p ++ x).
Proof. exact rule_suffix_accepts. Qed.

(* ---- the broker's decision ---- *)

(* A poll goes on to be registered only if its pattern (for legacy polls: the operator's presumed
   pattern) is judged a superset of the allowed pattern; otherwise it is answered with the
   rejection status.  Equivalently: only if every hostname allowed by the broker is accepted by
   the pattern the poll is judged by. *)
Theorem C06_broker_rejects : forall (cfg : broker_cfg) (pat : option bytes),
  is_superset_of (new_matcher (effective_pattern cfg pat)) (new_matcher (allowed_pattern cfg)) = false ->
  broker_accepts_poll cfg pat = false.
Proof. exact broker_rejects. Qed.

Theorem C06_broker_accepts_iff_inclusion : forall (cfg : broker_cfg) (pat : option bytes),
  broker_accepts_poll cfg pat = true <->
  (forall host, rule_accepts (allowed_pattern cfg) host = true ->
                rule_accepts (effective_pattern cfg pat) host = true).
Proof. exact broker_accepts_iff_inclusion. Qed.

(* Legacy polls (field absent or null) are judged by the presumed pattern, whatever else they carry. *)
Theorem C06_legacy_presumed : forall cfg : broker_cfg,
  broker_accepts_poll cfg None = broker_accepts_poll cfg (Some (presumed_pattern cfg)).
Proof. exact broker_legacy_presumed. Qed.

(* ---- the proxy's decision ---- *)

(* The session proceeds towards a relay dial of the broker-supplied URL only if the URL parsed,
   its hostname is a member of the proxy's own pattern, and its scheme is wss unless non-TLS
   relays were explicitly allowed (and conversely). *)
Theorem C06_proxy_never_dials : forall (cfg : proxy_cfg) (raw : bytes) (pu : parsed_url),
  proxy_relay_decision cfg raw pu = DialBrokerURL <->
  raw <> [] /\ exists scheme host, pu = Parsed scheme host
     /\ is_member (new_matcher (relay_pattern cfg)) host = true
     /\ (allow_non_tls cfg = true \/ scheme = WSS).
Proof. exact proxy_dial_broker_iff. Qed.

(* The only other way to proceed: the broker supplied the empty URL; then the operator's own
   configured relay URL is dialled, never anything the broker chose. *)
Theorem C06_proxy_configured_only_on_empty_url : forall (cfg : proxy_cfg) (raw : bytes) (pu : parsed_url),
  proxy_relay_decision cfg raw pu = DialConfigured <-> raw = [] /\ pu <> ParseError.
Proof. exact proxy_dial_configured_iff. Qed.

Theorem C06_proxy_parse_error_refused : forall (cfg : proxy_cfg) (raw : bytes),
  proxy_relay_decision cfg raw ParseError = Refuse.
Proof. exact proxy_parse_error_refused. Qed.

(* Composition: with an honest broker (poll accepted, bridge hostname inside the allowed pattern,
   wss) the proxy does not refuse — the checks are not satisfied by refusing everything. *)
Theorem C06_honest_broker_not_refused : forall (bcfg : broker_cfg) (pcfg : proxy_cfg) (raw host : bytes),
  broker_accepts_poll bcfg (Some (relay_pattern pcfg)) = true ->
  rule_accepts (allowed_pattern bcfg) host = true ->
  proxy_relay_decision pcfg raw (Parsed WSS host) <> Refuse.
Proof. exact honest_broker_not_refused. Qed.

(* ---- the hypotheses are satisfiable (non-vacuity) ---- *)

Example C06_superset_sound_nonvacuous :
  is_superset_of (new_matcher (bs "torproject.net$")) (new_matcher (bs "^snowflake.torproject.net$")) = true
  /\ is_member (new_matcher (bs "^snowflake.torproject.net$")) (bs "snowflake.torproject.net") = true
  /\ is_superset_of (new_matcher (bs "snowflake.torproject.net$")) (new_matcher (bs "02.snowflake.torproject.net$")) = true
  /\ is_member (new_matcher (bs "02.snowflake.torproject.net$")) (bs "x02.snowflake.torproject.net") = true.
Proof. vm_compute. repeat split. Qed.

Example C06_rule_suffix_nonvacuous : starts_with_caret (bs "snowflake.torproject.net") = false.
Proof. reflexivity. Qed.

Example C06_broker_rejects_nonvacuous :
  let cfg := mk_broker_cfg (bs "snowflake.torproject.net$") (bs "^snowflake.torproject.net$") in
  is_superset_of (new_matcher (effective_pattern cfg (Some (bs "^evil.net$")))) (new_matcher (allowed_pattern cfg)) = false
  /\ broker_accepts_poll cfg None = false                         (* presumed exact pattern does not cover the suffix pattern *)
  /\ broker_accepts_poll cfg (Some (bs "torproject.net$")) = true.
Proof. vm_compute. repeat split. Qed.

Example C06_proxy_decisions_nonvacuous :
  let cfg := mk_proxy_cfg (bs "snowflake.torproject.net$") false in
  proxy_relay_decision cfg (bs "wss://snowflake.torproject.net/") (Parsed (bs "wss") (bs "snowflake.torproject.net")) = DialBrokerURL
  /\ proxy_relay_decision cfg (bs "ws://snowflake.torproject.net/") (Parsed (bs "ws") (bs "snowflake.torproject.net")) = Refuse
  /\ proxy_relay_decision cfg (bs "wss://good@evil.net/") (Parsed (bs "wss") (bs "evil.net")) = Refuse
  /\ proxy_relay_decision cfg [] (Parsed [] []) = DialConfigured.
Proof. vm_compute. repeat split. Qed.

Example C06_honest_broker_nonvacuous :
  let bcfg := mk_broker_cfg (bs "^snowflake.torproject.net$") (bs "") in
  let pcfg := mk_proxy_cfg (bs "snowflake.torproject.net$") false in
  broker_accepts_poll bcfg (Some (relay_pattern pcfg)) = true
  /\ rule_accepts (allowed_pattern bcfg) (bs "snowflake.torproject.net") = true.
Proof. vm_compute. repeat split. Qed.

(* ---- the gate composed with the matching machine (Model/Broker.v): "never gives such a proxy a client" ----
   A proxy poll enters the matching machine only through the relay-pattern gate. A poll whose pattern (for a
   legacy poll: the presumed pattern) is not judged a superset of the allowed pattern is answered with the
   rejection and changes NOTHING: no entry, no heap membership, no id-map binding exists for it, so by C02
   (clients are only ever stored in entries) no client offer can reach it, in any continuation. *)
From Snow Require Import Model.Broker Proofs.BrokerProofs Proofs.BrokerGateProofs.

Theorem C06_rejected_poll_changes_nothing : forall cfg v s sd n pt cl pat,
  broker_accepts_poll cfg pat = false ->
  gstep cfg v s (G_ProxyPoll sd n pt cl pat) = Some (s, Some RejectedPattern).
Proof. exact rejected_poll_changes_nothing. Qed.

Theorem C06_registered_only_if_superset : forall cfg v s sd n pt cl pat s',
  gstep cfg v s (G_ProxyPoll sd n pt cl pat) = Some (s', Some Registered) ->
  broker_accepts_poll cfg pat = true /\ List.length (entries s') = S (List.length (entries s)).
Proof. exact registered_only_if_superset. Qed.

Theorem C06_gated_machine_refines_broker : forall cfg v s g s' r,
  gstep cfg v s g = Some (s', r) -> s' = s \/ exists l, step v s l = Some s'.
Proof. exact gstep_refines. Qed.
