(* C08 — local addresses are stripped from SDP, nothing else is lost.
   Statements over Model/IpClass.v (util.IsLocal and the net.IP methods) and Model/SdpStrip.v
   (util.StripLocalAddresses over the parsed description; see that file for the library boundary). *)
From Coq Require Import List NArith Bool.
From Snow Require Import Lib.Wire Model.IpClass Model.SdpStrip Proofs.IpClassProofs Proofs.SdpStripProofs.
Import ListNotations.
Open Scope N_scope.

(* IsLocal is exactly 10/8 ∪ 172.16/12 ∪ 192.168/16 ∪ 100.64/10 ∪ 169.254/16 (4-byte form, and
   IPv4-mapped 16-byte form) ∪ fc00::/7, as intervals of the big-endian value of the address. *)
Theorem C08_is_local_ranges :
  (forall a b c d, wf [a; b; c; d] ->
     (is_local [a; b; c; d] = true <->
        (v4num 10 0 0 0 <= v4num a b c d <= v4num 10 255 255 255)
        \/ (v4num 172 16 0 0 <= v4num a b c d <= v4num 172 31 255 255)
        \/ (v4num 192 168 0 0 <= v4num a b c d <= v4num 192 168 255 255)
        \/ (v4num 100 64 0 0 <= v4num a b c d <= v4num 100 127 255 255)
        \/ (v4num 169 254 0 0 <= v4num a b c d <= v4num 169 254 255 255)))
  /\ (forall x, wf x -> List.length x = 16%nat ->
     (is_local x = true <->
        (MAPPED_LO <= be_num x <= MAPPED_HI /\ in_local4 (be_num x - MAPPED_LO))
        \/ (ULA_LO <= be_num x <= ULA_HI))).
Proof. split; [exact is_local_4 | exact is_local_16]. Qed.

(* the whole test of the stripping step (IsLocal || IsUnspecified || IsLoopback) as intervals:
   the above, plus 0.0.0.0, 127/8 (both forms), :: and ::1 *)
Theorem C08_bad_addr_ranges :
  (forall a b c d, wf [a; b; c; d] ->
     (bad_addr [a; b; c; d] = true <->
        in_local4 (v4num a b c d) \/ v4num a b c d = 0
        \/ (v4num 127 0 0 0 <= v4num a b c d <= v4num 127 255 255 255)))
  /\ (forall x, wf x -> List.length x = 16%nat ->
     (bad_addr x = true <->
        (MAPPED_LO <= be_num x <= MAPPED_HI /\ bad4 (be_num x - MAPPED_LO))
        \/ (ULA_LO <= be_num x <= ULA_HI) \/ be_num x = 0 \/ be_num x = 1)).
Proof. split; [exact bad_addr_4 | exact bad_addr_16]. Qed.

Example C08_ranges_nonvacuous :
  wf [172; 31; 255; 255] /\ is_local [172; 31; 255; 255] = true /\ is_local [172; 32; 0; 0] = false
  /\ wf [0;0;0;0;0;0;0;0;0;0;255;255;100;64;0;0] /\ is_local [0;0;0;0;0;0;0;0;0;0;255;255;100;64;0;0] = true
  /\ is_local [252;0;0;0;0;0;0;0;0;0;0;0;0;0;0;1] = true /\ is_local [251;255;0;0;0;0;0;0;0;0;0;0;0;0;0;1] = false.
Proof. repeat split; try reflexivity; repeat constructor. Qed.

(* After stripping, no media section holds a host candidate whose (parsed) address is local,
   unspecified or loopback … *)
Theorem C08_no_local_host_left : forall (d : description) (m : media) (a : attr) (ip : bytes),
  In m (strip d) -> In a m -> a_class a = Cand Host (Some ip) ->
  is_local ip = false /\ is_unspecified ip = false /\ is_loopback ip = false.
Proof. exact no_local_host_left. Qed.

(* … i.e. its numeric value lies in none of the ranges (net.ParseIP yields 16 bytes; 4-byte form included). *)
Theorem C08_no_local_host_left_ranges : forall (d : description) (m : media) (a : attr) (ip : bytes),
  In m (strip d) -> In a m -> a_class a = Cand Host (Some ip) -> wf ip ->
  (List.length ip = 16%nat -> ~ bad16 (be_num ip))
  /\ (forall x y z w, ip = [x; y; z; w] -> ~ bad4 (v4num x y z w)).
Proof. exact no_local_host_left_num. Qed.

Example C08_no_local_host_left_nonvacuous :
  let pub := mkAttr 1 (Cand Host (Some [0;0;0;0;0;0;0;0;0;0;255;255;192;0;2;7])) in
  let loc := mkAttr 0 (Cand Host (Some [0;0;0;0;0;0;0;0;0;0;255;255;192;168;1;7])) in
  strip [[loc; mkAttr 2 Other; pub]] = [[mkAttr 2 Other; pub]].
Proof. reflexivity. Qed.

(* Everything else is preserved in order: the statement-by-statement model of the loop equals, per media
   section, the order-preserving filter that removes exactly the attributes that are parsed host candidates
   with such an address (mDNS names, candidates of other types, candidate lines pion/ice rejects and all
   other attributes stay).  The last three clauses determine the output uniquely (sublist_filter_unique). *)
Theorem C08_rest_preserved : forall d : description,
  List.length (strip d) = List.length d
  /\ Forall2 (fun m_in m_out =>
                m_out = filter (fun a => negb (bad_host a)) m_in
                /\ Sublist m_out m_in
                /\ (forall a, In a m_out <-> In a m_in /\ bad_host a = false))
             d (strip d).
Proof. exact rest_preserved. Qed.

Theorem C08_dropped_exactly : forall a : attr,
  bad_host a = true <->
  exists ip, a_class a = Cand Host (Some ip) /\ (is_local ip || is_unspecified ip || is_loopback ip) = true.
Proof. exact bad_host_spec. Qed.

Theorem C08_clean_input_unchanged : forall d : description,
  (forall m a, In m d -> In a m -> bad_host a = false) -> strip d = d.
Proof. exact strip_identity. Qed.

Example C08_clean_input_nonvacuous :
  forall m a, In m [[mkAttr 0 (Cand Srflx (Some [10;0;0;1])); mkAttr 1 BadCand; mkAttr 2 (Cand Host None)]] -> In a m -> bad_host a = false.
Proof. intros m a [E|[]] Ha; subst m. destruct Ha as [E|[E|[E|[]]]]; subst a; reflexivity. Qed.

Theorem C08_idempotent : forall d : description, strip (strip d) = strip d.
Proof. exact strip_idempotent. Qed.

(* The modelled step is total: unparsable text comes back unchanged, anything else as a description
   (panic freedom of the pion parsers themselves is observed by the check, not proved). *)
Theorem C08_total : forall p : option description,
  strip_text p = Unchanged \/ exists d, strip_text p = Stripped d.
Proof. exact strip_text_total. Qed.
