(* placeholder until Proofs/SdpStripProofs.v lands *)
From Snow Require Import Lib.Wire Model.IpClass Model.SdpStrip.
