(* C08 — local addresses are stripped from SDP, nothing else is lost.
   Statements over Model/IpClass.v (util.IsLocal and the net.IP methods) and Model/SdpStrip.v
   (util.StripLocalAddresses over the parsed description; see that file for the library boundary). *)
From Coq Require Import String.
From Coq Require Import List NArith Bool.
From Snow Require Import Lib.Wire Model.IpClass Model.SdpStrip Proofs.IpClassProofs Proofs.SdpStripProofs.
From Snow Require Import Model.SdpStripLines Proofs.SdpStripLinesProofs.
Import ListNotations.
Open Scope N_scope.

(* IsLocal is exactly 10/8 ∪ 172.16/12 ∪ 192.168/16 ∪ 100.64/10 ∪ 169.254/16 (4-byte form, and
   IPv4-mapped 16-byte form) ∪ fc00::/7, as intervals of the big-endian value of the address. *)
Theorem C08_is_local_ranges :
  (forall a b c d, wf [a; b; c; d] ->
     (is_local [a; b; c; d] = true <->
        (v4num 10 0 0 0 <= v4num a b c d <= v4num 10 255 255 255)
        \/ (v4num 172 16 0 0 <= v4num a b c d <= v4num 172 31 255 255)
        \/ (v4num 192 168 0 0 <= v4num a b c d <= v4num 192 168 255 255)
        \/ (v4num 100 64 0 0 <= v4num a b c d <= v4num 100 127 255 255)
        \/ (v4num 169 254 0 0 <= v4num a b c d <= v4num 169 254 255 255)))
  /\ (forall x, wf x -> List.length x = 16%nat ->
     (is_local x = true <->
        (MAPPED_LO <= be_num x <= MAPPED_HI /\ in_local4 (be_num x - MAPPED_LO))
        \/ (ULA_LO <= be_num x <= ULA_HI))).
Proof. split; [exact is_local_4 | exact is_local_16]. Qed.

(* the whole test of the stripping step (IsLocal || IsUnspecified || IsLoopback) as intervals:
   the above, plus 0.0.0.0, 127/8 (both forms), :: and ::1 *)
Theorem C08_bad_addr_ranges :
  (forall a b c d, wf [a; b; c; d] ->
     (bad_addr [a; b; c; d] = true <->
        in_local4 (v4num a b c d) \/ v4num a b c d = 0
        \/ (v4num 127 0 0 0 <= v4num a b c d <= v4num 127 255 255 255)))
  /\ (forall x, wf x -> List.length x = 16%nat ->
     (bad_addr x = true <->
        (MAPPED_LO <= be_num x <= MAPPED_HI /\ bad4 (be_num x - MAPPED_LO))
        \/ (ULA_LO <= be_num x <= ULA_HI) \/ be_num x = 0 \/ be_num x = 1)).
Proof. split; [exact bad_addr_4 | exact bad_addr_16]. Qed.

Example C08_ranges_nonvacuous :
  wf [172; 31; 255; 255] /\ is_local [172; 31; 255; 255] = true /\ is_local [172; 32; 0; 0] = false
  /\ wf [0;0;0;0;0;0;0;0;0;0;255;255;100;64;0;0] /\ is_local [0;0;0;0;0;0;0;0;0;0;255;255;100;64;0;0] = true
  /\ is_local [252;0;0;0;0;0;0;0;0;0;0;0;0;0;0;1] = true /\ is_local [251;255;0;0;0;0;0;0;0;0;0;0;0;0;0;1] = false.
Proof. repeat split; try reflexivity; repeat constructor. Qed.

(* After stripping, no media section holds a host candidate whose (parsed) address is local,
   unspecified or loopback … *)
Theorem C08_no_local_host_left : forall (d : description) (m : media) (a : attr) (ip : bytes),
  In m (strip d) -> In a m -> a_class a = Cand Host (Some ip) ->
  is_local ip = false /\ is_unspecified ip = false /\ is_loopback ip = false.
Proof. exact no_local_host_left. Qed.

(* … i.e. its numeric value lies in none of the ranges (net.ParseIP yields 16 bytes; 4-byte form included). *)
Theorem C08_no_local_host_left_ranges : forall (d : description) (m : media) (a : attr) (ip : bytes),
  In m (strip d) -> In a m -> a_class a = Cand Host (Some ip) -> wf ip ->
  (List.length ip = 16%nat -> ~ bad16 (be_num ip))
  /\ (forall x y z w, ip = [x; y; z; w] -> ~ bad4 (v4num x y z w)).
Proof. exact no_local_host_left_num. Qed.

Example C08_no_local_host_left_nonvacuous :
  let pub := mkAttr 1 (Cand Host (Some [0;0;0;0;0;0;0;0;0;0;255;255;192;0;2;7])) in
  let loc := mkAttr 0 (Cand Host (Some [0;0;0;0;0;0;0;0;0;0;255;255;192;168;1;7])) in
  strip [[loc; mkAttr 2 Other; pub]] = [[mkAttr 2 Other; pub]].
Proof. reflexivity. Qed.

(* Everything else is preserved in order: the statement-by-statement model of the loop equals, per media
   section, the order-preserving filter that removes exactly the attributes that are parsed host candidates
   with such an address (mDNS names, candidates of other types, candidate lines pion/ice rejects and all
   other attributes stay).  The last three clauses determine the output uniquely (sublist_filter_unique). *)
Theorem C08_rest_preserved : forall d : description,
  List.length (strip d) = List.length d
  /\ Forall2 (fun m_in m_out =>
                m_out = filter (fun a => negb (bad_host a)) m_in
                /\ Sublist m_out m_in
                /\ (forall a, In a m_out <-> In a m_in /\ bad_host a = false))
             d (strip d).
Proof. exact rest_preserved. Qed.

Theorem C08_dropped_exactly : forall a : attr,
  bad_host a = true <->
  exists ip, a_class a = Cand Host (Some ip) /\ (is_local ip || is_unspecified ip || is_loopback ip) = true.
Proof. exact bad_host_spec. Qed.

Theorem C08_clean_input_unchanged : forall d : description,
  (forall m a, In m d -> In a m -> bad_host a = false) -> strip d = d.
Proof. exact strip_identity. Qed.

Example C08_clean_input_nonvacuous :
  forall m a, In m [[mkAttr 0 (Cand Srflx (Some [10;0;0;1])); mkAttr 1 BadCand; mkAttr 2 (Cand Host None)]] -> In a m -> bad_host a = false.
Proof. intros m a [E|[]] Ha; subst m. destruct Ha as [E|[E|[E|[]]]]; subst a; reflexivity. Qed.

Theorem C08_idempotent : forall d : description, strip (strip d) = strip d.
Proof. exact strip_idempotent. Qed.

(* The modelled step is total: the text comes back unchanged or as a description
   (panic freedom of the pion parsers themselves is observed by the check, not proved).  [mok] is the
   outcome of desc.Marshal() on the stripped description: the code returns the input text when
   desc.Unmarshal OR desc.Marshal fails. *)
Theorem C08_total : forall (mok : bool) (p : option description),
  strip_text mok p = Unchanged \/ exists d, strip_text mok p = Stripped d.
Proof. exact strip_text_total. Qed.

Theorem C08_text_unchanged_iff : forall (mok : bool) (p : option description),
  (strip_text mok p = Unchanged <-> p = None \/ mok = false)
  /\ (forall d', strip_text mok p = Stripped d' -> mok = true /\ exists d, p = Some d /\ d' = strip d).
Proof. intros mok p. split; [apply strip_text_unchanged_iff|apply strip_text_stripped]. Qed.

(* ------------------------------------------------------------------------------------------------
   The whole description, line by line (Model/SdpStripLines.v: session part, media heads and all
   attribute lines in the order pion/sdp writes them; a line's id stands for its exact text).

   "Every other candidate and every other field of the description is preserved in order": the lines of
   the output ARE the lines of the input with exactly the local host candidate lines removed - same
   order, every remaining line identical; the last two clauses say the same without naming [filter]. *)
Theorem C08_lines_preserved : forall d : sdesc,
  marshal (strip_sdesc d) = filter (fun l => negb (bad_host_line l)) (marshal d)
  /\ Sublist (marshal (strip_sdesc d)) (marshal d)
  /\ (forall l, In l (marshal (strip_sdesc d)) <-> In l (marshal d) /\ bad_host_line l = false).
Proof. exact lines_preserved. Qed.

(* the removed lines are exactly the media-level a=candidate lines parsed as host candidates with a
   local / unspecified / loopback address *)
Theorem C08_removed_lines_exactly : forall l : line,
  bad_host_line l = true <->
  exists ip, l_kind l = KAttr (Cand Host (Some ip)) /\ (is_local ip || is_unspecified ip || is_loopback ip) = true.
Proof. exact bad_host_line_spec. Qed.

Theorem C08_no_local_line_left : forall (d : sdesc) (l : line) (ip : bytes),
  In l (marshal (strip_sdesc d)) -> l_kind l = KAttr (Cand Host (Some ip)) ->
  is_local ip = false /\ is_unspecified ip = false /\ is_loopback ip = false.
Proof. exact no_local_line_left_addr. Qed.

(* session-level lines (session-level a=candidate included), m= lines and the i=/c=/b=/k= lines of the
   media sections come out one for one; so does every attribute line that is not such a candidate *)
Theorem C08_other_fields_identical : forall d : sdesc,
  filter (fun l => negb (is_attr_line l)) (marshal (strip_sdesc d)) = filter (fun l => negb (is_attr_line l)) (marshal d)
  /\ filter (fun l => negb (bad_host_line l)) (marshal (strip_sdesc d)) = filter (fun l => negb (bad_host_line l)) (marshal d)
  /\ sd_session (strip_sdesc d) = sd_session d
  /\ map ms_head (sd_media (strip_sdesc d)) = map ms_head (sd_media d)
  /\ map ms_attrs (sd_media (strip_sdesc d)) = strip (map ms_attrs (sd_media d)).
Proof.
  intros d. split; [apply non_attr_lines_identical|]. split; [apply kept_lines_identical|].
  split; [apply strip_sdesc_rest|]. split; [apply strip_sdesc_rest|apply strip_sdesc_attrs].
Qed.

Theorem C08_clean_lines_unchanged : forall d : sdesc,
  (forall l, In l (marshal d) -> bad_host_line l = false) -> marshal (strip_sdesc d) = marshal d.
Proof. exact clean_lines_unchanged. Qed.

Example C08_lines_nonvacuous :
  let loc := mkAttr 7 (Cand Host (Some [192;168;1;7])) in
  let pub := mkAttr 8 (Cand Host (Some [192;0;2;7])) in
  let d := mkSdesc [0; 1; 2; 3; 4] [mkMsec [5; 6] [loc; mkAttr 9 Other; pub]; mkMsec [10] [loc]] in
  map l_id (marshal d) = [0; 1; 2; 3; 4; 5; 6; 7; 9; 8; 10; 7]
  /\ map l_id (marshal (strip_sdesc d)) = [0; 1; 2; 3; 4; 5; 6; 9; 8; 10]
  /\ (forall l, In l (marshal (mkSdesc [0] [mkMsec [1] [pub]])) -> bad_host_line l = false).
Proof.
  repeat split; try reflexivity.
  intros l [E|[E|[E|[]]]]; subst l; reflexivity.
Qed.

(* ------------------------------------------------------------------------------------------------
   "Unless local addresses are explicitly kept": the two call sites.  [to_send keep mok p] is the SDP text
   inside the message for the broker ([Original] = the very string the peer connection produced).

   [mok] = desc.Marshal() on the stripped description returned no error (util.go: `bts, err := desc.Marshal();
   if err != nil { return str }`; the driver reports it for every case).
   Flag on: the original text, untouched.  Flag off and Marshal succeeded: what is sent is never the original
   text of a parsable description (no fall-back to the unstripped text, not even when every candidate was
   local).  Flag off, whatever Marshal did: anything freshly marshalled that is sent holds no local host
   candidate line and is the input minus exactly those lines (and then Marshal did succeed). *)
Theorem C08_sent_stripped_unless_kept : forall (mok : bool) (p : option sdesc),
  to_send true mok p = Original
  /\ (to_send false true p = Original -> p = None)
  /\ (forall l, to_send false mok p = Lines l ->
        mok = true
        /\ (forall x, In x l -> bad_host_line x = false)
        /\ exists d, p = Some d /\ l = filter (fun x => negb (bad_host_line x)) (marshal d)).
Proof.
  intros mok p. split; [apply to_send_keep|]. split; [apply to_send_original_only_unparsable|apply to_send_strips].
Qed.

Example C08_sent_all_local_nonvacuous :
  let loc := mkAttr 3 (Cand Host (Some [10;0;0;1])) in
  to_send false true (Some (mkSdesc [0] [mkMsec [1; 2] [loc; mkAttr 4 (Cand Host (Some [127;0;0;1]))]]))
  = Lines [mkLine 0 KSession; mkLine 1 KHead; mkLine 2 KHead]
  /\ to_send false true None = Original.
Proof. split; reflexivity. Qed.

(* When Marshal fails the code falls back to the ORIGINAL text: flag off, the original goes out exactly
   when one of the two pion calls failed - and then it goes out with its local host candidates. *)
Theorem C08_marshal_failure_sends_original : forall (mok : bool) (p : option sdesc),
  (to_send false mok p = Original <-> p = None \/ mok = false)
  /\ to_send false false p = Original.
Proof. intros mok p. split; [apply to_send_original_iff|apply to_send_marshal_failed]. Qed.

Theorem C08_marshal_failure_leaks :
  let d := mkSdesc [0] [mkMsec [1] [mkAttr 2 (Cand Host (Some [10;0;0;1]))]] in
  to_send false false (Some d) = Original
  /\ (exists l, In l (marshal d) /\ bad_host_line l = true)
  /\ to_send false true (Some d) = Lines [mkLine 0 KSession; mkLine 1 KHead].
Proof. exact marshal_failure_leaks. Qed.

(* So the first sentence of the property rests on a contract of pion/sdp: Marshal does not fail on an
   unmarshalled description with some attributes removed.  Over ANY library function [pion_marshal]
   (None = it returned an error) that writes the lines of the structure when it succeeds: if it never
   fails, then with the flag off the original text is sent only for unparsable input and every parsable
   description is sent stripped ... *)
Theorem C08_sent_stripped_under_marshal_contract : forall (pion_marshal : sdesc -> option (list line)),
  (forall d l, pion_marshal d = Some l -> l = marshal d) ->
  (forall d, pion_marshal d <> None) ->
  forall p : option sdesc,
    (to_send_lib pion_marshal false p = Original -> p = None)
    /\ (forall l, to_send_lib pion_marshal false p = Lines l ->
          (forall x, In x l -> bad_host_line x = false)
          /\ exists d, p = Some d /\ l = filter (fun x => negb (bad_host_line x)) (marshal d))
    /\ (forall d, p = Some d -> to_send_lib pion_marshal false p = Lines (filter (fun x => negb (bad_host_line x)) (marshal d))).
Proof. exact to_send_lib_contract. Qed.

(* ... without the second hypothesis the only thing that can be said is where the original goes out ... *)
Theorem C08_sent_original_only_on_library_failure : forall (pion_marshal : sdesc -> option (list line)),
  (forall d l, pion_marshal d = Some l -> l = marshal d) ->
  forall p : option sdesc,
    to_send_lib pion_marshal false p = Original ->
    p = None \/ exists d, p = Some d /\ pion_marshal (strip_sdesc d) = None.
Proof. exact to_send_lib_original. Qed.

(* ... and the hypothesis is needed: a Marshal that is right whenever it succeeds but fails once sends the
   unstripped description, local host candidate included *)
Theorem C08_marshal_contract_needed :
  exists (pion_marshal : sdesc -> option (list line)) (d : sdesc),
    (forall d l, pion_marshal d = Some l -> l = marshal d)
    /\ pion_marshal (strip_sdesc d) = None
    /\ to_send_lib pion_marshal false (Some d) = Original
    /\ exists l, In l (marshal d) /\ bad_host_line l = true.
Proof. eexists. exists leak_witness. exact marshal_contract_needed. Qed.

Example C08_marshal_contract_nonvacuous :
  (forall d l, observed_marshal true d = Some l -> l = marshal d) /\ (forall d, observed_marshal true d <> None).
Proof. split; [intros d l H; inversion H; reflexivity | intros d; discriminate]. Qed.

(* client: the channel built by newBrokerChannelFromConfig carries config.KeepLocalAddresses and nothing
   else decides: not the broker URL, the AMP cache URL or the front domain *)
Theorem C08_client_offer : forall (cfg : client_config) (urls_ok mok : bool) (p : option sdesc) (s : sent),
  client_offer_sent cfg urls_ok mok p = Some s ->
  (cc_keep cfg = true -> s = Original)
  /\ (cc_keep cfg = false ->
        (s = Original /\ (p = None \/ mok = false))
        \/ exists d, mok = true /\ p = Some d /\ s = Lines (filter (fun x => negb (bad_host_line x)) (marshal d))
                     /\ forall x, In x (filter (fun x => negb (bad_host_line x)) (marshal d)) -> bad_host_line x = false).
Proof. exact client_site. Qed.

Theorem C08_client_urls_irrelevant : forall (cfg cfg' : client_config) (mok : bool) (p : option sdesc),
  cc_keep cfg = cc_keep cfg' -> client_offer_sent cfg true mok p = client_offer_sent cfg' true mok p.
Proof. exact client_site_urls_irrelevant. Qed.

Example C08_client_offer_nonvacuous :
  let d := mkSdesc [0] [mkMsec [1] [mkAttr 2 (Cand Host (Some [192;168;0;2])); mkAttr 3 (Cand Srflx (Some [192;0;2;9]))]] in
  client_offer_sent (mkCC (bs "http://127.0.0.1:8080/") [] [] false) true true (Some d)
    = Some (Lines [mkLine 0 KSession; mkLine 1 KHead; mkLine 3 (KAttr (Cand Srflx (Some [192;0;2;9])))])
  /\ client_offer_sent (mkCC (bs "https://broker.example/") [] [] true) true true (Some d) = Some Original
  /\ client_offer_sent (mkCC (bs "https://broker.example/") [] [] false) true false (Some d) = Some Original.
Proof. repeat split; reflexivity. Qed.

(* proxy: sendAnswer on a SignalingServer built by newSignalingServer(url, keep) *)
Theorem C08_proxy_answer : forall (url : bytes) (url_ok keep mok : bool) (p : option sdesc) (s : sent),
  proxy_answer_sent url url_ok keep mok p = Some s ->
  (keep = true -> s = Original)
  /\ (keep = false ->
        (s = Original /\ (p = None \/ mok = false))
        \/ exists d, mok = true /\ p = Some d /\ s = Lines (filter (fun x => negb (bad_host_line x)) (marshal d))
                     /\ forall x, In x (filter (fun x => negb (bad_host_line x)) (marshal d)) -> bad_host_line x = false).
Proof. exact proxy_site. Qed.

Example C08_proxy_answer_nonvacuous :
  proxy_answer_sent (bs "http://broker/") true false true (Some (mkSdesc [0] [mkMsec [1] [mkAttr 2 (Cand Host (Some [10;1;2;3]))]]))
    = Some (Lines [mkLine 0 KSession; mkLine 1 KHead])
  /\ proxy_answer_sent (bs "http://broker/") true true true None = Some Original.
Proof. split; reflexivity. Qed.
