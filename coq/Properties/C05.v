(* C05 — The server binds packets to sessions by ClientID; sessions never mix (carrier layer).
   Statements over Model/CarrierLayer.v: any number of carriers, any interleaving of upstream byte
   arrivals in any fragmentation, closes at any point, packets written by KCP to any ClientID, write loops
   taking packets, reads by KCP — [srun ops] for EVERY op sequence.

   Second sentence of the property ("a session that moves between carriers — sequentially, overlapping, or after a
   gap shorter than the one-minute retention — surfaces as exactly one accepted connection whose byte stream
   continues"): section "moving sessions" below, over Model/CarrierTimed.v = this carrier layer composed with C17's
   client-map model (explicit clock, queue identities, expiry) and with the DEMULTIPLEXING of kcp-go's listener
   (sessions keyed by RemoteAddr().String() = the ClientID). What is proved: (up) for EVERY schedule, timed or not,
   what KCP reads under one ClientID is an in-order merge of the packets decoded from each carrier's own bytes and
   makes exactly ONE accepted connection which is input all of it in order — time plays no role upstream;
   (down) if at every sweep the session was seen less than the retention ago, it has ONE queue for its whole life,
   nothing WriteTo accepted for it is lost, and its carriers together are written exactly a prefix, in order, of what
   was accepted; a queue identity is tied to one ClientID for ever, with or without expiries; (boundary) a sweep
   removes the record iff last-seen is at least the retention old (the sweeper runs every half retention, C17:
   between retention and 1.5 retentions either may have happened), the queued packets are then lost and the next
   touch makes a queue with a never-used identity. NOTE what the code does beyond the retention: the accepted
   connection is NOT affected (kcp-go's session table does not depend on the client map); only queued downstream
   packets are dropped (KCP retransmits them) and an idle attached carrier is closed. KCP's ARQ and smux above the
   demultiplexing ("whose byte stream continues" as bytes) remain libraries: observed through the real Accept path
   by lib/checks/c05.py (op move) and by C01's rig, hypothesis in C01. *)
From Coq Require Import List NArith ZArith Bool Arith Lia.
From Snow Require Import Lib.Wire Model.Encap Proofs.EncapProofs Model.CarrierLayer Proofs.CarrierProofs Proofs.CarrierOnceProofs Proofs.CarrierFragProofs.
From Snow Require Import Proofs.CarrierMultiProofs Proofs.PacketPathProofs Proofs.PacketPathMultiProofs.
From Snow Require Import Model.GoHeap Model.ClientMap Proofs.QueueOutProofs Model.CarrierTimed Proofs.CarrierTimedProofs Proofs.CarrierQueueProofs.
From Snow Require Import Model.CarrierFail Proofs.CarrierFailProofs.
Import ListNotations.
Open Scope N_scope.

(* Upstream: every packet the server hands to KCP under ClientID a was extracted, as a whole data chunk,
   from the stream of a carrier that presented the token and exactly that ClientID. *)
Theorem C05_upstream_tag : forall ops p a,
  In (p, a) (delivered (srun ops) ++ recvq (srun ops)) ->
  exists i k, nth_error (carriers (srun ops)) i = Some k /\ k_cid k = a /\ In p (k_up k) /\ ~ pre_open k.
Proof. intros ops. apply (si_up _ (srun_inv ops)). Qed.

(* Downstream: whatever a carrier was written was addressed (by WriteTo) to the ClientID that carrier
   presented; the queued packets of a ClientID likewise. *)
Theorem C05_downstream_only_same_id : forall ops i k p,
  nth_error (carriers (srun ops)) i = Some k -> In p (k_down k) -> In (k_cid k, p) (accepted (srun ops)).
Proof. intros ops. apply (si_down _ (srun_inv ops)). Qed.

Theorem C05_queued_only_same_id : forall ops c p,
  In p (q_lookup c (sendqs (srun ops))) -> In (c, p) (accepted (srun ops)).
Proof. intros ops. apply (si_queue _ (srun_inv ops)). Qed.

(* ... and the bytes on the wire of that carrier decode, under ANY reader fragmentation (C09), to exactly
   those packets in order: no truncated, merged or foreign packet. *)
Theorem C05_downstream_wire : forall ops i k sc,
  nth_error (carriers (srun ops)) i = Some k -> read_stream (k_wire k) sc = (k_down k, EOF).
Proof.
  intros ops i k sc Hk. apply wire_decodes. apply (si_wire _ (srun_inv ops) i k Hk).
Qed.

(* Exactly once and in order, across any number of carriers of a session: for every ClientID c the packets
   accepted by WriteTo for c are, IN ORDER, the packets consumed from c's queue so far followed by those still
   queued; each consumed packet went to exactly ONE carrier (the one recorded in the log; or was lost because
   WriteData failed, which closes that carrier), what carrier i was written is exactly the log entries owned
   by i, and an owning carrier presented token and the queue's ClientID. *)
Theorem C05_downstream_exactly_once_in_order : forall ops c,
  acc_for c (accepted (srun ops)) = cons_for c (consumed (srun ops)) ++ q_lookup c (sendqs (srun ops)).
Proof. intros ops. apply (oi_fifo _ (srun_oinv ops)). Qed.

Theorem C05_carrier_gets_its_log_entries : forall ops i k,
  nth_error (carriers (srun ops)) i = Some k -> k_down k = down_of i (consumed (srun ops)).
Proof. intros ops. apply (oi_down _ (srun_oinv ops)). Qed.

Theorem C05_consumer_presented_the_clientid : forall ops i c p,
  In (Some i, c, p) (consumed (srun ops)) ->
  exists k, nth_error (carriers (srun ops)) i = Some k /\ k_cid k = c /\ ~ pre_open k.
Proof. intros ops. apply (oi_owner _ (srun_oinv ops)). Qed.

(* A carrier that has not (yet) presented token and ClientID has no effect at all ... *)
Theorem C05_no_token_no_effect : forall ops i k,
  nth_error (carriers (srun ops)) i = Some k -> pre_open k ->
  k_up k = [] /\ k_down k = [] /\ k_wire k = [].
Proof. intros ops. apply (si_pre _ (srun_inv ops)). Qed.

(* ... a wrong token closes it on the spot, with nothing queued ... *)
Theorem C05_wrong_token_rejected : forall f k,
  k_state k = K_Token -> (8 <= length (k_buf k))%nat -> beq (firstn 8 (k_buf k)) TOKEN = false ->
  exists k', pump (S f) k = (k', []) /\ k_state k' = K_Dead /\
             k_up k' = k_up k /\ k_down k' = k_down k /\ k_wire k' = k_wire k.
Proof. exact token_reject. Qed.

(* ... and a closed carrier never does anything again. *)
Theorem C05_closed_stays_closed : forall s i k o,
  nth_error (carriers s) i = Some k -> k_state k = K_Dead ->
  exists k', nth_error (carriers (sstep s o)) i = Some k' /\ k_state k' = K_Dead /\
             k_up k' = k_up k /\ k_down k' = k_down k /\ k_wire k' = k_wire k.
Proof. exact dead_forever. Qed.

(* The read loop's result does not depend on how the carrier's bytes are split into arrivals: pumping
   b1 and then b2 queues the same packets, leaves the same residue and reaches the same open/closed state
   as pumping b1 ++ b2 at once (a cut stream therefore yields whole chunks only: C09_truncation_prefix). *)
Theorem C05_fragmentation_independent : forall f1 b1 b2, (length b1 < f1)%nat ->
  open_pump (S (length (b1 ++ b2))) (b1 ++ b2) =
  let '(ps1, t1, d1) := open_pump f1 b1 in
  if d1 then (ps1, [], true)
  else let '(ps2, t2, d2) := open_pump (S (length (t1 ++ b2))) (t1 ++ b2) in (ps1 ++ ps2, t2, d2).
Proof. exact open_pump_app. Qed.

(* At the level of the whole server state and in every phase (token, ClientID, chunks): any number of
   consecutive arrivals on a carrier leave the server in exactly the state of ONE arrival of their
   concatenation — same carriers, same queued packets under the same ClientIDs, same everything. *)
Theorem C05_arrivals_concatenate : forall s i b1 b2,
  sstep (sstep s (S_Recv i b1)) (S_Recv i b2) = sstep s (S_Recv i (b1 ++ b2)).
Proof. exact recv_split. Qed.

Theorem C05_arrivals_concatenate_many : forall pieces s i b,
  fold_left (fun st x => sstep st (S_Recv i x)) pieces (sstep s (S_Recv i b)) = sstep s (S_Recv i (b ++ concat pieces)).
Proof. exact recv_pieces. Qed.

Theorem C05_pump_is_open_pump : forall fuel k, k_state k = K_Open ->
  let '(ps, t, dd) := open_pump fuel (k_buf k) in
  exists k', pump fuel k = (k', ps) /\ k_buf k' = t /\ k_state k' = (if dd then K_Dead else K_Open) /\ k_cid k' = k_cid k.
Proof. exact pump_is_open_pump. Qed.

(* non-vacuity: two sessions, one carrier each, upstream packets tagged correctly, downstream routed *)
Example C05_example :
  let c1 := [1;2;3;4;5;6;7;8] in let c2 := [9;9;9;9;9;9;9;9] in
  let s := srun [S_New; S_New; S_Recv 0 (TOKEN ++ c1 ++ [130; 65; 66]); S_Recv 1 (TOKEN ++ c2 ++ [129]); S_Recv 1 [67];
                 S_WriteTo c2 [70]; S_WriteTo c1 [71]; S_Send 0; S_Send 1] in
  recvq s = [([65; 66], c1); ([67], c2)] /\
  (exists k, nth_error (carriers s) 0 = Some k /\ k_down k = [[71]] /\ k_wire k = [129; 71]) /\
  (exists k, nth_error (carriers s) 1 = Some k /\ k_down k = [[70]]).
Proof. vm_compute. repeat split; eexists; repeat split. Qed.

(* non-vacuity of C05_no_token_no_effect / C05_wrong_token_rejected: a carrier whose first 8 bytes differ from the
   token in one bit, followed by a ClientID and a well-formed data chunk, while a packet is waiting for that very
   ClientID: the hypotheses of the rejection theorem hold of it, it ends up closed, nothing was queued upstream,
   nothing was written to it, the waiting packet stays queued *)
Example C05_bad_token_example :
  let bad := [18; 147; 96; 93; 39; 129; 117; 244] in
  let c1 := [1;2;3;4;5;6;7;8] in
  let k := with_buf (bad ++ c1 ++ [130; 65; 66]) new_carrier in
  (k_state k = K_Token /\ (8 <= length (k_buf k))%nat /\ beq (firstn 8 (k_buf k)) TOKEN = false) /\
  let s := srun [S_WriteTo c1 [70]; S_New; S_Recv 0 (bad ++ c1 ++ [130; 65; 66]); S_Send 0; S_Recv 0 [129; 67]] in
  recvq s = [] /\ delivered s = [] /\ q_lookup c1 (sendqs s) = [[70]] /\
  exists k', nth_error (carriers s) 0 = Some k' /\ k_state k' = K_Dead /\ k_up k' = [] /\ k_down k' = [] /\ k_wire k' = [].
Proof. vm_compute. repeat split; [repeat constructor|]. eexists. repeat split. Qed.

(* a carrier that never gets as far as a complete token + ClientID (pre-open) has no effect either *)
Example C05_short_header_example :
  let s := srun [S_WriteTo [1;2;3;4;5;6;7;8] [70]; S_New; S_Recv 0 (TOKEN ++ [1;2;3;4;5;6;7]); S_Send 0] in
  exists k, nth_error (carriers s) 0 = Some k /\ pre_open k /\ k_up k = [] /\ k_wire k = [] /\ recvq s = [].
Proof. vm_compute. eexists. split; [reflexivity|]. split; [right; reflexivity|]. repeat split. Qed.

(* ====================================================================================== moving sessions *)

(* ---- upstream, any number of carriers of a session (and of other sessions), any interleaving, cuts, overlaps *)

(* What carrier i queued is EXACTLY what the one-carrier read loop (token, ClientID, chunks) decodes from a prefix of
   the bytes sent on it — all of them while it is alive, what it had read when it was closed otherwise. *)
Theorem C05_carrier_packets_decoded : forall ops i k,
  nth_error (carriers (srun ops)) i = Some k ->
  exists n, (n <= length (sent_on i ops))%nat /\
    (k_state k <> K_Dead -> n = length (sent_on i ops)) /\
    let s := firstn n (sent_on i ops) in
    k_up k = snd (pump (S (S (S (length s)))) (with_buf s new_carrier)) /\
    k_cid k = k_cid (fst (pump (S (S (S (length s)))) (with_buf s new_carrier))).
Proof. exact carrier_up_decoded. Qed.

(* The time-ordered log of everything the read loops handed to QueueIncoming: restricted to one carrier it is that
   carrier's decoded sequence; every entry carries the ClientID its carrier presented. *)
Theorem C05_offered_per_carrier : forall ops i k,
  nth_error (carriers (srun ops)) i = Some k -> pkts_of (filter (from_carrier i) (offered ops)) = k_up k.
Proof. exact offered_per_carrier. Qed.

Theorem C05_offered_tagged_by_presented_id : forall ops i c p,
  In (i, c, p) (offered ops) ->
  exists k, nth_error (carriers (srun ops)) i = Some k /\ k_cid k = c /\ ~ pre_open k /\ In p (k_up k).
Proof. exact offered_tagged_by_presented_id. Qed.

(* What KCP has read or can still read is an in-order subsequence of that log (the bounded queue drops when full),
   and the whole log when at most queueSize packets were offered: per ClientID, an order-preserving merge of its
   carriers' decoded sequences. *)
Theorem C05_queue_is_subsequence_of_offered : forall ops,
  subseq (surfaced (srun ops)) (map tag_of (offered ops)).
Proof. exact queue_is_subsequence_of_offered. Qed.

Theorem C05_queue_is_offered_when_room : forall ops,
  (length (offered ops) <= QUEUE_SIZE)%nat -> surfaced (srun ops) = map tag_of (offered ops).
Proof. exact queue_is_offered_when_room. Qed.

Theorem C05_session_packets_in_order : forall ops c,
  subseq (map fst (filter (tagged c) (surfaced (srun ops)))) (pkts_of (filter (entry_cid c) (offered ops))).
Proof. exact session_packets_in_order. Qed.

(* ---- exactly one accepted connection *)

(* kcp-go's listener, whatever else it reads: the datagrams read under ClientID [key] that are long enough to be looked
   at, all carrying conversation id [conv], make exactly ONE accepted connection (none if there is no such datagram);
   it stays live and its KCP is input exactly those datagrams in the order they were read. *)
Theorem C05_one_accepted_connection : forall key conv read,
  (forall x, In x read -> from_key key x = true -> exists sn, conv_sn (dgram x) = Some (conv, sn)) ->
  filter (of_key key) (listener_view read) = one_session key conv (map dgram (filter (from_key key) read)).
Proof. exact one_accepted_connection. Qed.

(* THE PREMISE "all datagrams under the ClientID carry one conversation id" is a premise about the CLIENT, and it is
   needed: client/lib/snowflake.go newSession draws one ClientID (turbotunnel.NewClientID) and makes exactly ONE KCP
   conversation (kcp.NewConn2, which draws the conversation id once) over the one RedialPacketConn whose dialContext
   sends that ClientID, so every datagram of the session carries the same conv. A peer that does otherwise gets what
   kcp-go's listener does, and the model says what that is: for ANY history satisfying the premise with at least one
   datagram of [key] looked at, one more datagram under the same ClientID with ANOTHER conversation id and sn = 0 closes
   the accepted connection and makes a second one (Listener.packetInput: `else if sn == 0 { s.Close(); s = nil }`). So
   without the premise "exactly one accepted connection" is false, whatever conversation id one names (second theorem).
   (A datagram of another conversation with sn <> 0 is dropped by the listener and changes nothing: [l_input].)
   Observed on the real kcp-go listener by lib/checks/c05.py (move case kind two-conversations-one-clientid). *)
Theorem C05_two_convs_two_connections : forall key conv conv2 read x2,
  (forall x, In x read -> from_key key x = true -> exists sn, conv_sn (dgram x) = Some (conv, sn)) ->
  filter (from_key key) read <> [] ->
  snd x2 = key -> long_enough x2 = true -> conv_sn (dgram x2) = Some (conv2, 0) -> conv2 <> conv ->
  filter (of_key key) (listener_view (read ++ [x2])) =
    [{| l_key := key; l_conv := conv; l_in := map dgram (filter (from_key key) read); l_live := false |};
     {| l_key := key; l_conv := conv2; l_in := [dgram x2]; l_live := true |}].
Proof. exact second_conv_second_connection. Qed.

Theorem C05_same_conv_premise_is_needed : forall key conv conv2 read x2 conv',
  (forall x, In x read -> from_key key x = true -> exists sn, conv_sn (dgram x) = Some (conv, sn)) ->
  filter (from_key key) read <> [] ->
  snd x2 = key -> long_enough x2 = true -> conv_sn (dgram x2) = Some (conv2, 0) -> conv2 <> conv ->
  filter (of_key key) (listener_view (read ++ [x2])) <>
    one_session key conv' (map dgram (filter (from_key key) (read ++ [x2]))).
Proof. exact second_conv_not_one_connection. Qed.

(* Time plays no role upstream: the timed server is, on the carriers' upstream view, the receive queue and what KCP
   reads, the untimed server on the same arrivals and closes (plus a close where a write loop ended). *)
Theorem C05_timed_upstream_is_untimed : forall timeout ops,
  usim (trun timeout ops) (srun (untimes timeout tinit ops)).
Proof. exact trun_upstream_is_srun. Qed.

(* Together: for EVERY timed schedule — carriers of the session arriving and leaving at any instants, overlapping or
   after idle gaps of ANY length, expiries or not — the session is one accepted connection whose KCP is input, in
   order, what was read under its ClientID, and that is an in-order merge of what its carriers decoded. *)
Theorem C05_moving_session_one_connection : forall timeout ops cid conv,
  let t := trun timeout ops in
  let sops := untimes timeout tinit ops in
  (forall x, In x (tdelivered t) -> from_key cid x = true -> exists sn, conv_sn (dgram x) = Some (conv, sn)) ->
  filter (of_key cid) (listener_view (tdelivered t)) = one_session cid conv (map dgram (filter (from_key cid) (tdelivered t))) /\
  tdelivered t ++ trecvq t = surfaced (srun sops) /\
  subseq (map fst (filter (tagged cid) (tdelivered t ++ trecvq t))) (pkts_of (filter (entry_cid cid) (offered sops))).
Proof.
  intros timeout ops cid conv t sops H. split; [apply one_accepted_connection; exact H|].
  destruct (trun_upstream_is_srun timeout ops) as [_ [Hq Hd]]. fold t in Hq, Hd. fold sops in Hq, Hd.
  assert (E : tdelivered t ++ trecvq t = surfaced (srun sops)) by (unfold surfaced; rewrite Hq, Hd; reflexivity).
  split; [exact E|]. rewrite E. apply session_packets_in_order.
Qed.

(* ---- downstream with retention *)

(* A queue identity belongs to ONE ClientID (key) for ever: the key WriteTo put packets into it for, the key of every
   carrier whose write loop held it or was written a packet taken from it, the key of its record — whatever expired in
   between. In particular a packet a carrier was written was taken from a queue of the carrier's own ClientID. *)
Theorem C05_timed_queue_has_one_owner : forall timeout ops q b b',
  tied (trun timeout ops) q b -> tied (trun timeout ops) q b' -> b = b'.
Proof. intros timeout ops. apply (g_own _ (trun_ginv timeout ops)). Qed.

Theorem C05_timed_downstream_only_same_id : forall timeout ops o b q p b' p',
  In (o, b, q, p) (tcons (trun timeout ops)) -> In (b', q, p') (tacc (trun timeout ops)) -> b = b'.
Proof.
  intros timeout ops o b q p b' p' H H'. apply (g_own _ (trun_ginv timeout ops) q).
  - right. left. exists o, p. exact H.
  - left. exists p'. exact H'.
Qed.

(* ... and for every timed schedule, expiries or not: whatever carrier i was written was accepted by WriteTo for the very
   ClientID (key) that carrier presented (the first sentence of the property, downstream, in the timed model). *)
Theorem C05_timed_downstream_written_was_accepted : forall timeout ops i k p,
  nth_error (tcar (trun timeout ops)) i = Some k -> In p (k_down k) ->
  exists q, In (key_of k, q, p) (tacc (trun timeout ops)).
Proof. exact timed_downstream_only_same_id. Qed.

(* The session within the retention: if no sweep ever finds the session's record idle for the timeout, then all the
   queue identities ever tied to the session are its one live queue, and what WriteTo accepted for it is, in order,
   what its carriers (any number, sequential or overlapping, across idle gaps) were written or lost with a failed
   write, followed by what is still queued: nothing is dropped on the move. *)
Theorem C05_session_within_retention : forall timeout a ops,
  fresh_from timeout a tinit ops ->
  let t := trun timeout ops in
  (forall q, tied t q a -> live (tcm t) q a) /\
  acc_key a (tacc t) = cons_key a (tcons t) ++ out_q (tcm t) a.
Proof. intros timeout a ops H. destruct (trun_kinv timeout a ops H) as [K1 K2]. split; assumption. Qed.

(* A schedule-level sufficient condition: all clock readings of the schedule lie in a window shorter than the retention
   (whatever the carriers do inside it: sequential, overlapping, idle gaps up to just under the retention) — then the
   hypothesis above holds for EVERY session, so no session loses a queued packet or a carrier to an expiry. *)
Theorem C05_window_below_retention_is_fresh : forall timeout t0 a ops,
  Forall (in_window timeout t0) ops -> fresh_from timeout a tinit ops.
Proof. intros timeout t0 a ops. apply window_is_fresh_from_start. Qed.

Theorem C05_session_one_queue : forall timeout a ops q q',
  fresh_from timeout a tinit ops -> tied (trun timeout ops) q a -> tied (trun timeout ops) q' a -> q = q'.
Proof. intros timeout a ops q q' H. apply one_queue; [apply trun_ginv | apply trun_kinv; exact H]. Qed.

(* ... and no carrier of the session is ever closed because its queue expired under it *)
Theorem C05_session_never_closed_by_expiry : forall timeout a ops i k q,
  fresh_from timeout a tinit ops ->
  nth_error (tcar (trun timeout ops)) i = Some k -> nth_error (theld (trun timeout ops)) i = Some (Some q) -> key_of k = a ->
  snd (q_recv q (tcm (trun timeout ops))) <> RcvClosed.
Proof. intros timeout a ops i k q H. apply never_closed_under_carrier; [apply trun_ginv | apply trun_kinv; exact H]. Qed.

(* The boundary, exactly as the code compares: a sweep keeps the record iff it was seen less than the timeout ago;
   otherwise the queue is closed with what was left in it. (NewClientMap sweeps every timeout/2: some sweep falls
   within [timeout, 1.5 timeout) after last-seen, C17_sweep_within_timeout_plus_period.) *)
Theorem C05_retention_boundary : forall timeout ops now a r,
  let t := trun timeout ops in
  rec_of (tcm t) a = Some r ->
  let t' := tstep timeout t (T_Sweep now) in
  ((now - c_seen r < timeout)%Z -> rec_of (tcm t') a = Some r) /\
  ((now - c_seen r >= timeout)%Z -> rec_of (tcm t') a = None /\ In (c_qid r, c_q r) (dead (tcm t'))).
Proof. intros timeout ops now a r t. apply sweep_boundary. apply trun_ginv. Qed.

Theorem C05_touch_refreshes_last_seen : forall timeout ops cid p now,
  exists r, rec_of (tcm (tstep timeout (trun timeout ops) (T_WriteTo cid p now))) (cid_key cid) = Some r /\ c_seen r = now.
Proof. intros timeout ops cid p now. apply writeto_touches. apply trun_ginv. Qed.

(* After an expiry the session gets a NEW queue: an identity that no queue, carrier or log entry ever had. *)
Theorem C05_new_queue_after_expiry : forall timeout ops cid p now,
  let t := trun timeout ops in
  rec_of (tcm t) (cid_key cid) = None ->
  let t' := tstep timeout t (T_WriteTo cid p now) in
  exists r, rec_of (tcm t') (cid_key cid) = Some r /\ c_qid r = next_qid (tcm t) /\ c_seen r = now /\ c_q r = [p] /\
            (forall q b, tied t q b -> (q < c_qid r)%nat) /\
            tacc t' = tacc t ++ [(cid_key cid, c_qid r, p)].
Proof. intros timeout ops cid p now t. apply new_incarnation. apply trun_ginv. Qed.

(* non-vacuity: a session (ClientID c1, conversation 7) moves from carrier 0 to carrier 1 across an idle gap of
   59.999 s with the sweeper running in between and at its end; a packet written during the gap waits and is delivered
   to the new carrier; the listener has one connection, input both datagrams in order. *)
Definition c05_dgram (conv sn : N) : bytes := [conv;0;0;0; 81;0;128;0; 0;0;0;0; sn;0;0;0; 0;0;0;0; 0;0;0;0].
Definition c05_moving : list top :=
  let c1 := [1;2;3;4;5;6;7;8] in
  [T_New; T_Recv 0 (TOKEN ++ c1 ++ [152] ++ c05_dgram 7 0) 0; T_WriteTo c1 [70] 5; T_Send 0 5; T_Close 0;
   T_WriteTo c1 [71] 10; T_Sweep 30000; T_Sweep 60009;
   T_New; T_Recv 1 (TOKEN ++ c1) 60009; T_Recv 1 ([152] ++ c05_dgram 7 1) 60010; T_Send 1 60010; T_Send 1 60011;
   T_ReadFrom; T_ReadFrom].

Example C05_moving_session_example :
  let c1 := [1;2;3;4;5;6;7;8] in
  let t := trun 60000 c05_moving in
  fresh_from 60000 (cid_key c1) tinit c05_moving /\
  (forall x, In x (tdelivered t) -> from_key c1 x = true -> exists sn, conv_sn (dgram x) = Some (7, sn)) /\
  listener_view (tdelivered t) = [{| l_key := c1; l_conv := 7; l_in := [c05_dgram 7 0; c05_dgram 7 1]; l_live := true |}] /\
  tcons t = [(Some 0%nat, cid_key c1, 0%nat, [70]); (Some 1%nat, cid_key c1, 0%nat, [71])] /\
  dead (tcm t) = [].
Proof.
  cbn zeta. split; [apply fresh_fromb_ok; vm_compute; reflexivity|]. split.
  - intros x Hin _. vm_compute in Hin. destruct Hin as [<-|[<-|[]]]; vm_compute; eexists; reflexivity.
  - vm_compute. repeat split.
Qed.

(* non-vacuity of C05_two_convs_two_connections, concrete bytes: ClientID c1 sends two datagrams of conversation 7
   (sn 0, 1), a datagram of another ClientID is read in between, then c1 sends conversation 9 with sn = 0: two accepted
   connections under c1, the first closed with its two datagrams, the second live; the other ClientID keeps its own.
   With sn = 1 instead, the datagram of conversation 9 is dropped and c1 keeps its one connection. *)
Example C05_two_convs_two_connections_example :
  let c1 := [1;2;3;4;5;6;7;8] in let c2 := [9;9;9;9;9;9;9;9] in
  let read := [(c05_dgram 7 0, c1); (c05_dgram 5 0, c2); (c05_dgram 7 1, c1)] in
  (forall x, In x read -> from_key c1 x = true -> exists sn, conv_sn (dgram x) = Some (7, sn)) /\
  filter (from_key c1) read <> [] /\ long_enough (c05_dgram 9 0, c1) = true /\
  conv_sn (dgram (c05_dgram 9 0, c1)) = Some (9, 0) /\
  listener_view (read ++ [(c05_dgram 9 0, c1)]) =
    [{| l_key := c1; l_conv := 7; l_in := [c05_dgram 7 0; c05_dgram 7 1]; l_live := false |};
     {| l_key := c2; l_conv := 5; l_in := [c05_dgram 5 0]; l_live := true |};
     {| l_key := c1; l_conv := 9; l_in := [c05_dgram 9 0]; l_live := true |}] /\
  listener_view (read ++ [(c05_dgram 9 1, c1)]) =
    [{| l_key := c1; l_conv := 7; l_in := [c05_dgram 7 0; c05_dgram 7 1]; l_live := true |};
     {| l_key := c2; l_conv := 5; l_in := [c05_dgram 5 0]; l_live := true |}].
Proof.
  cbn zeta. split.
  - intros x Hin Hf. destruct Hin as [<-|[<-|[<-|[]]]]; try (vm_compute; eexists; reflexivity). vm_compute in Hf. discriminate.
  - split; [vm_compute; discriminate|]. vm_compute. repeat split.
Qed.

(* the hypothesis of C05_window_below_retention_is_fresh is satisfiable: a schedule with an idle gap of 59.9 s *)
Example C05_window_example :
  Forall (in_window 60000 100) [T_New; T_Recv 0 (TOKEN ++ [1;2;3;4;5;6;7;8]) 100; T_WriteTo [1;2;3;4;5;6;7;8] [70] 101; T_Close 0;
                                T_Sweep 30100; T_Sweep 60000; T_New; T_Recv 1 (TOKEN ++ [1;2;3;4;5;6;7;8]) 60050; T_Send 1 60099].
Proof. repeat constructor; cbn; lia. Qed.

(* ... and beyond the retention: the same session with the sweeper finding the record idle for exactly the timeout:
   the waiting packet is lost with the closed queue, the new carrier gets a new queue (identity 1) and is written
   only what is written afterwards — and the listener still has ONE connection. *)
Definition c05_expired : list top :=
  let c1 := [1;2;3;4;5;6;7;8] in
  [T_New; T_Recv 0 (TOKEN ++ c1 ++ [152] ++ c05_dgram 7 0) 0; T_WriteTo c1 [70] 5; T_Send 0 5; T_Close 0;
   T_WriteTo c1 [71] 10; T_Sweep 60010;
   T_New; T_Recv 1 (TOKEN ++ c1 ++ [152] ++ c05_dgram 7 1) 60011; T_Send 1 60011; T_WriteTo c1 [72] 60012; T_Send 1 60012;
   T_ReadFrom; T_ReadFrom].

Example C05_expired_session_example :
  let c1 := [1;2;3;4;5;6;7;8] in
  let t := trun 60000 c05_expired in
  ~ fresh_from 60000 (cid_key c1) tinit c05_expired /\
  dead (tcm t) = [(0%nat, [[71]])] /\
  tcons t = [(Some 0%nat, cid_key c1, 0%nat, [70]); (Some 1%nat, cid_key c1, 1%nat, [72])] /\
  listener_view (tdelivered t) = [{| l_key := c1; l_conv := 7; l_in := [c05_dgram 7 0; c05_dgram 7 1]; l_live := true |}].
Proof.
  cbn zeta. split.
  - intros H. cbn [fresh_from c05_expired] in H. decompose [and] H. clear H.
    match goal with Hs : ~ stale _ _ _ (T_Sweep 60010) |- _ => apply Hs end.
    vm_compute. eexists. split; reflexivity.
  - vm_compute. repeat split.
Qed.

(* ====================================================================================== a failing downstream write

   Model/CarrierFail.v: the carrier layer with one more operation, [F_SendFail i n] = carrier i's write loop takes the
   next packet of its ClientID, n bytes of its frame reach the connection, the Write reports an error (the peer is gone,
   the proxy was killed, ...).  [frun ops] for EVERY sequence of carrier-layer operations and failing writes, at any
   point, on any carriers, any number of them.  Does the operation add anything?  The STATE it reaches (packet off the
   queue, logged as lost, carrier dead) is the one S_Send reaches when WriteData itself refuses a packet, which the
   theorems above already quantify over; what it adds is (1) that state for ORDINARY packets, i.e. at every point of
   every history, (2) the bytes of the failed frame that did reach the wire, and (3) the explicit frame statement that
   the step touches no other carrier - the clause a buffer that survives the failure (recycled, shared) would break. *)

(* conservative: without failing writes it is the machine of all the theorems above *)
Theorem C05_fail_machine_is_conservative : forall ops, frun (map F_Op ops) = {| f_s := srun ops; f_tail := [] |}.
Proof. exact frun_without_failures. Qed.

(* the isolation and exactly-once statements hold of the machine with failing writes *)
Theorem C05_fail_upstream_tag : forall ops p a,
  In (p, a) (delivered (f_s (frun ops)) ++ recvq (f_s (frun ops))) ->
  exists i k, nth_error (carriers (f_s (frun ops))) i = Some k /\ k_cid k = a /\ In p (k_up k) /\ ~ pre_open k.
Proof. intros ops. apply (si_up _ (proj1 (frun_inv ops))). Qed.

Theorem C05_fail_downstream_only_same_id : forall ops i k p,
  nth_error (carriers (f_s (frun ops))) i = Some k -> In p (k_down k) -> In (k_cid k, p) (accepted (f_s (frun ops))).
Proof. intros ops. apply (si_down _ (proj1 (frun_inv ops))). Qed.

Theorem C05_fail_downstream_exactly_once_in_order : forall ops c,
  acc_for c (accepted (f_s (frun ops))) = cons_for c (consumed (f_s (frun ops))) ++ q_lookup c (sendqs (f_s (frun ops))).
Proof. intros ops. apply (oi_fifo _ (proj2 (frun_inv ops))). Qed.

(* what a carrier was written (whole packets) is exactly its own log entries: a packet logged as lost - the failed
   write - is in NO carrier's *)
Theorem C05_fail_carrier_gets_its_log_entries : forall ops i k,
  nth_error (carriers (f_s (frun ops))) i = Some k -> k_down k = down_of i (consumed (f_s (frun ops))).
Proof. intros ops. apply (oi_down _ (proj2 (frun_inv ops))). Qed.

(* the step itself: the carrier was open and had a packet p queued for its ClientID; afterwards p has left the queue
   and is logged as lost, the carrier is dead, and EVERY carrier (this one included) has been written exactly the
   packets and whole frames it had been written before; no other queue, nothing upstream changes *)
Theorem C05_write_failure_reaches_no_carrier : forall s i n s' t, fail_send s i n = (s', Some t) ->
  exists k p q', nth_error (carriers s) i = Some k /\ k_state k = K_Open /\ q_lookup (k_cid k) (sendqs s) = p :: q' /\
    t = (match write_data p with Some w => firstn n w | None => [] end) /\
    consumed s' = consumed s ++ [(None, k_cid k, p)] /\
    q_lookup (k_cid k) (sendqs s') = q' /\
    (forall c, beq c (k_cid k) = false -> q_lookup c (sendqs s') = q_lookup c (sendqs s)) /\
    accepted s' = accepted s /\ recvq s' = recvq s /\ delivered s' = delivered s /\
    length (carriers s') = length (carriers s) /\
    (forall j kj, nth_error (carriers s) j = Some kj ->
       exists kj', nth_error (carriers s') j = Some kj' /\ k_down kj' = k_down kj /\ k_wire kj' = k_wire kj /\
                   k_up kj' = k_up kj /\ k_cid kj' = k_cid kj /\
                   k_state kj' = (if Nat.eqb j i then K_Dead else k_state kj)).
Proof. exact fail_send_frame. Qed.

(* all the bytes a carrier was ever written: the frames of the packets it was written (which decode, under any reader
   fragmentation, to exactly those packets: wire_decodes / C05_downstream_wire), followed by nothing - or, on a carrier
   that died of a failed write, by a prefix of the frame of ONE more packet that WriteTo accepted for the ClientID that
   very carrier presented (and that is logged as lost).  Never a byte of another session's packet. *)
Theorem C05_fail_wire : forall ops i k,
  nth_error (carriers (f_s (frun ops))) i = Some k ->
  exists (w t : bytes), wire_of (k_down k) = Some w /\ full_wire (frun ops) i k = w ++ t /\
    (t = [] \/
     (k_state k = K_Dead /\ exists p n, In (k_cid k, p) (accepted (f_s (frun ops))) /\
                                        In (None, k_cid k, p) (consumed (f_s (frun ops))) /\
                                        t = (match write_data p with Some wp => firstn n wp | None => [] end))).
Proof. exact full_wire_spec. Qed.

(* non-vacuity: session A's carrier dies of a write that failed after 2 bytes while two packets were queued for A;
   then session B's carrier is written B's packet and nothing else; A's next carrier gets A's second packet; the
   failed packet is in nobody's wire *)
Example C05_fail_example :
  let a := [1;2;3;4;5;6;7;8] in let b := [9;9;9;9;9;9;9;9] in
  let s := frun [F_Op S_New; F_Op (S_Recv 0 (TOKEN ++ a)); F_Op (S_WriteTo a [70; 71; 72]); F_Op (S_WriteTo a [80]);
                 F_SendFail 0 2;
                 F_Op S_New; F_Op (S_Recv 1 (TOKEN ++ b)); F_Op (S_WriteTo b [90]); F_Op (S_Send 1);
                 F_Op S_New; F_Op (S_Recv 2 (TOKEN ++ a)); F_Op (S_Send 2); F_Op (S_Send 0)] in
  f_tail s = [(0%nat, [131; 70])] /\ consumed (f_s s) = [(None, a, [70; 71; 72]); (Some 1%nat, b, [90]); (Some 2%nat, a, [80])] /\
  (exists k, nth_error (carriers (f_s s)) 0 = Some k /\ k_state k = K_Dead /\ full_wire s 0 k = [131; 70]) /\
  (exists k, nth_error (carriers (f_s s)) 1 = Some k /\ full_wire s 1 k = [129; 90]) /\
  (exists k, nth_error (carriers (f_s s)) 2 = Some k /\ full_wire s 2 k = [129; 80]) /\
  fail_send (f_s (frun [F_Op S_New; F_Op (S_Recv 0 (TOKEN ++ a)); F_Op (S_WriteTo a [70; 71; 72])])) 0 2
    = (f_s (frun [F_Op S_New; F_Op (S_Recv 0 (TOKEN ++ a)); F_Op (S_WriteTo a [70; 71; 72]); F_SendFail 0 2]), Some [131; 70]).
Proof. vm_compute. repeat split; eexists; repeat split. Qed.
