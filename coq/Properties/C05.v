(* C05 — The server binds packets to sessions by ClientID; sessions never mix (carrier layer).
   Statements over Model/CarrierLayer.v: any number of carriers, any interleaving of upstream byte
   arrivals in any fragmentation, closes at any point, packets written by KCP to any ClientID, write loops
   taking packets, reads by KCP — [srun ops] for EVERY op sequence. Partial by design: that a session
   moving between carriers "surfaces as exactly one accepted connection whose stream continues" depends on
   kcp-go/smux keyed by the ClientID address; it is observed by black-box runs (C18, C01), not proved. *)
From Coq Require Import List NArith Bool Arith.
From Snow Require Import Lib.Wire Model.Encap Proofs.EncapProofs Model.CarrierLayer Proofs.CarrierProofs Proofs.CarrierOnceProofs Proofs.CarrierFragProofs.
Import ListNotations.
Open Scope N_scope.

(* Upstream: every packet the server hands to KCP under ClientID a was extracted, as a whole data chunk,
   from the stream of a carrier that presented the token and exactly that ClientID. *)
Theorem C05_upstream_tag : forall ops p a,
  In (p, a) (delivered (srun ops) ++ recvq (srun ops)) ->
  exists i k, nth_error (carriers (srun ops)) i = Some k /\ k_cid k = a /\ In p (k_up k) /\ ~ pre_open k.
Proof. intros ops. apply (si_up _ (srun_inv ops)). Qed.

(* Downstream: whatever a carrier was written was addressed (by WriteTo) to the ClientID that carrier
   presented; the queued packets of a ClientID likewise. *)
Theorem C05_downstream_only_same_id : forall ops i k p,
  nth_error (carriers (srun ops)) i = Some k -> In p (k_down k) -> In (k_cid k, p) (accepted (srun ops)).
Proof. intros ops. apply (si_down _ (srun_inv ops)). Qed.

Theorem C05_queued_only_same_id : forall ops c p,
  In p (q_lookup c (sendqs (srun ops))) -> In (c, p) (accepted (srun ops)).
Proof. intros ops. apply (si_queue _ (srun_inv ops)). Qed.

(* ... and the bytes on the wire of that carrier decode, under ANY reader fragmentation (C09), to exactly
   those packets in order: no truncated, merged or foreign packet. *)
Theorem C05_downstream_wire : forall ops i k sc,
  nth_error (carriers (srun ops)) i = Some k -> read_stream (k_wire k) sc = (k_down k, EOF).
Proof.
  intros ops i k sc Hk. apply wire_decodes. apply (si_wire _ (srun_inv ops) i k Hk).
Qed.

(* Exactly once and in order, across any number of carriers of a session: for every ClientID c the packets
   accepted by WriteTo for c are, IN ORDER, the packets consumed from c's queue so far followed by those still
   queued; each consumed packet went to exactly ONE carrier (the one recorded in the log; or was lost because
   WriteData failed, which closes that carrier), what carrier i was written is exactly the log entries owned
   by i, and an owning carrier presented token and the queue's ClientID. *)
Theorem C05_downstream_exactly_once_in_order : forall ops c,
  acc_for c (accepted (srun ops)) = cons_for c (consumed (srun ops)) ++ q_lookup c (sendqs (srun ops)).
Proof. intros ops. apply (oi_fifo _ (srun_oinv ops)). Qed.

Theorem C05_carrier_gets_its_log_entries : forall ops i k,
  nth_error (carriers (srun ops)) i = Some k -> k_down k = down_of i (consumed (srun ops)).
Proof. intros ops. apply (oi_down _ (srun_oinv ops)). Qed.

Theorem C05_consumer_presented_the_clientid : forall ops i c p,
  In (Some i, c, p) (consumed (srun ops)) ->
  exists k, nth_error (carriers (srun ops)) i = Some k /\ k_cid k = c /\ ~ pre_open k.
Proof. intros ops. apply (oi_owner _ (srun_oinv ops)). Qed.

(* A carrier that has not (yet) presented token and ClientID has no effect at all ... *)
Theorem C05_no_token_no_effect : forall ops i k,
  nth_error (carriers (srun ops)) i = Some k -> pre_open k ->
  k_up k = [] /\ k_down k = [] /\ k_wire k = [].
Proof. intros ops. apply (si_pre _ (srun_inv ops)). Qed.

(* ... a wrong token closes it on the spot, with nothing queued ... *)
Theorem C05_wrong_token_rejected : forall f k,
  k_state k = K_Token -> (8 <= length (k_buf k))%nat -> beq (firstn 8 (k_buf k)) TOKEN = false ->
  exists k', pump (S f) k = (k', []) /\ k_state k' = K_Dead /\
             k_up k' = k_up k /\ k_down k' = k_down k /\ k_wire k' = k_wire k.
Proof. exact token_reject. Qed.

(* ... and a closed carrier never does anything again. *)
Theorem C05_closed_stays_closed : forall s i k o,
  nth_error (carriers s) i = Some k -> k_state k = K_Dead ->
  exists k', nth_error (carriers (sstep s o)) i = Some k' /\ k_state k' = K_Dead /\
             k_up k' = k_up k /\ k_down k' = k_down k /\ k_wire k' = k_wire k.
Proof. exact dead_forever. Qed.

(* The read loop's result does not depend on how the carrier's bytes are split into arrivals: pumping
   b1 and then b2 queues the same packets, leaves the same residue and reaches the same open/closed state
   as pumping b1 ++ b2 at once (a cut stream therefore yields whole chunks only: C09_truncation_prefix). *)
Theorem C05_fragmentation_independent : forall f1 b1 b2, (length b1 < f1)%nat ->
  open_pump (S (length (b1 ++ b2))) (b1 ++ b2) =
  let '(ps1, t1, d1) := open_pump f1 b1 in
  if d1 then (ps1, [], true)
  else let '(ps2, t2, d2) := open_pump (S (length (t1 ++ b2))) (t1 ++ b2) in (ps1 ++ ps2, t2, d2).
Proof. exact open_pump_app. Qed.

(* At the level of the whole server state and in every phase (token, ClientID, chunks): any number of
   consecutive arrivals on a carrier leave the server in exactly the state of ONE arrival of their
   concatenation — same carriers, same queued packets under the same ClientIDs, same everything. *)
Theorem C05_arrivals_concatenate : forall s i b1 b2,
  sstep (sstep s (S_Recv i b1)) (S_Recv i b2) = sstep s (S_Recv i (b1 ++ b2)).
Proof. exact recv_split. Qed.

Theorem C05_arrivals_concatenate_many : forall pieces s i b,
  fold_left (fun st x => sstep st (S_Recv i x)) pieces (sstep s (S_Recv i b)) = sstep s (S_Recv i (b ++ concat pieces)).
Proof. exact recv_pieces. Qed.

Theorem C05_pump_is_open_pump : forall fuel k, k_state k = K_Open ->
  let '(ps, t, dd) := open_pump fuel (k_buf k) in
  exists k', pump fuel k = (k', ps) /\ k_buf k' = t /\ k_state k' = (if dd then K_Dead else K_Open) /\ k_cid k' = k_cid k.
Proof. exact pump_is_open_pump. Qed.

(* non-vacuity: two sessions, one carrier each, upstream packets tagged correctly, downstream routed *)
Example C05_example :
  let c1 := [1;2;3;4;5;6;7;8] in let c2 := [9;9;9;9;9;9;9;9] in
  let s := srun [S_New; S_New; S_Recv 0 (TOKEN ++ c1 ++ [130; 65; 66]); S_Recv 1 (TOKEN ++ c2 ++ [129]); S_Recv 1 [67];
                 S_WriteTo c2 [70]; S_WriteTo c1 [71]; S_Send 0; S_Send 1] in
  recvq s = [([65; 66], c1); ([67], c2)] /\
  (exists k, nth_error (carriers s) 0 = Some k /\ k_down k = [[71]] /\ k_wire k = [129; 71]) /\
  (exists k, nth_error (carriers s) 1 = Some k /\ k_down k = [[70]]).
Proof. vm_compute. repeat split; eexists; repeat split. Qed.
