(* C02 — The broker never cross-wires offers, answers or bridges.
   Statements over the interleaving machine of Model/Broker.v: [reachable v br s] = s is reached from
   the empty broker with bridge list br by ANY finite sequence of labels (arrivals of proxy polls,
   client polls and proxy answers with any sids / offers / answers / fingerprints, timer firings,
   select choices, rendezvous), for both protocol versions. An entry is one registered proxy poll;
   the client that popped it is stored inside it, so "the poll that was handed that client's offer"
   is the entry holding the client. Proofs: Proofs/BrokerProofs.v, BrokerSteps.v, BrokerThms.v. *)
From Coq Require Import List NArith ZArith Bool.
From Snow Require Import Model.Broker Proofs.BrokerProofs Proofs.BrokerSteps Proofs.BrokerThms Proofs.BrokerHist Proofs.BrokerUrlHist.
From Snow Require Import Proofs.BrokerLate.
Import ListNotations.
Open Scope N_scope.

(* Whenever a client is given an answer a, an answer request carrying exactly a was made under the
   session id of the very poll that received this client's offer; and what that poll returned (if it
   returned a match) is this client's offer. *)
Theorem C02_answer_routing : forall v br s p e c a,
  reachable v br s -> nth_error (entries s) p = Some e -> e_cl e = Some c -> client_answered c a ->
  (exists aid, In (aid, e_sid e, a) (answer_log s)) /\
  (forall m, e_w e = W_Done (PMatch m) -> m_offer m = c_offer c).
Proof. exact answer_routing. Qed.

(* The same over histories, at full strength: the answer a client is given was carried by an answer request OF THE
   HISTORY (label L_Answer sid a at some position), made under the session id of the poll holding this client, and
   at the moment that request was made its session-id lookup resolved to this very poll (entry p) - not merely to
   some poll registered under an equal id at some other time. *)
Theorem C02_answer_resolved_to_this_poll : forall v br ls s p e c a,
  run v (init br) ls = Some s -> nth_error (entries s) p = Some e -> e_cl e = Some c -> client_answered c a ->
  exists pre post s1, ls = pre ++ L_Answer (e_sid e) a :: post /\ run v (init br) pre = Some s1 /\
                      lookup (e_sid e) (idmap s1) = Some p.
Proof. exact answer_resolved_to_this_poll. Qed.

(* ---- what a finished exchange leaves behind. A LATE answer - posted after the client's 10 s timer made its select
   commit to the timeout, but looked up before the client's final critical section removed the session id - is
   ACCEPTED into the poll's answer channel (C02_late_answer_example: the proxy is told 'success'). It is never
   delivered: [finished e] = the exchange of this poll is over (in no heap; its client has left the select, or it
   expired unmatched); [told e] = the response chosen for its client. ---- *)

(* Along ANY continuation (any number of further polls, clients, answers, timer firings) of a reachable state in which
   poll p's client has timed out: nobody ever receives from p's answer channel (no L_CTakeAnswer p / L_RvAnswer p
   occurs), and that client's response is and stays 'timed out'. *)
Theorem C02_late_answer_dies_with_its_poll : forall v br ls s s' p e c,
  reachable v br s -> nth_error (entries s) p = Some e -> e_cl e = Some c ->
  (c_pc c = C_Cleanup CTimedOut \/ c_pc c = C_Done CTimedOut) ->
  run v s ls = Some s' ->
  ~ In (L_CTakeAnswer p) ls /\ ~ In (L_RvAnswer p) ls /\
  exists e' c', nth_error (entries s') p = Some e' /\ e_cl e' = Some c' /\
                (c_pc c' = C_Cleanup CTimedOut \/ c_pc c' = C_Done CTimedOut).
Proof. exact late_answer_dies_with_its_poll. Qed.

(* the general form: once an exchange is over (client answered or timed out, or the poll expired unmatched - possibly
   with an early answer still in its channel), from ANY state, its channel is never received from again and what its
   client was told never changes *)
Theorem C02_finished_exchange_is_inert : forall v ls s s' p e,
  run v s ls = Some s' -> nth_error (entries s) p = Some e -> finished e = true ->
  ~ In (L_CTakeAnswer p) ls /\ ~ In (L_RvAnswer p) ls /\
  exists e', nth_error (entries s') p = Some e' /\ finished e' = true /\ told e' = told e.
Proof. exact finished_forever. Qed.

Theorem C02_client_left_is_finished : forall v br s p e c r,
  reachable v br s -> nth_error (entries s) p = Some e -> e_cl e = Some c ->
  (c_pc c = C_Cleanup r \/ c_pc c = C_Done r) -> finished e = true /\ told e = Some r.
Proof. exact reachable_client_left_finished. Qed.

Theorem C02_expired_poll_is_finished : forall v br s p e,
  reachable v br s -> nth_error (entries s) p = Some e -> e_cl e = None -> e_w e = W_Done PNoMatch -> finished e = true.
Proof. exact reachable_expired_finished. Qed.

(* ... and the late answer cannot reach the client of a LATER poll q by any other way either: if every answer request of
   the history that carried a resolved, when it was made, to some other poll (the one whose client had gone) or to
   nothing, the client of q is never given a. (Contrapositive of C02_answer_resolved_to_this_poll, spelled out.) *)
Theorem C02_late_answer_never_delivered_later : forall v br ls s q e c a,
  run v (init br) ls = Some s -> nth_error (entries s) q = Some e -> e_cl e = Some c ->
  (forall pre post s1 sd, ls = pre ++ L_Answer sd a :: post -> run v (init br) pre = Some s1 ->
                          lookup sd (idmap s1) <> Some q) ->
  ~ client_answered c a.
Proof. exact late_answer_never_delivered_later. Qed.

(* non-vacuity: poll 0 (sid 1) is handed client 0's offer; the client's timer fires and its select commits to the
   timeout; THEN answer 500 is looked up (still registered), sent and accepted (done_answers: ok = true); the client
   deregisters. Two further exchanges follow (sids 2, 3) with their own answers 502, 503: each client receives its
   own; answer 500 is still in poll 0's channel at the end and client 0 was told 'timed out'. *)
Example C02_late_answer_example :
  exists s e0 c0 e1 c1 e2 c2,
    run V1 (init [(7, 9)])
      [L_Poll 1 NatUnrestricted 1 0; L_Client NatRestricted (Some 7) 100 (Some 0%nat); L_RvOffer 0; L_RvForward 0;
       L_FireC 0; L_CTake 0; L_Answer 1 500; L_AnswerPut 0; L_CCleanup 0;
       L_Poll 2 NatUnrestricted 1 0; L_Client NatUnknown (Some 7) 101 (Some 1%nat); L_RvOffer 1; L_RvForward 1;
       L_Answer 2 502; L_AnswerPut 1; L_CTakeAnswer 1; L_CCleanup 1;
       L_Poll 3 NatUnrestricted 1 0; L_Client NatRestricted (Some 7) 102 (Some 2%nat); L_RvOffer 2; L_RvForward 2;
       L_Answer 3 503; L_AnswerPut 2; L_CTakeAnswer 2; L_CCleanup 2] = Some s /\
    map (fun '(_, sd, a, ok) => (sd, a, ok)) (done_answers s) = [(3, 503, true); (2, 502, true); (1, 500, true)] /\
    nth_error (entries s) 0 = Some e0 /\ e_cl e0 = Some c0 /\ c_pc c0 = C_Done CTimedOut /\ e_buf e0 = Some 500 /\
    finished e0 = true /\
    nth_error (entries s) 1 = Some e1 /\ e_cl e1 = Some c1 /\ c_pc c1 = C_Done (CAnswer 502) /\
    nth_error (entries s) 2 = Some e2 /\ e_cl e2 = Some c2 /\ c_pc c2 = C_Done (CAnswer 503) /\
    quiescent s = true.
Proof. do 7 eexists. vm_compute. repeat split. Qed.

(* Each proxy poll receives at most one offer: in any history (from any state) no poll occurs in two accepted client
   matches - once popped, a poll never returns to the pool (C03_left_pool_forever). *)
Theorem C02_poll_gets_at_most_one_offer : forall v s0 pre mid post n1 f1 o1 n2 f2 o2 p q s,
  run v s0 (pre ++ L_Client n1 f1 o1 (Some p) :: mid ++ L_Client n2 f2 o2 (Some q) :: post) = Some s -> p <> q.
Proof. exact poll_gets_at_most_one_offer. Qed.

(* Each offer is handed to at most one poll (a client sits in at most one entry); each poll holds at
   most one client and returns at most one response by construction of [entry]. *)
Theorem C02_offer_once : forall v br s p q e1 e2 c1 c2,
  reachable v br s -> nth_error (entries s) p = Some e1 -> nth_error (entries s) q = Some e2 ->
  e_cl e1 = Some c1 -> e_cl e2 = Some c2 -> c_id c1 = c_id c2 -> p = q.
Proof. exact offer_once. Qed.

(* ---- bridges. The bridge list can be replaced at any step (label L_Install = LoadBridgeInfo; [bridges s] is the
   list current in s, the ghost [br_hist s] every list installed so far, newest first). A client label carries
   the fingerprint field as sent (None = empty); [fp_of] is the defaulting of DecodeClientPollRequest. The client
   record remembers (ghost) the URL [c_url] that the list current at its request configured for its fingerprint
   and the number [c_epoch] of lists installed until then. ---- *)

(* the ghost history means what it says *)
Theorem C02_install_history : forall v s l s', step v s l = Some s' ->
  bridges s' = (match l with L_Install br => br | _ => bridges s end) /\
  br_hist s' = (match l with L_Install br => br :: br_hist s | _ => br_hist s end).
Proof. exact step_hist. Qed.

(* An accepted client request is checked against the list installed at the time of the request: the client is
   recorded with the fingerprint it named (the default bridge if it named none) and the URL this list configures. *)
Theorem C02_client_checked : forall v s n ofp o p s',
  step v s (L_Client n ofp o (Some p)) = Some s' ->
  exists e c, nth_error (entries s') p = Some e /\ e_cl e = Some c /\ c_fp c = fp_of ofp /\ c_offer c = o /\
    c_nat c = n /\ lookup (fp_of ofp) (bridges s) = Some (c_url c) /\ c_epoch c = List.length (br_hist s) /\
    bridges s' = bridges s.
Proof. exact client_checked. Qed.

(* The current list is the newest installed one (the head of the ghost history) ... *)
Theorem C02_current_list_is_newest : forall v br s, reachable v br s -> nth_error (br_hist s) 0 = Some (bridges s).
Proof. exact current_list_is_newest. Qed.

(* ... and what the positions of the history mean: in any state s' reached from a reachable state s the history is
   the lists installed since s (newest first) followed by the history of s, so position
   [length (br_hist s') - length (br_hist s)] holds the list that was current in s, and the positions up to it hold
   exactly that list and the lists installed after s. Take for s the state of a client's request
   (C02_client_checked: c_epoch c = length (br_hist s)). *)
Theorem C02_lists_since : forall v br s ls s', reachable v br s -> run v s ls = Some s' ->
  exists newer, br_hist s' = newer ++ br_hist s /\
    List.length newer = (List.length (br_hist s') - List.length (br_hist s))%nat /\
    nth_error (br_hist s') (List.length newer) = Some (bridges s).
Proof. exact lists_since. Qed.

(* A match response carries the offer and NAT type of the client that claimed this poll, and a relay URL that a list
   installed NOT BEFORE the client's request configures for the fingerprint that client named: the list the URL
   was looked up in sits at a position i <= length (br_hist s) - c_epoch c of the history, i.e. it is the list that
   was current at the client's request or one installed after it - never an older one (the stale URL). The list at
   that very position is the one the client was checked against (it configures c_url c), and when no list was
   installed in between (c_epoch c = length (br_hist s)) the URL handed out is that URL. The handler looks the URL
   up when it replies, hence "or later": see C02_reinstall_between_request_and_forward. *)
Theorem C02_relay_url_not_older_than_request : forall v br s p e m,
  reachable v br s -> nth_error (entries s) p = Some e -> e_w e = W_Done (PMatch m) ->
  exists c, e_cl e = Some c /\ m_offer m = c_offer c /\ m_nat m = c_nat c /\
    (c_epoch c <= List.length (br_hist s))%nat /\
    (exists b0, nth_error (br_hist s) (List.length (br_hist s) - c_epoch c) = Some b0 /\
                lookup (c_fp c) b0 = Some (c_url c)) /\
    (exists i b, (i <= List.length (br_hist s) - c_epoch c)%nat /\ nth_error (br_hist s) i = Some b /\
                 lookup (c_fp c) b = Some (m_url m)) /\
    (c_epoch c = List.length (br_hist s) -> m_url m = c_url c).
Proof. exact match_response_since_request. Qed.

(* The same over histories, with no reference to the ghost fields: in any history from the empty broker, a poll that
   returned a match m was handed it by a step L_RvForward p OF THE HISTORY; the URL is what the list current at that
   step configures for the fingerprint the client named; that client's accepted request L_Client n ofp o (Some p) comes
   EARLIER in the history (and was accepted against the list current then: its fingerprint was in it); offer and NAT
   type are the request's. So the list the URL is taken from is the one current at the request or one installed after
   it (C02_lists_since applied to sreq and the run up to sfwd), never one replaced before the request. *)
Theorem C02_relay_url_history : forall v br ls s p e m,
  run v (init br) ls = Some s -> nth_error (entries s) p = Some e -> e_w e = W_Done (PMatch m) ->
  exists pre n ofp o mid post sreq sfwd,
    ls = pre ++ L_Client n ofp o (Some p) :: mid ++ L_RvForward p :: post /\
    run v (init br) pre = Some sreq /\
    run v (init br) (pre ++ L_Client n ofp o (Some p) :: mid) = Some sfwd /\
    m_offer m = o /\ m_nat m = n /\
    lookup (fp_of ofp) (bridges sreq) <> None /\
    lookup (fp_of ofp) (bridges sfwd) = Some (m_url m).
Proof. exact relay_url_history. Qed.

(* The weaker form (a corollary, kept for its name): some installed list configures the URL. Its first existential
   ranges over the whole history, so alone it would allow a URL from a list older than the request once any list was
   installed after it; C02_relay_url_not_older_than_request excludes that. *)
Theorem C02_relay_url : forall v br s p e m,
  reachable v br s -> nth_error (entries s) p = Some e -> e_w e = W_Done (PMatch m) ->
  exists c, e_cl e = Some c /\ m_offer m = c_offer c /\ m_nat m = c_nat c /\
    (exists b, In b (br_hist s) /\ lookup (c_fp c) b = Some (m_url m)) /\
    (exists b, In b (br_hist s) /\ lookup (c_fp c) b = Some (c_url c)) /\
    (m_url m = c_url c \/ (c_epoch c < List.length (br_hist s))%nat).
Proof. exact match_response. Qed.

(* With the list installed once and for all (what the broker binary does: main installs it before serving) this
   is simply: the relay URL configured for the fingerprint the client named. *)
Theorem C02_relay_url_static : forall v br s p e m,
  reachable v br s -> br_hist s = [br] -> nth_error (entries s) p = Some e -> e_w e = W_Done (PMatch m) ->
  exists c, e_cl e = Some c /\ m_offer m = c_offer c /\ m_nat m = c_nat c /\ lookup (c_fp c) br = Some (m_url m).
Proof. exact match_response_static. Qed.

(* The proxy handler's own bridge lookup can fail (the poll is answered with an error and the client's offer is
   lost) only if a list was installed after the client's request. *)
Theorem C02_proxy_error_only_after_reinstall : forall v br s p e,
  reachable v br s -> nth_error (entries s) p = Some e -> e_w e = W_Done PError ->
  exists c, e_cl e = Some c /\ (c_epoch c < List.length (br_hist s))%nat.
Proof. exact proxy_error_only_after_reinstall. Qed.

(* A client naming a fingerprint absent from the list installed at the time of its request is never matched:
   no entry changes. *)
Theorem C02_unknown_bridge : forall v s n ofp o ch s',
  step v s (L_Client n ofp o ch) = Some s' -> lookup (fp_of ofp) (bridges s) = None ->
  ch = None /\ entries s' = entries s /\ idmap s' = idmap s /\
  done_clients s' = (next_cid s, n, fp_of ofp, o, CBadFingerprint) :: done_clients s.
Proof. exact unknown_bridge_never_matched. Qed.

(* A client that names no bridge is treated exactly as one naming the default bridge: by C02_client_checked it is
   matched only if the installed list has the default fingerprint and the proxy is told that bridge's URL; by
   C02_unknown_bridge it is refused when an installed list replaced the built-in default bridge. *)
Theorem C02_default_bridge : forall v s n o ch,
  step v s (L_Client n None o ch) = step v s (L_Client n (Some default_fp) o ch).
Proof. exact default_bridge. Qed.

(* The invariant behind these statements holds in every reachable state of both versions. *)
Theorem C02_invariant : forall v br s, reachable v br s -> Inv v s.
Proof. exact reachable_inv. Qed.

(* non-vacuity: a run with two polls, two clients and two answers in which both clients are answered *)
Example C02_example :
  exists s, run V1 (init [(7, 9); (8, 10)])
    [L_Poll 1 NatUnrestricted 1 0; L_Poll 2 NatRestricted 1 3;
     L_Client NatRestricted (Some 7) 100 (Some 0%nat); L_Client NatUnrestricted (Some 8) 101 (Some 1%nat);
     L_RvOffer 1; L_RvOffer 0; L_RvForward 0; L_RvForward 1;
     L_Answer 2 502; L_Answer 1 501; L_AnswerPut 0; L_AnswerPut 1;
     L_CTakeAnswer 0; L_CTakeAnswer 1; L_CCleanup 1; L_CCleanup 0] = Some s /\
  quiescent s = true /\
  (exists e c, nth_error (entries s) 0 = Some e /\ e_cl e = Some c /\ client_answered c 501) /\
  (exists e c, nth_error (entries s) 1 = Some e /\ e_cl e = Some c /\ client_answered c 502).
Proof.
  eexists. split; [vm_compute; reflexivity|]. split; [vm_compute; reflexivity|].
  split; eexists; eexists; (split; [vm_compute; reflexivity|]); (split; [reflexivity|]); right; reflexivity.
Qed.

(* non-vacuity of the bridge statements: (1) a client naming no bridge is matched on the built-in list and its proxy
   is told the default bridge's URL; after an installed list replaced the default bridge it is refused;
   (2) C02_reinstall_witness: a list installed between a client's request and the proxy handler's reply decides the
   URL the proxy is told (10 instead of 9), or makes the handler fail. *)
Example C02_default_bridge_example :
  (exists s e m, run V1 (init builtin_bridges)
     [L_Poll 1 NatUnrestricted 1 0; L_Client NatRestricted None 100 (Some 0%nat); L_RvOffer 0; L_RvForward 0] = Some s /\
     nth_error (entries s) 0 = Some e /\ e_w e = W_Done (PMatch m) /\ m_url m = default_url) /\
  (exists s, run V1 (init builtin_bridges)
     [L_Install [(7, 9)]; L_Poll 1 NatUnrestricted 1 0; L_Client NatRestricted None 100 None] = Some s /\
     done_clients s = [(0%nat, NatRestricted, default_fp, 100, CBadFingerprint)]).
Proof. split; [eexists; eexists; eexists|eexists]; vm_compute; repeat split. Qed.

Example C02_reinstall_witness :
  (exists s e c m, run V1 (init [(7, 9)])
     [L_Poll 1 NatUnrestricted 1 0; L_Client NatRestricted (Some 7) 100 (Some 0%nat); L_Install [(7, 10)];
      L_RvOffer 0; L_RvForward 0] = Some s /\
     nth_error (entries s) 0 = Some e /\ e_cl e = Some c /\ e_w e = W_Done (PMatch m) /\
     c_url c = 9 /\ m_url m = 10 /\ (c_epoch c < List.length (br_hist s))%nat) /\
  (exists s e, run V1 (init [(7, 9)])
     [L_Poll 1 NatUnrestricted 1 0; L_Client NatRestricted (Some 7) 100 (Some 0%nat); L_Install [(8, 10)];
      L_RvOffer 0; L_RvForward 0] = Some s /\
     nth_error (entries s) 0 = Some e /\ e_w e = W_Done PError).
Proof.
  split.
  - eexists; eexists; eexists; eexists. vm_compute. repeat split. apply le_n.
  - eexists; eexists. vm_compute. repeat split.
Qed.

(* non-vacuity of C02_relay_url_not_older_than_request with installations on both sides of the request: the list
   [(7,8)] is replaced by [(7,9)] BEFORE the client's request (epoch 2), and by [(7,10)] and then [(7,11)] between
   the request and the forward. History, newest first: [(7,11)]; [(7,10)]; [(7,9)]; [(7,8)]. The list at the request
   sits at position 4 - 2 = 2 and configures c_url = 9; the URL handed out is 11, from position 0 <= 2; the older
   list at position 3 (URL 8, the stale one) is out of range although it, too, is "an installed list" and the
   disjunct c_epoch c < length of C02_relay_url holds. The run also has the shape C02_relay_url_history finds:
   pre = [L_Install; L_Poll], the request, mid = [L_Install; L_RvOffer; L_Install], the forward. *)
Example C02_reinstall_between_request_and_forward :
  exists s e c m, run V1 (init [(7, 8)])
     [L_Install [(7, 9)]; L_Poll 1 NatUnrestricted 1 0; L_Client NatRestricted (Some 7) 100 (Some 0%nat);
      L_Install [(7, 10)]; L_RvOffer 0; L_Install [(7, 11)]; L_RvForward 0] = Some s /\
     nth_error (entries s) 0 = Some e /\ e_cl e = Some c /\ e_w e = W_Done (PMatch m) /\
     br_hist s = [[(7, 11)]; [(7, 10)]; [(7, 9)]; [(7, 8)]] /\ c_epoch c = 2%nat /\
     nth_error (br_hist s) (List.length (br_hist s) - c_epoch c) = Some [(7, 9)] /\ c_url c = 9 /\
     m_url m = 11 /\ nth_error (br_hist s) 0 = Some [(7, 11)] /\
     nth_error (br_hist s) 3 = Some [(7, 8)] /\ lookup (c_fp c) [(7, 8)] = Some 8 /\ m_url m <> 8.
Proof. eexists; eexists; eexists; eexists. vm_compute. repeat split. intro H. vm_compute in H. discriminate H. Qed.

(* non-vacuity of the history statements: the run of C02_example has the shape required by
   C02_poll_gets_at_most_one_offer (two accepted matches, polls 0 and 1) and contains the answer requests that
   C02_answer_resolved_to_this_poll finds *)
Example C02_history_example :
  [L_Poll 1 NatUnrestricted 1 0; L_Poll 2 NatRestricted 1 3;
   L_Client NatRestricted (Some 7) 100 (Some 0%nat); L_Client NatUnrestricted (Some 8) 101 (Some 1%nat);
   L_RvOffer 1; L_RvOffer 0; L_RvForward 0; L_RvForward 1; L_Answer 2 502; L_Answer 1 501] =
  [L_Poll 1 NatUnrestricted 1 0; L_Poll 2 NatRestricted 1 3] ++ L_Client NatRestricted (Some 7) 100 (Some 0%nat) ::
  [] ++ L_Client NatUnrestricted (Some 8) 101 (Some 1%nat) ::
  [L_RvOffer 1; L_RvOffer 0; L_RvForward 0; L_RvForward 1; L_Answer 2 502; L_Answer 1 501].
Proof. reflexivity. Qed.

(* ---- The bridge list FILE (broker/bridge-list.go LoadBridgeInfo; Model/BrokerBridgeList.v, run against the real loader
   on generated file texts by `broker bload` and by the J installations of the scenarios).
   The lists the theorems above quantify over come out of this loader. Every line is decoded on its own into a fresh
   record, so the entry filed for a bridge is a function of ITS line alone: [entry_of_line l] mentions nothing but l, and
   in the map loaded from ANY file that contains l - whatever precedes it, whatever follows it under other
   fingerprints - the bridge of l has exactly the address of l. *)
From Snow Require Import Model.BrokerBridgeList.

Theorem C02_bridge_list_records_independent : forall pre l post m f u,
  load (pre ++ l :: post) = Some m -> entry_of_line l = Some (f, u) ->
  (forall l', In l' post -> names f l' = false) ->
  lookup f m = Some u.
Proof. exact records_independent. Qed.

(* ... conversely every entry of the loaded map is the entry of one of the lines, *)
Theorem C02_bridge_list_entries_come_from_lines : forall ls m f u, load ls = Some m -> lookup f m = Some u ->
  exists l, In l ls /\ entry_of_line l = Some (f, u).
Proof. exact load_sound. Qed.

(* ... a line whose record has no address member holding a string (absent, or null) files the EMPTY address, *)
Theorem C02_bridge_list_missing_address_is_empty : forall ms f u,
  (forall s, ~ In (KAddr, JStr s) ms) -> entry_of_line (Some ms) = Some (f, u) -> u = EMPTY.
Proof. exact missing_address_is_empty. Qed.

(* ... and the load fails (the list installed before stays in force) exactly when some line does not decode. *)
Theorem C02_bridge_list_load_fails_iff : forall ls, load ls = None <-> exists l, In l ls /\ entry_of_line l = None.
Proof. exact load_fails_iff. Qed.

(* non-vacuity, and what the theorem excludes: bridge 7 has a complete record, bridge 9 a record without address.
   The loader files the empty address for 9; a loader that decodes every line into ONE shared record (a streaming
   decoder whose target is declared outside the loop) files bridge 7's address for it. *)
Example C02_bridge_list_example :
  let a := Some [(KName, JStr 3); (KAddr, JStr 5); (KFp true, JStr 7)] in
  let b := Some [(KFp true, JStr 9); (KAddr, JNull)] in
  entry_of_line b = Some (9, EMPTY) /\
  (exists m, load ([a] ++ b :: []) = Some m /\ lookup 9 m = Some EMPTY /\ lookup 7 m = Some 5) /\
  (exists m, load_shared [a; b] = Some m /\ lookup 9 m = Some 5) /\
  load [a; None; b] = None /\ load [a; Some [(KAddr, JStr 5)]] = None /\ load [a; Some [(KFp true, JStr 9); (KUnknown, JStr 1)]] = None.
Proof. repeat split; try (eexists; repeat split); reflexivity. Qed.

(* The default bridge on the wire (C12's decoder composed with the matching machine): a client poll whose JSON has no
   fingerprint field decodes to the default fingerprint, i.e. to what [fp_of None] stands for. *)
From Coq Require Import String.
From Snow Require Import Lib.Wire Model.JsonBoundary Model.Messages Proofs.MessagesProofs Proofs.BrokerWireProofs.

Theorem C02_wire_default_bridge : forall v o n f,
  decode_client_poll_body v = Ok (o, n, f) -> absent "fingerprint"%string v -> f = DEFAULT_FINGERPRINT.
Proof. exact client_absent_fingerprint_names_default. Qed.
