(* placeholder *)
From Snow Require Import Model.Broker.
