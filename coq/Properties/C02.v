(* C02 — The broker never cross-wires offers, answers or bridges.
   Statements over the interleaving machine of Model/Broker.v: [reachable v br s] = s is reached from
   the empty broker with bridge list br by ANY finite sequence of labels (arrivals of proxy polls,
   client polls and proxy answers with any sids / offers / answers / fingerprints, timer firings,
   select choices, rendezvous), for both protocol versions. An entry is one registered proxy poll;
   the client that popped it is stored inside it, so "the poll that was handed that client's offer"
   is the entry holding the client. Proofs: Proofs/BrokerProofs.v, BrokerSteps.v, BrokerThms.v. *)
From Coq Require Import List NArith ZArith Bool.
From Snow Require Import Model.Broker Proofs.BrokerProofs Proofs.BrokerSteps Proofs.BrokerThms.
Import ListNotations.
Open Scope N_scope.

(* Whenever a client is given an answer a, an answer request carrying exactly a was made under the
   session id of the very poll that received this client's offer; and what that poll returned (if it
   returned a match) is this client's offer. *)
Theorem C02_answer_routing : forall v br s p e c a,
  reachable v br s -> nth_error (entries s) p = Some e -> e_cl e = Some c -> client_answered c a ->
  (exists aid, In (aid, e_sid e, a) (answer_log s)) /\
  (forall m, e_w e = W_Done (PMatch m) -> m_offer m = c_offer c).
Proof. exact answer_routing. Qed.

(* Each offer is handed to at most one poll (a client sits in at most one entry); each poll holds at
   most one client and returns at most one response by construction of [entry]. *)
Theorem C02_offer_once : forall v br s p q e1 e2 c1 c2,
  reachable v br s -> nth_error (entries s) p = Some e1 -> nth_error (entries s) q = Some e2 ->
  e_cl e1 = Some c1 -> e_cl e2 = Some c2 -> c_id c1 = c_id c2 -> p = q.
Proof. exact offer_once. Qed.

(* A match response carries the offer and NAT type of the client that claimed this poll and the relay
   URL configured for the bridge fingerprint that client named. *)
Theorem C02_relay_url : forall v br s p e m,
  reachable v br s -> nth_error (entries s) p = Some e -> e_w e = W_Done (PMatch m) ->
  exists c, e_cl e = Some c /\ m_offer m = c_offer c /\ m_nat m = c_nat c /\ lookup (c_fp c) br = Some (m_url m).
Proof. exact match_response. Qed.

(* A client naming a fingerprint absent from the bridge list is never matched: no entry changes. *)
Theorem C02_unknown_bridge : forall v s n fp o ch s',
  step v s (L_Client n fp o ch) = Some s' -> lookup fp (bridges s) = None ->
  ch = None /\ entries s' = entries s /\ idmap s' = idmap s /\
  done_clients s' = (next_cid s, n, fp, o, CBadFingerprint) :: done_clients s.
Proof. exact unknown_bridge_never_matched. Qed.

(* The invariant behind these statements holds in every reachable state of both versions. *)
Theorem C02_invariant : forall v br s, reachable v br s -> Inv v s.
Proof. exact reachable_inv. Qed.

(* non-vacuity: a run with two polls, two clients and two answers in which both clients are answered *)
Example C02_example :
  exists s, run V1 (init [(7, 9); (8, 10)])
    [L_Poll 1 NatUnrestricted 1 0; L_Poll 2 NatRestricted 1 3;
     L_Client NatRestricted 7 100 (Some 0%nat); L_Client NatUnrestricted 8 101 (Some 1%nat);
     L_RvOffer 1; L_RvOffer 0; L_RvForward 0; L_RvForward 1;
     L_Answer 2 502; L_Answer 1 501; L_AnswerPut 0; L_AnswerPut 1;
     L_CTakeAnswer 0; L_CTakeAnswer 1; L_CCleanup 1; L_CCleanup 0] = Some s /\
  quiescent s = true /\
  (exists e c, nth_error (entries s) 0 = Some e /\ e_cl e = Some c /\ client_answered c 501) /\
  (exists e c, nth_error (entries s) 1 = Some e /\ e_cl e = Some c /\ client_answered c 502).
Proof.
  eexists. split; [vm_compute; reflexivity|]. split; [vm_compute; reflexivity|].
  split; eexists; eexists; (split; [vm_compute; reflexivity|]); (split; [reflexivity|]); right; reflexivity.
Qed.
