(* C10 — AMP armor round-trips and survives cache-style rewriting.
   Only theorem statements; every proof is `exact <lemma of Proofs/*>`.
   Models: coq/Model/Base64.v, Armor.v, ArmorStream.v, HtmlEntities.v (common/amp/armor_encoder.go,
   armor_decoder.go).  The decoder is modelled in the layers of the code: x/net/html's Tokenizer as a
   byte-incremental automaton returning tokens (comments, doctype, raw-text and RCDATA elements, the
   script escape states, attributes, self-closing tags, any letter case, NUL, the SetMaxBuf accounting),
   Tokenizer.Text (convertNewlines, NUL replacement, character references with the library's complete
   entity table), decodeToWriter with bufio.Scanner's word splitting and 64 KiB token limit, the
   io.Pipe, NewArmorDecoder's version byte and base64.NewDecoder's Read with its buffer arithmetic
   (so also its read-size dependent acceptance of data after padding).
   Not modelled, i.e. outside every statement below (monitors / assumptions of lib/checks/c10.py):
   a source reader that fails or returns (0, nil); scheduling of the two goroutines beyond the
   rendezvous points of the pipe (the model is the sequential demand-driven process they form);
   allocation sizes of the Go runtime (the buffering theorem counts bytes held in the modelled buffers).
   CDATA sections are not enabled by the decoder (AllowCDATA is never called): "<![CDATA[" is a bogus
   comment, and is modelled as that. *)
From Coq Require Import List NArith Bool Arith String Lia.
From Snow Require Import Lib.Wire Model.Base64 Model.Armor Model.ArmorStream.
From Snow Require Import Proofs.Base64Proofs Proofs.ArmorEncProofs Proofs.ArmorDecProofs Proofs.ArmorMarkupProofs.
From Snow Require Import Proofs.ArmorStreamProofs Proofs.ArmorBufProofs Proofs.ArmorStreamInst Proofs.ArmorTailProofs.
Import ListNotations.
Open Scope N_scope.

(* std base64 with padding: decoding the encoding of any byte string gives it back *)
Theorem C10_b64_roundtrip : forall p, bytes_ok p = true -> b64_decode (b64_encode p) = Some p.
Proof. exact b64_roundtrip. Qed.

(* decoding the armor of any byte string returns that byte string (whole-document meaning) *)
Theorem C10_roundtrip : forall p, bytes_ok p = true -> armor_decode (armor_encode p) = DOk p.
Proof. exact roundtrip. Qed.

(* every pattern of encoder Writes (any number, any sizes, empty ones included) produces the
   document of the whole input *)
Theorem C10_write_chunking : forall parts, armor_stream parts = armor_encode (List.concat parts).
Proof. exact write_chunking. Qed.

(* hence: round trip for every pattern of encoder writes *)
Corollary C10_roundtrip_any_writes : forall parts,
  bytes_ok (List.concat parts) = true -> armor_decode (armor_stream parts) = DOk (List.concat parts).
Proof. intros parts H. rewrite write_chunking. exact (roundtrip _ H). Qed.

(* ================================================================== the decoder as a streaming reader *)

(* For ANY tokenizer that consumes its input byte by byte (T, tinit, tfeed, tfin: the library boundary),
   any way the source's Reads cut the document into chunks, any sequence of non-empty caller buffers:
   the bytes the Reads return, up to io.EOF or the first error, are what the whole-stream meaning
   [decode_result] gives for the pipe traffic [events_of] of the CONCATENATED chunks - exactly the data
   and io.EOF, or the same error class after a prefix of the decodable data - provided no correctly
   padded base64 quantum occurs before the end of the character stream ([no_ipad]). *)
Theorem C10_stream_generic :
  forall (T : Type) (tinit : T) (tfeed : T -> N -> T * list tok) (tfin : T -> list tok)
         (chunks : list bytes) (sz : N -> nat) (fuel : nat),
  (forall j, (1 <= sz j)%nat) ->
  let F := events_of T tfeed tfin false tinit (List.concat chunks) in
  no_ipad (tl (chars F)) = true -> (List.length (chars F) < fuel)%nat ->
  fixed_ok T (stream_decode T tinit tfeed tfin chunks sz fuel) F.
Proof. exact stream_decode_spec. Qed.

(* ... instantiated with the tokenizer model of Armor.v and stated with armor_decode *)
Theorem C10_stream_reads : forall doc chunks sz fuel,
  List.concat chunks = doc -> (forall j, (1 <= sz j)%nat) ->
  no_ipad (body_of doc) = true -> (List.length (fst (armor_scan doc)) < fuel)%nat ->
  let r := armor_stream_decode chunks sz fuel in
  match armor_decode doc with
  | DOk d => s_data r = d /\ s_end r = Some REOF
  | DErr e => s_end r = Some (RErr e) /\ prefix (s_data r) (fst (b64_decode_seq (body_of doc)))
  end.
Proof. exact stream_decode_armor. Qed.

(* ... with the number of Reads the runner allows (3 per document byte: Text() at most triples a token) *)
Theorem C10_stream_reads_run : forall doc chunks sz,
  List.concat chunks = doc -> (forall j, (1 <= sz j)%nat) -> no_ipad (body_of doc) = true ->
  let r := armor_stream_decode chunks sz (fuel_for doc) in
  match armor_decode doc with
  | DOk d => s_data r = d /\ s_end r = Some REOF
  | DErr e => s_end r = Some (RErr e) /\ prefix (s_data r) (fst (b64_decode_seq (body_of doc)))
  end.
Proof. exact stream_decode_armor_run. Qed.

(* non-vacuity: a document with an error after data, delivered byte by byte and read with buffers of
   1, 2, 3, 1, 2, 3, ... bytes; and the hypotheses hold for it *)
Example C10_stream_reads_example :
  let doc := bs "<pre>0QUJD QUJD</pre><pre>" in
  no_ipad (body_of doc) = true /\ armor_decode doc = DErr EUnterminated /\
  let r := armor_stream_decode (map (fun c => [c]) doc) (fun i => S (N.to_nat (i mod 3))) 40 in
  s_data r = bs "ABCABC" /\ s_end r = Some (RErr EUnterminated).
Proof. vm_compute. auto. Qed.

(* the condition on padding cannot be dropped: base64.NewDecoder decodes what it has gathered as one
   chunk, so with a correctly padded quantum in the middle the answer depends on the caller's buffers *)
Theorem C10_read_pattern_dependence : exists doc,
  armor_decode doc = DErr EBadBase64 /\
  s_end (armor_stream_decode [doc] (fun _ => 4096%nat) 40) = Some (RErr EBadBase64) /\
  s_end (armor_stream_decode [doc] (fun _ => 1%nat) 40) = Some REOF /\
  s_data (armor_stream_decode [doc] (fun _ => 1%nat) 40) = bs "AABC".
Proof. exists (bs "<pre>0QQ==QUJD</pre>"). vm_compute. auto. Qed.

(* round trip "for every pattern of encoder writes and decoder reads": any Writes, any chunks of the
   resulting document from the source, any caller buffers *)
Theorem C10_roundtrip_streaming : forall parts chunks sz fuel,
  bytes_ok (List.concat parts) = true ->
  List.concat chunks = armor_stream parts -> (forall j, (1 <= sz j)%nat) ->
  (List.length (b64_encode (List.concat parts)) + 1 < fuel)%nat ->
  let r := armor_stream_decode chunks sz fuel in
  s_data r = List.concat parts /\ s_end r = Some REOF /\ sp_stuck (s_prod r) = false.
Proof. exact roundtrip_streaming. Qed.

Example C10_roundtrip_streaming_example :
  let parts := [bs "he"; []; bs "llo"] in
  bytes_ok (List.concat parts) = true /\
  s_data (armor_stream_decode (cut_doc [7%nat; 1%nat] (armor_stream parts)) (fun i => S (N.to_nat (i mod 2))) 20) = bs "hello".
Proof. vm_compute. auto. Qed.

(* ================================================================== no hang, no leak, bounded buffering *)

(* arbitrary documents (no condition at all): the caller's loop reaches io.EOF or an error, and then the
   goroutine started by NewArmorDecoder has returned - whatever the source chunks and the buffers *)
Theorem C10_total_and_released : forall doc chunks sz fuel,
  List.concat chunks = doc -> (forall j, (1 <= sz j)%nat) ->
  (List.length (fst (armor_scan doc)) < fuel)%nat ->
  s_end (armor_stream_decode chunks sz fuel) <> None /\
  sp_stuck (s_prod (armor_stream_decode chunks sz fuel)) = false.
Proof. exact armor_total. Qed.

Theorem C10_total_and_released_run : forall doc chunks sz,
  List.concat chunks = doc -> (forall j, (1 <= sz j)%nat) ->
  s_end (armor_stream_decode chunks sz (fuel_for doc)) <> None /\
  sp_stuck (s_prod (armor_stream_decode chunks sz (fuel_for doc))) = false.
Proof. exact armor_total_run. Qed.

(* the release alone, for any tokenizer and any number of Reads: once an end has been reported (or
   NewArmorDecoder failed) the producer is not blocked in a Write *)
Theorem C10_goroutine_released :
  forall (T : Type) (tinit : T) (tfeed : T -> N -> T * list tok) (tfin : T -> list tok) chunks sz fuel,
  s_end (stream_decode T tinit tfeed tfin chunks sz fuel) <> None ->
  p_stuck T tfeed tfin (s_prod (stream_decode T tinit tfeed tfin chunks sz fuel)) = false.
Proof. exact stream_decode_released. Qed.

(* no hang on what FOLLOWS: the decoder never looks at source it has not asked for.  For any tokenizer, any
   source chunks, any caller buffers: if the caller's Reads reach their end (io.EOF or an error) while the
   producer has not met the end of [chunks] ([p_fin] = false: no source Read has returned io.EOF), then with ANY
   continuation [tl] of the source - as long as one likes, never ending, or never delivered at all - the same
   Reads return the same bytes and the same end, the number of source bytes consumed is the same, and [tl] is
   still unread.  So an error met early in a document is returned after a consumption that does not depend on
   the rest of the document (a decoder that drains the rest before returning the error does not have this
   property; nor does one whose result needs the end of the document). *)
Theorem C10_unread_tail_irrelevant :
  forall (T : Type) (tinit : T) (tfeed : T -> N -> T * list tok) (tfin : T -> list tok) chunks tl sz fuel,
  let r := stream_decode T tinit tfeed tfin chunks sz fuel in
  p_fin (s_prod r) = false ->
  let r' := stream_decode T tinit tfeed tfin (chunks ++ tl) sz fuel in
  s_data r' = s_data r /\ s_end r' = s_end r /\
  p_consumed (s_prod r') = p_consumed (s_prod r) /\ p_src (s_prod r') = p_src (s_prod r) ++ tl.
Proof. exact stream_decode_tail_full. Qed.

(* instance and non-vacuity: bad base64 in the first element ("QU*D" in [tail_doc] =
   "<html><pre>0QUJD QU*D QUJD</pre>"), met by the second Read; the source chunk holding it is all that is ever
   consumed, whatever the list [tl] of further source Reads holds; the goroutine is released *)
Theorem C10_early_error_whatever_follows : forall tl,
  let r' := armor_stream_decode ([tail_doc] ++ tl) (fun _ => 16%nat) 40 in
  s_data r' = bs "ABC" /\ s_end r' = Some (RErr EBadBase64) /\
  p_consumed (s_prod r') = N.of_nat (List.length tail_doc) /\ p_src (s_prod r') = tl /\ sp_stuck (s_prod r') = false.
Proof. exact early_error_whatever_follows. Qed.

(* the code before /repo commit 0dac441 ([dec_read0]: no close of the pipe when base64 fails) did not
   have this property: same answer to the caller, goroutine blocked for ever *)
Theorem C10_v0_goroutine_leak_refuted : exists doc,
  s_end (armor_stream_decode0 [doc] (fun _ => 4096%nat) 40) = Some (RErr EBadBase64) /\
  sp_stuck (s_prod (armor_stream_decode0 [doc] (fun _ => 4096%nat) 40)) = true /\
  s_end (armor_stream_decode [doc] (fun _ => 4096%nat) 40) = Some (RErr EBadBase64) /\
  sp_stuck (s_prod (armor_stream_decode [doc] (fun _ => 4096%nat) 40)) = false.
Proof. exists (bs "<pre>0QU*D QUJD</pre>"). vm_compute. auto. Qed.

(* bounded buffering.  In every state the caller can bring the decoder into (NewArmorDecoder, then any
   Reads with any buffers, also after errors) the bytes it holds - raw bytes of the token the tokenizer
   is reading, the unread rest of the last source Read, the words of the current text token not yet
   taken from the pipe, base64.NewDecoder's two arrays - are at most 4*MAXBUF + B + 1792, where B bounds
   the source's Reads.  (4 = 1 raw + 3 for Text(): a NUL becomes three bytes; character references
   never grow, checked over the whole entity table.)  The document's length does not enter. *)
Theorem C10_bounded_buffering : forall B chunks d,
  Forall (fun ch => N.of_nat (List.length ch) <= B) chunks -> a_reach chunks d ->
  a_held d <= 4 * MAXBUF + B + 1792.
Proof. exact armor_held_bound. Qed.

Theorem C10_bounded_buffering_new : forall B chunks e p,
  Forall (fun ch => N.of_nat (List.length ch) <= B) chunks -> sdec_new chunks = NewErr tks e p ->
  tcnt (p_tk p) + N.of_nat (List.length (p_cur p)) + q_bytes (p_q p) <= 4 * MAXBUF + B.
Proof. exact armor_held_bound_new. Qed.

(* the same for any tokenizer whose buffer is bounded (the hypotheses are the library boundary) *)
Theorem C10_bounded_buffering_generic :
  forall (T : Type) (tinit : T) (tfeed : T -> N -> T * list tok) (tfin : T -> list tok)
         (theld : T -> N) (tinv : T -> Prop),
  (forall t, tinv t -> theld t <= MAXBUF) -> tinv tinit ->
  (forall t c, tinv t -> tinv (fst (tfeed t c)) /\ N.of_nat (text_bytes (snd (tfeed t c))) <= MAXBUF) ->
  (forall t, tinv t -> N.of_nat (text_bytes (tfin t)) <= MAXBUF) ->
  forall B chunks d, Forall (fun ch => N.of_nat (List.length ch) <= B) chunks ->
  reach T tinit tfeed tfin chunks d -> held T theld d <= 4 * MAXBUF + B + 1792.
Proof. exact held_bound. Qed.

(* non-vacuity: a state reached after NewArmorDecoder and two Reads, holding something *)
Example C10_bounded_buffering_example :
  let chunks := [bs "<pre>0QUJDQUJD QUJD</pre>"] in
  exists d, a_reach chunks d /\ 0 < a_held d.
Proof.
  cbv zeta. destruct (sdec_new [bs "<pre>0QUJDQUJD QUJD</pre>"]) as [e p|d0] eqn:E; [vm_compute in E; discriminate|].
  exists (snd (sdec_read 2 (snd (sdec_read 2 d0)))). split.
  - apply reach_read. apply reach_read. apply reach_new. exact E.
  - vm_compute in E. injection E as <-. vm_compute. reflexivity.
Qed.

(* an element that reaches the limit is an error (never unbounded growth, never other data): see
   C10_resep_oversize below; the tokenizer state never counts MAXBUF bytes *)
Theorem C10_tokenizer_buffer_below_limit : forall t c, tk_inv t -> tk_inv (fst (tk_step t c)).
Proof. intros t c H. exact (proj1 (tk_step_ok t c H)). Qed.

(* ================================================================== shape, rewriting by caches *)

(* the armored document is the fixed boilerplate around pre elements; each element has 1..992
   words of 1..32 bytes over the base64 alphabet, '=' or the version byte, each word followed
   by one LF; the element's text is at most 32737 bytes (< 32 KiB - 2, the tokenizer's limit
   less its two bytes of look-ahead); the words concatenated are "0" ++ base64(p) *)
Theorem C10_shape : forall p, exists els : list (list bytes),
  armor_encode p = boilerplate_start ++ List.concat (map element els) ++ boilerplate_end /\
  Forall (fun ws => (1 <= List.length ws <= 992)%nat /\
                    Forall (fun w => (1 <= List.length w <= 32)%nat /\ Forall armor_char w) ws /\
                    element ws = bs "<pre>" ++ element_text ws ++ bs "</pre>" ++ [LF] /\
                    blen (element_text ws) <= 32737) els /\
  List.concat (List.concat els) = VERSION :: b64_encode p.
Proof. exact shape. Qed.

(* re-separation: the words of every element kept, in order, but each followed by an ARBITRARY
   string of ASCII whitespace (also before the first word and after "</pre>"): as long as every
   element's text stays below the limit the decoded data is unchanged ... *)
Theorem C10_resep : forall p rs, bytes_ok p = true ->
  map (fun r => map fst (r_words r)) rs = armor_elements p ->
  Forall rseg_ws rs -> Forall rseg_fits rs ->
  armor_decode (resep_doc rs) = DOk p.
Proof. exact resep_ok. Qed.

(* ... and the first element whose text reaches the limit makes decoding fail: an error,
   never different data (whatever follows that element) *)
Theorem C10_resep_oversize : forall rs1 r rs2,
  Forall rseg_ws (rs1 ++ [r]) ->
  Forall (fun r => Forall (Forall armor_char) (map fst (r_words r))) (rs1 ++ [r]) ->
  Forall rseg_fits rs1 -> MAXBUF <= blen (resep_text r) + 2 ->
  exists e, armor_decode (resep_doc (rs1 ++ r :: rs2)) = DErr e.
Proof. exact resep_over. Qed.

(* non-vacuity of C10_resep / C10_resep_oversize: "hi" with tabs and CRs instead of LF *)
Example C10_resep_example :
  let rs := [ {| r_lead := [9; 32]; r_words := [(bs "0aGk=", [13; 10; 12])]; r_post := [] |} ] in
  map (fun r => map fst (r_words r)) rs = armor_elements (bs "hi") /\
  Forall rseg_ws rs /\ Forall rseg_fits rs /\ armor_decode (resep_doc rs) = DOk (bs "hi").
Proof.
  cbv zeta. split; [vm_compute; reflexivity|]. split.
  - repeat constructor.
  - split; [repeat constructor|vm_compute; reflexivity].
Qed.

(* markup added outside the pre elements, I: complete tokens at a token boundary.  [a] is any document
   prefix that ends just after a complete tag/comment outside every pre element (that is what
   [run dinit a = mk MTxt 0 false o] says); [m] is any markup which, read on its own from such a point,
   is a sequence of complete tokens none of which is a pre start/end tag ([neutral], decided by
   [neutralb]): inserting it leaves the result unchanged, for EVERY rest of document [b]. *)
Theorem C10_outside_markup : forall a b m o,
  run dinit a = mk MTxt 0 false o -> neutral m ->
  armor_decode (a ++ m ++ b) = armor_decode (a ++ b).
Proof. exact outside_markup. Qed.

Theorem C10_neutral_decidable : forall m, neutralb m = true -> neutral m.
Proof. exact neutralb_sound. Qed.

Theorem C10_neutral_concat : forall m1 m2, neutral m1 -> neutral m2 -> neutral (m1 ++ m2).
Proof. exact neutral_app. Qed.

(* markup added outside the pre elements, II: EVERYTHING the decoder ignores - bare text, text with
   character references, comments, doctype, other elements with their content, raw-text elements - inserted
   at ANY text position outside pre (also in the middle of the text between two elements).  [s] is the
   state after the prefix [a]: outside pre, in the text state ([quiet]); [neutral_atb (cnt s) m = Some n']
   is the decidable statement that [m] read from there hands nothing to the decoder and ends in the text
   state with count n'.  Then the rest [b] decodes as without [m], provided the text token being read at
   the junction (its [tlen] more bytes of [b]) still fits the tokenizer's buffer, with and without [m]. *)
Theorem C10_outside_anything : forall a m b s n',
  run dinit a = s -> quiet s -> neutral_atb (cnt s) m = Some n' ->
  cnt s + tlen false b < MAXBUF -> n' + tlen false b < MAXBUF ->
  armor_decode (a ++ m ++ b) = armor_decode (a ++ b).
Proof. exact outside_any_dec. Qed.

(* any '<'-free text is such markup wherever it fits *)
Theorem C10_text_is_neutral : forall n t, noLT t -> n + blen t < MAXBUF -> neutral_atb n t = Some (n + blen t).
Proof. exact text_neutral. Qed.

(* non-vacuity: tags with quoted '>' , self-closing tags, comments, doctype, raw-text elements
   (even containing "<pre>") are neutral; a pre tag is not; and the insertion points exist in every
   armored document *)
Example C10_neutral_examples :
  forallb neutralb (map bs ["<b>"; "</div>"; "<span title='a>b' class=""x"">"; "<br/>"; "<pre/>"; "<!-- c -->";
                            "<!-->"; "<!--a--!>"; "<!DOCTYPE y>"; "<?php ?>"; "</>"; "<title>x</title>";
                            "<xmp><pre></xmp>"; "<noscript><pre></noscript>"; "<TITLE></pre></TiTlE >";
                            "<script><!--<script></script><pre>--></script>"]%string) = true
  /\ neutralb (bs "<pre>") = false /\ neutralb (bs "</pre>") = false.
Proof. vm_compute. auto. Qed.

(* text, "a < b", an element with text, a comment between text, character references: neutral from a
   text position (here count 1, the state after "</pre>\n") *)
Example C10_neutral_at_examples :
  map (neutral_atb 1) (map bs ["hello"; "a < b & c"; "<p>AT&amp;T</p> x"; "x<!-- <pre> -->y"; "<title><pre></title>z";
                               "<pre>"; "x</pre>"; "<"]%string)
  = [Some 6; Some 10; Some 2; Some 1; Some 1; None; None; None].
Proof. vm_compute. reflexivity. Qed.

Example C10_outside_anything_example :
  let a := boilerplate_start ++ element [bs "0aGk="] in
  let m := bs "cached by <b>example</b> &copy; 2026" in
  let b := element [bs "aGk="] ++ boilerplate_end in
  exists s n', run dinit a = s /\ quiet s /\ neutral_atb (cnt s) m = Some n' /\
               cnt s + tlen false b < MAXBUF /\ n' + tlen false b < MAXBUF /\
               armor_decode (a ++ m ++ b) = armor_decode (a ++ b).
Proof.
  cbv zeta. eexists _, _. split; [reflexivity|]. split; [vm_compute; auto|]. split; [vm_compute; reflexivity|].
  split; [vm_compute; reflexivity|]. split; [vm_compute; reflexivity|]. vm_compute. reflexivity.
Qed.

Example C10_insertion_points :
  run dinit [] = mk MTxt 0 false [] /\
  (exists o, run dinit (firstn 982 boilerplate_start) = mk MTxt 0 false o) /\
  (exists o, run dinit (boilerplate_start ++ element [bs "0aGk="]) = mkb MTxt 1 [LF] false o) /\
  (exists o, run dinit (boilerplate_start ++ bs "<pre>0aGk=</pre>") = mk MTxt 0 false o).
Proof. split; [reflexivity|]. repeat split; eexists; vm_compute; reflexivity. Qed.

(* every input yields data or exactly one error class, in this priority: how the token stream
   ended ([t]: clean end, or stray </pre>, nested <pre>, missing </pre>, buffer limit, a word beyond
   bufio's token limit) and what reached the decoder before that ([out]: version byte, then base64
   quanta decoded in order) *)
Theorem C10_decode_classes : forall doc,
  let out := fst (armor_scan doc) in
  let t := snd (armor_scan doc) in
  end_class t /\
  match armor_decode doc with
  | DOk d => t = TEnd /\ exists body, out = VERSION :: body /\ b64_decode_seq body = (d, B64Clean)
  | DErr EEmpty => out = [] /\ t = TEnd
  | DErr EUnknownVersion => exists v body, out = v :: body /\ v <> VERSION
  | DErr EBadBase64 =>
      exists body, out = VERSION :: body /\
        (snd (b64_decode_seq body) = B64Corrupt \/ (snd (b64_decode_seq body) = B64Partial /\ t = TEnd))
  | DErr e =>
      t = TErr e /\
      (out = [] \/ exists body, out = VERSION :: body /\ snd (b64_decode_seq body) <> B64Corrupt)
  end.
Proof. exact decode_classes. Qed.

(* each class is inhabited; character references, NUL, script escapes, upper case are part of the model *)
Example C10_classes_inhabited :
  map armor_decode (map bs ["<pre>0QUJD</pre>"; ""; "<pre>1QUJD</pre>"; "<pre>0QU*D</pre>"; "<pre>0QUJ</pre>";
                            "</pre>"; "<pre><pre>"; "<pre>0QUJD";
                            "<PRE class=x>0QU&#74;D</pRe >"; "<pre>0&lt;pre&gt;</pre>";
                            "<script><!--<script></script><pre>1--></script><pre>0QUJD</pre>"]%string)
  = [DOk (bs "ABC"); DErr EEmpty; DErr EUnknownVersion; DErr EBadBase64; DErr EBadBase64;
     DErr EStray; DErr ENested; DErr EUnterminated;
     DOk (bs "ABC"); DErr EBadBase64; DOk (bs "ABC")].
Proof. vm_compute. reflexivity. Qed.

(* non-vacuity of C10_resep_oversize: 32766 spaces before the first word *)
Example C10_resep_oversize_example :
  let r := {| r_lead := repeat 32 (N.to_nat 32766); r_words := [(bs "0aGk=", [10])]; r_post := [] |} in
  Forall rseg_ws ([] ++ [r]) /\
  Forall (fun r => Forall (Forall armor_char) (map fst (r_words r))) ([] ++ [r]) /\
  Forall rseg_fits [] /\ MAXBUF <= blen (resep_text r) + 2 /\
  armor_decode (resep_doc ([] ++ r :: [])) = DErr EOversize.
Proof.
  cbv zeta. split; [|split; [|split; [|split]]].
  - constructor; [|constructor]. split; [apply ws_only_repeat|]. split; repeat constructor.
  - constructor; [|constructor]. cbn [r_words map fst]. constructor; [|constructor].
    change (bs "0aGk=") with [48; 97; 71; 107; 61].
    repeat (apply Forall_cons; [unfold armor_char, PAD, VERSION; lia|]). apply Forall_nil.
  - constructor.
  - vm_compute. discriminate.
  - vm_compute. reflexivity.
Qed.
