(* C10 — AMP armor round-trips and survives cache-style rewriting.
   Only theorem statements; every proof is `exact <lemma of Proofs/*>`.
   Models: coq/Model/Base64.v, coq/Model/Armor.v (common/amp/armor_encoder.go, armor_decoder.go;
   the x/net/html tokenizer + decodeToWriter as one byte automaton, see Armor.v header). *)
From Coq Require Import List NArith Bool Arith String Lia.
From Snow Require Import Lib.Wire Model.Base64 Model.Armor.
From Snow Require Import Proofs.Base64Proofs Proofs.ArmorEncProofs Proofs.ArmorDecProofs Proofs.ArmorMarkupProofs.
Import ListNotations.
Open Scope N_scope.

(* std base64 with padding: decoding the encoding of any byte string gives it back *)
Theorem C10_b64_roundtrip : forall p, bytes_ok p = true -> b64_decode (b64_encode p) = Some p.
Proof. exact b64_roundtrip. Qed.

(* decoding the armor of any byte string returns that byte string *)
Theorem C10_roundtrip : forall p, bytes_ok p = true -> armor_decode (armor_encode p) = DOk p.
Proof. exact roundtrip. Qed.

(* every pattern of encoder Writes (any number, any sizes, empty ones included) produces the
   document of the whole input *)
Theorem C10_write_chunking : forall parts, armor_stream parts = armor_encode (List.concat parts).
Proof. exact write_chunking. Qed.

(* hence: round trip for every pattern of encoder writes *)
Corollary C10_roundtrip_any_writes : forall parts,
  bytes_ok (List.concat parts) = true -> armor_decode (armor_stream parts) = DOk (List.concat parts).
Proof. intros parts H. rewrite write_chunking. exact (roundtrip _ H). Qed.

(* the armored document is the fixed boilerplate around pre elements; each element has 1..992
   words of 1..32 bytes over the base64 alphabet, '=' or the version byte, each word followed
   by one LF; the element's text is at most 32737 bytes (< 32 KiB - 2, the tokenizer's limit
   less its two bytes of look-ahead); the words concatenated are "0" ++ base64(p) *)
Theorem C10_shape : forall p, exists els : list (list bytes),
  armor_encode p = boilerplate_start ++ List.concat (map element els) ++ boilerplate_end /\
  Forall (fun ws => (1 <= List.length ws <= 992)%nat /\
                    Forall (fun w => (1 <= List.length w <= 32)%nat /\ Forall armor_char w) ws /\
                    element ws = bs "<pre>" ++ element_text ws ++ bs "</pre>" ++ [LF] /\
                    blen (element_text ws) <= 32737) els /\
  List.concat (List.concat els) = VERSION :: b64_encode p.
Proof. exact shape. Qed.

(* re-separation: the words of every element kept, in order, but each followed by an ARBITRARY
   string of ASCII whitespace (also before the first word and after "</pre>"): as long as every
   element's text stays below the limit the decoded data is unchanged ... *)
Theorem C10_resep : forall p rs, bytes_ok p = true ->
  map (fun r => map fst (r_words r)) rs = armor_elements p ->
  Forall rseg_ws rs -> Forall rseg_fits rs ->
  armor_decode (resep_doc rs) = DOk p.
Proof. exact resep_ok. Qed.

(* ... and the first element whose text reaches the limit makes decoding fail: an error,
   never different data (whatever follows that element) *)
Theorem C10_resep_oversize : forall rs1 r rs2,
  Forall rseg_ws (rs1 ++ [r]) ->
  Forall (fun r => Forall (Forall armor_char) (map fst (r_words r))) (rs1 ++ [r]) ->
  Forall rseg_fits rs1 -> MAXBUF <= blen (resep_text r) + 2 ->
  exists e, armor_decode (resep_doc (rs1 ++ r :: rs2)) = DErr e.
Proof. exact resep_over. Qed.

(* non-vacuity of C10_resep / C10_resep_oversize: "hi" with tabs and CRs instead of LF *)
Example C10_resep_example :
  let rs := [ {| r_lead := [9; 32]; r_words := [(bs "0aGk=", [13; 10; 12])]; r_post := [] |} ] in
  map (fun r => map fst (r_words r)) rs = armor_elements (bs "hi") /\
  Forall rseg_ws rs /\ Forall rseg_fits rs /\ armor_decode (resep_doc rs) = DOk (bs "hi").
Proof.
  cbv zeta. split; [vm_compute; reflexivity|]. split.
  - repeat constructor.
  - split; [repeat constructor|vm_compute; reflexivity].
Qed.

(* markup added outside the pre elements.  [a] is any document prefix that ends just after a
   complete tag/comment outside every pre element (that is what [run dinit a = mk MTxt 0 false o]
   says; the start of the document and the position after each "</pre>" or boilerplate tag are
   such points); [m] is any markup which, read on its own from such a point, is a sequence of
   complete tokens none of which is a pre start/end tag and which hands no text to the decoder
   ([neutral], decided by [neutralb]): inserting it leaves the result unchanged, for EVERY rest
   of document [b] (well-formed or not). *)
Theorem C10_outside_markup : forall a b m o,
  run dinit a = mk MTxt 0 false o -> neutral m ->
  armor_decode (a ++ m ++ b) = armor_decode (a ++ b).
Proof. exact outside_markup. Qed.

Theorem C10_neutral_decidable : forall m, neutralb m = true -> neutral m.
Proof. exact neutralb_sound. Qed.

Theorem C10_neutral_concat : forall m1 m2, neutral m1 -> neutral m2 -> neutral (m1 ++ m2).
Proof. exact neutral_app. Qed.

(* non-vacuity: tags with quoted '>' , self-closing tags, comments, doctype, raw-text elements
   (even containing "<pre>") are neutral; a pre tag and bare text are not; and the insertion
   points exist in every armored document *)
Example C10_neutral_examples :
  forallb neutralb (map bs ["<b>"; "</div>"; "<span title='a>b' class=""x"">"; "<br/>"; "<pre/>"; "<!-- c -->";
                            "<!-->"; "<!--a--!>"; "<!DOCTYPE y>"; "<?php ?>"; "</>"; "<title>x</title>";
                            "<xmp><pre></xmp>"; "<noscript><pre></noscript>"; "<TITLE></pre></TiTlE >"]%string) = true
  /\ neutralb (bs "<pre>") = false /\ neutralb (bs "</pre>") = false /\ neutralb (bs "text") = false.
Proof. vm_compute. auto. Qed.

Example C10_insertion_points :
  run dinit [] = mk MTxt 0 false [] /\
  (exists o, run dinit (firstn 982 boilerplate_start) = mk MTxt 0 false o) /\
  (exists o, run dinit (boilerplate_start ++ element [bs "0aGk="]) = mk MTxt 1 false o) /\
  (exists o, run dinit (boilerplate_start ++ bs "<pre>0aGk=</pre>") = mk MTxt 0 false o).
Proof. split; [reflexivity|]. repeat split; eexists; vm_compute; reflexivity. Qed.

(* every input yields data or exactly one error class, in this priority: how the token stream
   ended ([t]: clean end, or stray </pre>, nested <pre>, missing </pre>, buffer limit) and what
   reached the decoder before that ([out]: version byte, then base64 quanta decoded in order) *)
Theorem C10_decode_classes : forall doc,
  let out := fst (armor_scan doc) in
  let t := snd (armor_scan doc) in
  end_class t /\
  match armor_decode doc with
  | DOk d => t = TEnd /\ exists body, out = VERSION :: body /\ b64_decode_seq body = (d, B64Clean)
  | DErr EEmpty => out = [] /\ t = TEnd
  | DErr EUnknownVersion => exists v body, out = v :: body /\ v <> VERSION
  | DErr EBadBase64 =>
      exists body, out = VERSION :: body /\
        (snd (b64_decode_seq body) = B64Corrupt \/ (snd (b64_decode_seq body) = B64Partial /\ t = TEnd))
  | DErr e =>
      t = TErr e /\
      (out = [] \/ exists body, out = VERSION :: body /\ snd (b64_decode_seq body) <> B64Corrupt)
  end.
Proof. exact decode_classes. Qed.

(* each class is inhabited *)
Example C10_classes_inhabited :
  map armor_decode (map bs ["<pre>0QUJD</pre>"; ""; "<pre>1QUJD</pre>"; "<pre>0QU*D</pre>"; "<pre>0QUJ</pre>";
                            "</pre>"; "<pre><pre>"; "<pre>0QUJD"]%string)
  = [DOk (bs "ABC"); DErr EEmpty; DErr EUnknownVersion; DErr EBadBase64; DErr EBadBase64;
     DErr EStray; DErr ENested; DErr EUnterminated].
Proof. vm_compute. reflexivity. Qed.

(* non-vacuity of C10_resep_oversize: 32766 spaces before the first word *)
Example C10_resep_oversize_example :
  let r := {| r_lead := repeat 32 (N.to_nat 32766); r_words := [(bs "0aGk=", [10])]; r_post := [] |} in
  Forall rseg_ws ([] ++ [r]) /\
  Forall (fun r => Forall (Forall armor_char) (map fst (r_words r))) ([] ++ [r]) /\
  Forall rseg_fits [] /\ MAXBUF <= blen (resep_text r) + 2 /\
  armor_decode (resep_doc ([] ++ r :: [])) = DErr EOversize.
Proof.
  cbv zeta. split; [|split; [|split; [|split]]].
  - constructor; [|constructor]. split; [apply ws_only_repeat|]. split; repeat constructor.
  - constructor; [|constructor]. cbn [r_words map fst]. constructor; [|constructor].
    change (bs "0aGk=") with [48; 97; 71; 107; 61].
    repeat (apply Forall_cons; [unfold armor_char, PAD, VERSION; lia|]). apply Forall_nil.
  - constructor.
  - vm_compute. discriminate.
  - vm_compute. reflexivity.
Qed.
