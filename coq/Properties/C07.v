(* C07 — no IP address survives the log scrubber (common/safelog).

   The theorems are about the executable model (Model/Regex.v: Go's regexp as a leftmost-first
   backtracking matcher; Model/Scrub.v: Scrub and LogScrubber.Write) instantiated with the patterns in
   Gen/SafelogPatterns.v, which the check regenerates from /repo's source on every run.
     pat_L, pat_A, pat_R : the full pattern is  pat_L (group 1: pat_A) pat_R   (Proofs/C07Proofs.full_shape)
     addr_spec            : hand-written regex of every textual form of an IPv4/IPv6 address (Model/Scrub.v)
     left_ok pre          : pre is empty (beginning of the text handed to Scrub = of the line) or ends with a
                            delimiter byte; right_ok post likewise; a delimiter is any byte other than
                            [0-9A-Za-z_] and ':'  (whitespace, punctuation other than ':', non-ASCII)
     replaced_spans t     : the (start, end) positions of t that Scrub replaces by "[scrubbed]"
     C07_v0_*             : the pinned algorithm / pinned patterns (Model/SafelogPinned.v, frozen) violate the property. *)
From Coq Require Import String List NArith.
From Snow Require Import Lib.Wire Model.Regex Model.RegexIncl Model.Scrub Model.SafelogPinned Gen.SafelogPatterns.
From Snow Require Import Proofs.RegexProofs Proofs.MatcherProofs Proofs.ScrubProofs Proofs.C07Proofs.
Import ListNotations.
Open Scope string_scope.
Open Scope list_scope.
Notation length := List.length (only parsing).
Notation concat := List.concat (only parsing).

(* generic: the inclusion checker is sound (used by reflection below) *)
Theorem C07_incl_sound : forall r1 r2,
  RegexIncl.incl r1 r2 = true -> forall w, matches r1 w -> matches r2 w.
Proof. exact incl_sound. Qed.

(* every textual form of an address is in the language of the address part of the compiled pattern *)
Theorem C07_spec_included : forall w, matches addr_spec w -> matches pat_A w.
Proof. exact spec_included. Qed.

Theorem C07_spec_included_address_pattern : forall w, matches addr_spec w -> matches address_pattern w.
Proof. exact spec_included_address_pattern. Qed.

(* Scrub's output is the text with the replaced spans substituted by the placeholder ... *)
Theorem C07_scrub_render : forall t, scrub full_patterns t = render t 0 (replaced_spans t).
Proof. exact scrub_render. Qed.

(* the replaced spans lie inside the text, are non-empty, increasing and pairwise disjoint *)
Theorem C07_replaced_spans_wf : forall t, wf_spans 0 (length t) (replaced_spans t).
Proof. exact replaced_spans_wf. Qed.

(* the loop bound of the model is never reached (the Go loop is unbounded) *)
Theorem C07_scrub_fuel_irrelevant : forall t f,
  length t < f -> scrub full_patterns t = scrub_loop f the_full t.
Proof. exact scrub_fuel_irrelevant. Qed.

(* ... and every delimited occurrence of an address, anywhere in any text, however many other addresses
   precede it and whatever separates them, is hit by a replaced span *)
Theorem C07_hides_all : forall pre w post,
  matches addr_spec w -> left_ok pre -> right_ok post ->
  exists a b, In (a, b) (replaced_spans (pre ++ w ++ post)) /\
              a < length pre + length w /\ length pre < b.
Proof. exact hides_all. Qed.

(* the writer: what reaches the sink depends only on the concatenation of the writes; it is the
   per-line scrubbed image of the complete lines, in order; the rest stays buffered *)
Theorem C07_write_split_invariant : forall ws,
  run_writes (write (scrub full_patterns)) [] ws =
    (map (scrub full_patterns) (fst (split_lines (concat ws))), snd (split_lines (concat ws))).
Proof. exact (write_split_invariant (scrub full_patterns)). Qed.

Theorem C07_write_split_independent : forall ws1 ws2,
  concat ws1 = concat ws2 ->
  run_writes (write (scrub full_patterns)) [] ws1 = run_writes (write (scrub full_patterns)) [] ws2.
Proof. exact (write_split_independent (scrub full_patterns)). Qed.

Theorem C07_complete_lines : forall ws outs pend,
  run_writes (write (scrub full_patterns)) [] ws = (outs, pend) ->
  exists lines, outs = map (scrub full_patterns) lines /\ Forall is_line lines /\
                concat lines ++ pend = concat ws /\ no_nl pend.
Proof. exact (write_complete_lines (scrub full_patterns)). Qed.

(* writer and scrubber together, for every sequence of Write calls (= every splitting of the stream and
   every order in which concurrent writers obtain the mutex) *)
Theorem C07_end_to_end : forall ws outs pend,
  run_writes (write (scrub full_patterns)) [] ws = (outs, pend) ->
  exists lines,
    outs = map (fun l => render l 0 (replaced_spans l)) lines /\
    Forall is_line lines /\ concat lines ++ pend = concat ws /\ no_nl pend /\
    forall l pre w post, In l lines -> l = pre ++ w ++ post ->
      matches addr_spec w -> left_ok pre -> right_ok post ->
      exists a b, In (a, b) (replaced_spans l) /\ a < length pre + length w /\ length pre < b.
Proof. exact end_to_end. Qed.

(* a scrubbed line still ends with its newline: every block the sink receives ends with '\n' *)
Theorem C07_block_ends_with_newline : forall l, is_line l ->
  exists body', scrub full_patterns l = body' ++ [NL].
Proof. exact scrub_keeps_newline. Qed.

Theorem C07_line_local : forall a b,
  scrub_stream (scrub full_patterns) ((a ++ [NL]) ++ b) =
  scrub_stream (scrub full_patterns) (a ++ [NL]) ++ scrub_stream (scrub full_patterns) b.
Proof. exact (scrub_stream_line_local (scrub full_patterns)). Qed.

(* ---- the pinned code violates the property *)

Theorem C07_v0_refuted :
  exists pre w post out_pre,
    matches addr_spec w /\ left_ok pre /\ right_ok post /\
    sc0 (pre ++ w ++ post) = out_pre ++ w ++ post.
Proof. exact v0_adjacent. Qed.

Theorem C07_v0_refuted_seven_groups :
  exists w post, matches addr_spec w /\ right_ok post /\ sc0 (w ++ post) = w ++ post.
Proof. exact v0_seven_groups. Qed.

Theorem C07_v0_spec_not_included : exists w, matches addr_spec w /\ ~ matches pinned_address_pattern w.
Proof. exact v0_spec_not_included. Qed.

Theorem C07_v0_refuted_multiline :
  exists w, matches addr_spec w /\
    fst (run_writes (write_v0 sc0) [] [bs "1.2.3.4" ++ [10%N] ++ w ++ [10%N]]) = [bs "[scrubbed]" ++ [10%N] ++ w ++ [10%N]].
Proof. exact v0_multiline. Qed.

Theorem C07_v0_split_dependent :
  exists ws1 ws2, concat ws1 = concat ws2 /\
    concat (fst (run_writes (write_v0 sc0) [] ws1)) <> concat (fst (run_writes (write_v0 sc0) [] ws2)).
Proof. exact v0_split_dependent. Qed.

(* ---- the hypotheses of the implications are satisfiable *)

Example C07_hides_all_nonvacuous :
  exists pre w post, matches addr_spec w /\ left_ok pre /\ right_ok post /\ pre <> [] /\ post <> [].
Proof.
  exists (bs "x "), (bs "::1"), [32%N].
  split; [apply spec_word; vm_compute; reflexivity|].
  split; [right; exists (bs "x"), 32%N; split; reflexivity|].
  split; [right; exists 32%N, []; split; reflexivity|].
  split; discriminate.
Qed.

Example C07_fixed_examples :
  sc (bs "1.2.3.4 5.6.7.8" ++ [10%N]) = bs "[scrubbed] [scrubbed]" ++ [10%N] /\
  sc (bs "::a:b:c:d:e:f:abcd" ++ [10%N]) = bs "[scrubbed]" ++ [10%N] /\
  sc (bs "[1:2:3:4:5:6:abcd::]:80 y" ++ [10%N]) = bs "[scrubbed] y" ++ [10%N] /\
  concat (fst (run_writes (write sc) [] [bs "1.2.3.4" ++ [10%N] ++ bs "5.6.7.8" ++ [10%N]])) =
    bs "[scrubbed]" ++ [10%N] ++ bs "[scrubbed]" ++ [10%N].
Proof. exact fixed_examples. Qed.

Example C07_split_nonvacuous :
  concat [bs "a 1.2."; bs "3.4" ++ [NL] ++ bs "::1 "; bs "x" ++ [NL]] = concat [bs "a 1.2.3.4" ++ [NL]; bs "::1 x" ++ [NL]] /\
  fst (run_writes (write sc) [] [bs "a 1.2."; bs "3.4" ++ [NL] ++ bs "::1 "; bs "x" ++ [NL]]) =
    [bs "a [scrubbed]" ++ [NL]; bs "[scrubbed] x" ++ [NL]].
Proof. vm_compute. split; reflexivity. Qed.

Example C07_incl_nonvacuous : RegexIncl.incl addr_spec pat_A = true.
Proof. exact c_inclA. Qed.

Example C07_lines_nonvacuous : is_line (bs "1.2.3.4" ++ [NL]) /\
  run_writes (write sc) [] [bs "1.2."; bs "3.4" ++ [NL] ++ bs "x"] = ([bs "[scrubbed]" ++ [NL]], bs "x").
Proof.
  split; [exists (bs "1.2.3.4"); split; [reflexivity|vm_compute; intuition discriminate]|].
  vm_compute. reflexivity.
Qed.
