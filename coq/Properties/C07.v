(* C07 — no IP address survives the log scrubber (common/safelog).

   The theorems are about the executable model (Model/Regex.v: Go's regexp as a leftmost-first
   backtracking matcher; Model/Scrub.v: Scrub and LogScrubber.Write) instantiated with the patterns in
   Gen/SafelogPatterns.v, which the check regenerates from /repo's source on every run.
     pat_L, pat_A, pat_R : the full pattern is  pat_L (group 1: pat_A) pat_R   (Proofs/C07Proofs.full_shape)
     addr_spec            : hand-written regex of every textual form of an IPv4/IPv6 address (Model/Scrub.v)
     left_ok pre          : pre is empty (beginning of the text handed to Scrub = of the line) or ends with a
                            delimiter byte; right_ok post likewise; a delimiter is any byte other than
                            [0-9A-Za-z_] and ':'  (whitespace, punctuation other than ':', non-ASCII)
     replaced_spans t     : the (start, end) positions of t that Scrub replaces by "[scrubbed]"
     dotted_run pre w     : w is a dotted quad (with or without port) and pre ends with a decimal digit and '.':
                            the occurrence continues a run of dotted numbers such as 1.2.3.4.5.6.7, in which the
                            scrubber takes the first four numbers as the address (C07_r2_dotted_run_refuted)
     colon_ws w post      : w ends with ':' and post starts with a whitespace byte: the pattern's delimiter
                            alternative ":\s" may take the last ':' of h:h:h:h:h:h:h:: (C07_r2_last_colon_survives)
     C07_covers_all       : COVERAGE - outside these two cases the whole occurrence lies inside one replaced span
     C07_v0_*             : the pinned algorithm / pinned patterns (Model/SafelogPinned.v, frozen) violate the property.
     C07_r2_*             : the current patterns (Model/SafelogRound2.v, frozen copy of /repo d0c6152): what the
                            coverage theorem excludes is really not covered.

   Buffer ownership (io.Writer: "Write must not modify the slice data. Implementations must not retain p."):
   the writer theorems are stated over byte VALUES, so by themselves they say nothing about a writer that keeps a
   reference to the caller's slice.  Model/SafelogOwn.v makes the caller's memory explicit: a history is the list of
   (caller's array at the time of the call, length passed), arbitrary between calls; what the writer keeps is bytes it
   owns or a view into the caller's array.  C07_write_no_retention: the copying writer (what /repo does:
   append(ls.buffer, b...)) is the value-level writer on the bytes passed, for EVERY history;
   C07_retaining_writer_refuted: a writer that keeps the pending partial line as a view of the caller's array lets
   an address through when the caller refills its array (io.Copy, bufio.Writer, os/exec).  The no-retention half is
   enforced on the implementation by the tie: the Go driver hands every chunk of every write-splitting case
   (ops write, lwrite, conc) to Write in ONE scratch array that it overwrites after the call returns, and the model op
   `write` executes run_scratch, the same delivery (C07_write_scratch_delivery: equal to run_writes).

   Concurrent writers: LogScrubber.Write holds ls.lock for its whole body, so concurrent Write calls take effect
   one after the other in the order in which they obtain the mutex.  A history of concurrent writers is therefore
   modelled as the serial list ws of Write calls in that order, and the writer theorems quantify over every list
   ws, i.e. over every such order and every splitting.  That the lock really serialises the calls (no data race on
   the buffer) is not proved here; it is checked on the implementation in C20 (race detector) and exercised by the
   `conc` cases of lib/checks/c07.py. *)
From Coq Require Import String List NArith.
From Snow Require Import Lib.Wire Model.Regex Model.RegexIncl Model.Scrub Model.SafelogPinned Gen.SafelogPatterns.
From Snow Require Import Model.RegexDisj Model.SafelogRound2 Model.SafelogOwn.
From Snow Require Import Proofs.RegexProofs Proofs.MatcherProofs Proofs.ScrubProofs Proofs.C07Proofs.
From Snow Require Import Proofs.RegexDisjProofs Proofs.ScrubCoverProofs Proofs.C07CoverProofs Proofs.SafelogOwnProofs.
Import ListNotations.
Open Scope string_scope.
Open Scope list_scope.
Notation length := List.length (only parsing).
Notation concat := List.concat (only parsing).

(* generic: the inclusion checker is sound (used by reflection below) *)
Theorem C07_incl_sound : forall r1 r2,
  RegexIncl.incl r1 r2 = true -> forall w, matches r1 w -> matches r2 w.
Proof. exact incl_sound. Qed.

(* every textual form of an address is in the language of the address part of the compiled pattern *)
Theorem C07_spec_included : forall w, matches addr_spec w -> matches pat_A w.
Proof. exact spec_included. Qed.

Theorem C07_spec_included_address_pattern : forall w, matches addr_spec w -> matches address_pattern w.
Proof. exact spec_included_address_pattern. Qed.

(* Scrub's output is the text with the replaced spans substituted by the placeholder ... *)
Theorem C07_scrub_render : forall t, scrub full_patterns t = render t 0 (replaced_spans t).
Proof. exact scrub_render. Qed.

(* the replaced spans lie inside the text, are non-empty, increasing and pairwise disjoint *)
Theorem C07_replaced_spans_wf : forall t, wf_spans 0 (length t) (replaced_spans t).
Proof. exact replaced_spans_wf. Qed.

(* the loop bound of the model is never reached (the Go loop is unbounded) *)
Theorem C07_scrub_fuel_irrelevant : forall t f,
  length t < f -> scrub full_patterns t = scrub_loop f the_full t.
Proof. exact scrub_fuel_irrelevant. Qed.

(* ... and every delimited occurrence of an address, anywhere in any text, however many other addresses
   precede it and whatever separates them, is hit by a replaced span *)
Theorem C07_hides_all : forall pre w post,
  matches addr_spec w -> left_ok pre -> right_ok post ->
  exists a b, In (a, b) (replaced_spans (pre ++ w ++ post)) /\
              a < length pre + length w /\ length pre < b.
Proof. exact hides_all. Qed.

(* ---- COVERAGE.  generic: the disjointness checker is sound (used by reflection in Proofs/C07CoverProofs.v) *)
Theorem C07_disj_sound : forall r1 r2,
  RegexDisj.disj r1 r2 = true -> forall w, matches r1 w -> matches r2 w -> False.
Proof. exact disj_sound. Qed.

(* every delimited occurrence of an address that does not continue a dotted run lies INSIDE one replaced
   span - all of it, or all but a final ':' when whitespace follows *)
Theorem C07_covers_all : forall pre w post,
  matches addr_spec w -> left_ok pre -> right_ok post -> ~ dotted_run pre w ->
  exists a b, In (a, b) (replaced_spans (pre ++ w ++ post)) /\
              a <= length pre /\
              (length pre + length w <= b \/ (b + 1 = length pre + length w /\ colon_ws w post)).
Proof. exact covers_all. Qed.

Theorem C07_covers_all_strict : forall pre w post,
  matches addr_spec w -> left_ok pre -> right_ok post -> ~ dotted_run pre w -> ~ colon_ws w post ->
  exists a b, In (a, b) (replaced_spans (pre ++ w ++ post)) /\
              a <= length pre /\ length pre + length w <= b.
Proof. exact covers_all_strict. Qed.

(* hence the output is: the rendering of a prefix of pre, the placeholder, the rendering of a suffix of post
   (of ':' ++ post in the colon case).  No byte of the address takes part in the output. *)
Theorem C07_address_absent : forall pre w post,
  matches addr_spec w -> left_ok pre -> right_ok post -> ~ dotted_run pre w ->
  exists a b sp1 sp2 rest,
    replaced_spans (pre ++ w ++ post) = sp1 ++ (a, b) :: sp2 /\ a <= length pre /\
    scrub full_patterns (pre ++ w ++ post) = render (firstn a pre) 0 sp1 ++ scrubbed ++ render rest b sp2 /\
    ((length pre + length w <= b /\ rest = skipn (b - (length pre + length w)) post) \/
     (b + 1 = length pre + length w /\ rest = 58%N :: post /\ colon_ws w post)).
Proof. exact address_absent. Qed.

(* common/event (EventOnOfferCreated, EventOnBrokerRendezvous, EventOnSnowflakeConnectionFailed): String() is a
   fixed text followed by Scrub of the error text; no byte of a delimited address of the error text takes part in it.
   (The client hands these strings to tor's log with pt.Log; lib/checks/c07.py builds the error chains of Go's
   net / net/url packages and compares String() with event_string.) *)
Theorem C07_event_string_covered : forall ty pre w post,
  matches addr_spec w -> left_ok pre -> right_ok post -> ~ dotted_run pre w ->
  exists a b sp1 sp2 rest,
    replaced_spans (pre ++ w ++ post) = sp1 ++ (a, b) :: sp2 /\ a <= length pre /\
    event_string full_patterns ty (pre ++ w ++ post) =
      event_prefix ty ++ render (firstn a pre) 0 sp1 ++ scrubbed ++ render rest b sp2 /\
    ((length pre + length w <= b /\ rest = skipn (b - (length pre + length w)) post) \/
     (b + 1 = length pre + length w /\ rest = 58%N :: post /\ colon_ws w post)).
Proof. exact event_string_covered. Qed.

(* the writer: what reaches the sink depends only on the concatenation of the writes; it is the
   per-line scrubbed image of the complete lines, in order; the rest stays buffered *)
Theorem C07_write_split_invariant : forall ws,
  run_writes (write (scrub full_patterns)) [] ws =
    (map (scrub full_patterns) (fst (split_lines (concat ws))), snd (split_lines (concat ws))).
Proof. exact (write_split_invariant (scrub full_patterns)). Qed.

Theorem C07_write_split_independent : forall ws1 ws2,
  concat ws1 = concat ws2 ->
  run_writes (write (scrub full_patterns)) [] ws1 = run_writes (write (scrub full_patterns)) [] ws2.
Proof. exact (write_split_independent (scrub full_patterns)). Qed.

(* ---- buffer ownership: for every history of calls - whatever the caller's array holds outside the slices passed and
   whatever the caller does to it between the calls - the sink's content and the pending bytes are those of the
   value-level writer on the bytes passed; the writer's state never refers to the caller's memory (it is `Own`) *)
Theorem C07_write_no_retention : forall h,
  run_mem (write_own (scrub full_patterns)) (Own []) h =
    (fst (run_writes (write (scrub full_patterns)) [] (passed h)),
     Own (snd (run_writes (write (scrub full_patterns)) [] (passed h)))).
Proof. exact (write_no_retention (scrub full_patterns)). Qed.

(* ... hence two histories that pass the same stream of bytes, split and placed in memory in any way, are
   indistinguishable *)
Theorem C07_write_values_only : forall h1 h2,
  concat (passed h1) = concat (passed h2) ->
  run_mem (write_own (scrub full_patterns)) (Own []) h1 = run_mem (write_own (scrub full_patterns)) (Own []) h2.
Proof. exact (write_values_only (scrub full_patterns)). Qed.

(* the delivery executed by the tie (one scratch array, overwritten after every call) *)
Theorem C07_write_scratch_delivery : forall ws,
  run_scratch (scrub full_patterns) ws = run_writes (write (scrub full_patterns)) [] ws.
Proof. exact (run_scratch_spec (scrub full_patterns)). Qed.

(* a writer that keeps the pending partial line as a view of the caller's array (no copy when nothing is pending),
   a caller that refills one array of 25 bytes: "up: " | "2001:db8::1 is reachable\n"  ->  "20012001:db8::1 is reachable\n"
   (frozen patterns of Model/SafelogRound2.v; the copying writer on the same history scrubs the address) *)
Theorem C07_retaining_writer_refuted :
  exists h pre w post junk,
    passed h = [pre; w ++ post] /\ (forall m n, In (m, n) h -> length m = 25) /\
    matches addr_spec w /\ left_ok pre /\ right_ok post /\
    fst (run_writes (write sc2) [] (passed h)) = [pre ++ scrubbed ++ post] /\
    fst (run_mem (write_own sc2) (Own []) h) = [pre ++ scrubbed ++ post] /\
    fst (run_mem (write_retain sc2) (Own []) h) = [junk ++ w ++ post].
Proof. exact retaining_writer_refuted. Qed.

Theorem C07_complete_lines : forall ws outs pend,
  run_writes (write (scrub full_patterns)) [] ws = (outs, pend) ->
  exists lines, outs = map (scrub full_patterns) lines /\ Forall is_line lines /\
                concat lines ++ pend = concat ws /\ no_nl pend.
Proof. exact (write_complete_lines (scrub full_patterns)). Qed.

(* writer and scrubber together, for every sequence of Write calls (= every splitting of the stream and
   every order in which concurrent writers obtain the mutex) *)
Theorem C07_end_to_end : forall ws outs pend,
  run_writes (write (scrub full_patterns)) [] ws = (outs, pend) ->
  exists lines,
    outs = map (fun l => render l 0 (replaced_spans l)) lines /\
    Forall is_line lines /\ concat lines ++ pend = concat ws /\ no_nl pend /\
    forall l pre w post, In l lines -> l = pre ++ w ++ post ->
      matches addr_spec w -> left_ok pre -> right_ok post ->
      exists a b, In (a, b) (replaced_spans l) /\ a < length pre + length w /\ length pre < b.
Proof. exact end_to_end. Qed.

(* ... and with coverage instead of overlap *)
Theorem C07_end_to_end_covered : forall ws outs pend,
  run_writes (write (scrub full_patterns)) [] ws = (outs, pend) ->
  exists lines,
    outs = map (fun l => render l 0 (replaced_spans l)) lines /\
    Forall is_line lines /\ concat lines ++ pend = concat ws /\ no_nl pend /\
    forall l pre w post, In l lines -> l = pre ++ w ++ post ->
      matches addr_spec w -> left_ok pre -> right_ok post -> ~ dotted_run pre w ->
      exists a b, In (a, b) (replaced_spans l) /\ a <= length pre /\
                  (length pre + length w <= b \/ (b + 1 = length pre + length w /\ colon_ws w post)).
Proof. exact end_to_end_covered. Qed.

(* a scrubbed line still ends with its newline: every block the sink receives ends with '\n' *)
Theorem C07_block_ends_with_newline : forall l, is_line l ->
  exists body', scrub full_patterns l = body' ++ [NL].
Proof. exact scrub_keeps_newline. Qed.

Theorem C07_line_local : forall a b,
  scrub_stream (scrub full_patterns) ((a ++ [NL]) ++ b) =
  scrub_stream (scrub full_patterns) (a ++ [NL]) ++ scrub_stream (scrub full_patterns) b.
Proof. exact (scrub_stream_line_local (scrub full_patterns)). Qed.

(* ---- the pinned code violates the property *)

Theorem C07_v0_refuted :
  exists pre w post out_pre,
    matches addr_spec w /\ left_ok pre /\ right_ok post /\
    sc0 (pre ++ w ++ post) = out_pre ++ w ++ post.
Proof. exact v0_adjacent. Qed.

Theorem C07_v0_refuted_seven_groups :
  exists w post, matches addr_spec w /\ right_ok post /\ sc0 (w ++ post) = w ++ post.
Proof. exact v0_seven_groups. Qed.

Theorem C07_v0_spec_not_included : exists w, matches addr_spec w /\ ~ matches pinned_address_pattern w.
Proof. exact v0_spec_not_included. Qed.

Theorem C07_v0_refuted_multiline :
  exists w, matches addr_spec w /\
    fst (run_writes (write_v0 sc0) [] [bs "1.2.3.4" ++ [10%N] ++ w ++ [10%N]]) = [bs "[scrubbed]" ++ [10%N] ++ w ++ [10%N]].
Proof. exact v0_multiline. Qed.

Theorem C07_v0_split_dependent :
  exists ws1 ws2, concat ws1 = concat ws2 /\
    concat (fst (run_writes (write_v0 sc0) [] ws1)) <> concat (fst (run_writes (write_v0 sc0) [] ws2)).
Proof. exact v0_split_dependent. Qed.

(* ---- the current patterns: the two exclusions of C07_covers_all cannot be dropped *)

(* "1.2.3." "4.5.6.7" " x"  ->  "[scrubbed].5.6.7 x" *)
Theorem C07_r2_dotted_run_refuted :
  exists pre w post,
    matches addr_spec w /\ left_ok pre /\ right_ok post /\ dotted_run pre w /\
    sc2 (pre ++ w ++ post) = scrubbed ++ skipn 1 w ++ post.
Proof. exact r2_dotted_run. Qed.

(* "1:2:3:4:5:6:7::" " x"  ->  "[scrubbed]: x" *)
Theorem C07_r2_last_colon_survives :
  exists w post,
    matches addr_spec w /\ right_ok post /\ colon_ws w post /\
    sc2 (w ++ post) = scrubbed ++ [58%N] ++ post.
Proof. exact r2_last_colon. Qed.

(* ---- the hypotheses of the implications are satisfiable *)

(* a dotted quad after a word ending in '.', and an IPv6 address after a dotted number: both inside the theorem *)
Example C07_covers_all_nonvacuous :
  (exists pre w post, matches addr_spec w /\ left_ok pre /\ right_ok post /\ ~ dotted_run pre w /\
                      ~ colon_ws w post /\ matches v4forms w /\ pre <> [] /\ post <> []) /\
  (exists pre w post, matches addr_spec w /\ left_ok pre /\ right_ok post /\ ~ dotted_run pre w /\
                      colon_ws w post).
Proof.
  split.
  - exists (bs "host."), (bs "1.2.3.4:80"), (bs ".").
    split; [apply spec_word; vm_compute; reflexivity|].
    split; [right; exists (bs "host"), 46%N; split; reflexivity|].
    split; [right; exists 46%N, []; split; reflexivity|].
    split.
    { intros (_ & pre' & d & E & Hd). apply (f_equal (@rev N)) in E. rewrite rev_app_distr in E.
      simpl in E. inversion E; subst. vm_compute in Hd. discriminate. }
    split.
    { intros (_ & z & post' & E & Hz). inversion E; subst. vm_compute in Hz. discriminate. }
    split; [apply matchb_sound; vm_compute; reflexivity|]. split; discriminate.
  - exists (bs "v1.2."), (bs "1:2:3:4:5:6:7::"), (bs " x").
    split; [apply spec_word; vm_compute; reflexivity|].
    split; [right; exists (bs "v1.2"), 46%N; split; reflexivity|].
    split; [right; exists 32%N, (bs "x"); split; reflexivity|].
    split.
    { intros (Hv & _). apply derivs_correct in Hv. vm_compute in Hv. discriminate. }
    split; [exists (bs "1:2:3:4:5:6:7:"); reflexivity|exists 32%N, (bs "x"); split; reflexivity].
Qed.

Example C07_r2_dotted_run_sometimes_covered :
  sc2 (bs "a 1.2.3.4.5.6.7.8 ") = bs "a [scrubbed].[scrubbed] ".
Proof. exact r2_dotted_run_sometimes_covered. Qed.

Example C07_event_string_example :
  event_string full_patterns 1 (bs "dial tcp: lookup x.example on [2001:db8::53]:53: no such host") =
  bs "broker failure dial tcp: lookup x.example on [scrubbed]: no such host".
Proof. vm_compute. reflexivity. Qed.

Example C07_disj_nonvacuous : RegexDisj.disj rest_spec (after gA rest_spec) = true.
Proof. exact g_K2. Qed.


Example C07_hides_all_nonvacuous :
  exists pre w post, matches addr_spec w /\ left_ok pre /\ right_ok post /\ pre <> [] /\ post <> [].
Proof.
  exists (bs "x "), (bs "::1"), [32%N].
  split; [apply spec_word; vm_compute; reflexivity|].
  split; [right; exists (bs "x"), 32%N; split; reflexivity|].
  split; [right; exists 32%N, []; split; reflexivity|].
  split; discriminate.
Qed.

Example C07_fixed_examples :
  sc (bs "1.2.3.4 5.6.7.8" ++ [10%N]) = bs "[scrubbed] [scrubbed]" ++ [10%N] /\
  sc (bs "::a:b:c:d:e:f:abcd" ++ [10%N]) = bs "[scrubbed]" ++ [10%N] /\
  sc (bs "[1:2:3:4:5:6:abcd::]:80 y" ++ [10%N]) = bs "[scrubbed] y" ++ [10%N] /\
  concat (fst (run_writes (write sc) [] [bs "1.2.3.4" ++ [10%N] ++ bs "5.6.7.8" ++ [10%N]])) =
    bs "[scrubbed]" ++ [10%N] ++ bs "[scrubbed]" ++ [10%N].
Proof. exact fixed_examples. Qed.

Example C07_split_nonvacuous :
  concat [bs "a 1.2."; bs "3.4" ++ [NL] ++ bs "::1 "; bs "x" ++ [NL]] = concat [bs "a 1.2.3.4" ++ [NL]; bs "::1 x" ++ [NL]] /\
  fst (run_writes (write sc) [] [bs "a 1.2."; bs "3.4" ++ [NL] ++ bs "::1 "; bs "x" ++ [NL]]) =
    [bs "a [scrubbed]" ++ [NL]; bs "[scrubbed] x" ++ [NL]].
Proof. vm_compute. split; reflexivity. Qed.

(* a history whose arrays differ outside the slices passed and are overwritten between the calls *)
Example C07_no_retention_nonvacuous :
  passed [(bs "a 1.2.777", 6); (bs "3.4" ++ [NL] ++ bs "x7", 5)] = [bs "a 1.2."; bs "3.4" ++ [NL] ++ bs "x"] /\
  run_mem (write_own sc) (Own []) [(bs "a 1.2.777", 6); (bs "3.4" ++ [NL] ++ bs "x7", 5)] =
    ([bs "a [scrubbed]" ++ [NL]], Own (bs "x")) /\
  concat (passed [(bs "a 1.2.3.4" ++ [NL] ++ bs "x", 11)]) =
    concat (passed [(bs "a 1.2.777", 6); (bs "3.4" ++ [NL] ++ bs "x7", 5)]).
Proof. vm_compute. repeat split; reflexivity. Qed.

Example C07_incl_nonvacuous : RegexIncl.incl addr_spec pat_A = true.
Proof. exact c_inclA. Qed.

Example C07_lines_nonvacuous : is_line (bs "1.2.3.4" ++ [NL]) /\
  run_writes (write sc) [] [bs "1.2."; bs "3.4" ++ [NL] ++ bs "x"] = ([bs "[scrubbed]" ++ [NL]], bs "x").
Proof.
  split; [exists (bs "1.2.3.4"); split; [reflexivity|vm_compute; intuition discriminate]|].
  vm_compute. reflexivity.
Qed.

(* ---------------------------------------------------------------- a sink that fails (Model/ScrubFail.v)
   LogScrubber.Write leaves its buffer untouched when the sink's Write returns an error: the complete lines are offered again
   with the next Write.  A write is (bytes, ok); the output is what the sink ACCEPTED.  A failing sink only delays: the accepted
   output is that of the merged writes on a sink that never fails, so every theorem above carries over - in particular only
   scrubbed complete lines are ever accepted and nothing is lost.  Tie: op `writef` (a sink whose first call takes k bytes and
   fails; every line reaching the sink afterwards must be the scrubbed form of a complete line of the input). *)
From Snow Require Import Model.ScrubFail Proofs.ScrubFailProofs.

Theorem C07_failing_sink_delays_only : forall ws,
  run_writes_f (scrub full_patterns) [] ws =
  (let (m, c) := merge_writes [] ws in
   let (o, p) := run_writes (write (scrub full_patterns)) [] m in (o, p ++ c)).
Proof. exact (failing_sink_delays_only (scrub full_patterns)). Qed.

Theorem C07_failing_sink_complete_lines : forall ws outs pend,
  run_writes_f (scrub full_patterns) [] ws = (outs, pend) ->
  exists lines, outs = map (scrub full_patterns) lines /\ Forall is_line lines /\
                concat lines ++ pend = concat (map fst ws).
Proof. exact (failing_sink_complete_lines (scrub full_patterns)). Qed.

(* "a 1.2.3.4\n" offered to a failing sink, then "b\n" to a working one: both lines are accepted then, the address scrubbed *)
Example C07_failing_sink_example :
  run_writes_f (scrub full_patterns) [] [(bs "a 1.2.3.4" ++ [10%N], false); (bs "b" ++ [10%N], true)] =
  ([bs "a [scrubbed]" ++ [10%N]; bs "b" ++ [10%N]], []).
Proof. vm_compute. reflexivity. Qed.
