(* C20 - no data races on the tracked shared state (PARTIAL: lock / atomic / immutable
   disciplines only; goroutine confinement and channel hand-off are outside, see the
   manifest note).

   C20_lockset_drf, C20_discipline_sound, C20_trace_check_sound : for ALL traces (no bound); locks have
     write sections (exclusive) and read sections (shared, sync.RWMutex.RLock).
   C20_table_ok : the table generated from the repo's CURRENT source passes the discipline
     (vm_compute on the generated list; recompiled whenever the table changes).
   C20_table_v0_refuted : the table of the pinned tree does not (the four defects of F9
     plus the value-receiver copy in tokens_t.count). *)
From Coq Require Import String List Arith.
From Snow Require Import Model.LockTrace Proofs.LockTraceProofs Proofs.AccessTableProofs
  Gen.AccessTable Gen.AccessTableV0.
Import ListNotations.

(* In every well-formed trace, a location whose accesses (outside the initialisation phase
   that precedes the first Fork) are all atomic, or all performed inside sections of one common
   lock - WRITE sections (Mutex.Lock, RWMutex.Lock), except that plain reads may be inside READ
   sections (RWMutex.RLock), several of which may be open at once - or all plain reads, has no two
   conflicting accesses by different threads that are unordered by happens-before (program order
   + end of write section -> later section + end of read section -> later write section + fork,
   closed).  Two plain reads never conflict; a read in a read section and a write in a write
   section are ordered. *)
Theorem C20_lockset_drf : forall tr,
  wf_locks tr -> wf_threads tr ->
  forall x, disciplined tr x ->
  forall i j e1 e2, i < j -> nth_error tr i = Some e1 -> nth_error tr j = Some e2 ->
    conflict e1 e2 x -> hb tr i j.
Proof. exact lockset_drf. Qed.

(* A table that passes discipline_ok gives that premise for every location of every trace
   whose accesses are instances of the table's rows holding at least the recorded locks. *)
Theorem C20_discipline_sound : forall (field_of : loc -> string) (inst : loc -> string -> lock) tbl,
  discipline_ok tbl = true ->
  forall tr, respects field_of inst tbl tr -> forall x, disciplined tr x.
Proof. exact discipline_sound. Qed.

(* the one-pass checker run (extracted) on recorded executions accepts only well-formed traces
   that respect the table *)
Theorem C20_trace_check_sound : forall (field_of : loc -> string) (inst : loc -> string -> lock) tbl tr,
  check_trace field_of inst tbl tr = true ->
  wf_locks tr /\ wf_threads tr /\ respects field_of inst tbl tr.
Proof. exact check_sound. Qed.

(* the table extracted from the current source passes *)
Theorem C20_table_ok : discipline_ok access_table = true.
Proof. exact table_ok. Qed.

(* hence no execution that respects the extracted table has an unordered conflicting pair
   of accesses to a tracked field *)
Theorem C20_tracked_fields_race_free :
  forall (field_of : loc -> string) (inst : loc -> string -> lock) tr,
  wf_locks tr -> wf_threads tr -> respects field_of inst access_table tr ->
  forall x i j e1 e2, i < j -> nth_error tr i = Some e1 -> nth_error tr j = Some e2 ->
    conflict e1 e2 x -> hb tr i j.
Proof. exact tracked_fields_race_free. Qed.

(* a recorded execution accepted by the checker against the extracted table has no unordered
   conflicting pair of accesses to a tracked field *)
Theorem C20_checked_trace_race_free :
  forall (field_of : loc -> string) (inst : loc -> string -> lock) tr,
  check_trace field_of inst access_table tr = true ->
  wf_locks tr /\ wf_threads tr /\ respects field_of inst access_table tr /\ forall x, race_free_on tr x.
Proof. exact checked_trace_race_free. Qed.

(* the pinned tree: these tracked fields have no consistent discipline *)
Theorem C20_table_v0_refuted :
  failing_fields access_table_v0 =
  ["CountryStats.counts"; "CountryStats.natRestricted"; "CountryStats.natUnknown";
   "CountryStats.natUnrestricted"; "CountryStats.proxies[]"; "CountryStats.unknown";
   "Metrics.clientDeniedCount"; "Metrics.clientProxyMatchCount";
   "Metrics.clientRestrictedDeniedCount"; "Metrics.clientRoundtripEstimate";
   "Metrics.clientUnrestrictedDeniedCount"; "Metrics.countryStats"; "Metrics.proxyIdleCount";
   "Metrics.proxyPollRejectedWithRelayURLExtension"; "Metrics.proxyPollWithRelayURLExtension";
   "Metrics.proxyPollWithoutRelayURLExtension"; "bytesSyncLogger.inEvents";
   "bytesSyncLogger.inbound"; "bytesSyncLogger.outEvents"; "bytesSyncLogger.outbound";
   "roundedCounter.total"; "roundedCounter.value"; "tokens_t.clients"]%string
  /\ discipline_ok access_table_v0 = false.
Proof. exact table_v0_refuted. Qed.

(* the hypotheses of the two implications are satisfiable by a two-thread trace with a real
   conflict, which the theorems then order *)
Example C20_hypotheses_satisfiable :
  discipline_ok ex_tbl = true /\ wf_locks ex_tr /\ wf_threads ex_tr /\
  respects ex_field_of ex_inst ex_tbl ex_tr /\
  nth_error ex_tr 2 = Some (Wr 0 5) /\ nth_error ex_tr 5 = Some (Rd 1 5) /\
  conflict (Wr 0 5) (Rd 1 5) 5 /\
  disciplined ex_tr 5 /\ hb ex_tr 2 5.
Proof. exact hypotheses_satisfiable. Qed.

(* read-write locks: two threads inside read sections of the same lock at the same moment
   (position 4) is a well-formed trace; the write conflicts with the reads before and after it and
   all three pairs are ordered *)
Example C20_rw_hypotheses_satisfiable :
  discipline_ok rw_tbl = true /\ wf_locks rw_tr /\ wf_threads rw_tr /\
  respects ex_field_of ex_inst rw_tbl rw_tr /\
  holds_r rw_tr 4 1 7 /\ holds_r rw_tr 4 2 7 /\
  conflict (Rd 1 5) (Wr 0 5) 5 /\ conflict (Rd 2 5) (Wr 0 5) 5 /\ conflict (Wr 0 5) (Rd 2 5) 5 /\
  hb rw_tr 4 9 /\ hb rw_tr 5 9 /\ hb rw_tr 9 12.
Proof. exact rw_hypotheses_satisfiable. Qed.

(* a WRITE made inside a READ section: the trace is well formed and faithful to its table, the
   write and the other thread's read are unordered, and the table check rejects that table *)
Example C20_write_under_read_lock_rejected :
  discipline_ok rw_bad_tbl = false /\ failing_fields rw_bad_tbl = ["T.f"%string] /\
  wf_locks rw_bad_tr /\ wf_threads rw_bad_tr /\ respects ex_field_of ex_inst rw_bad_tbl rw_bad_tr /\
  conflict (Wr 0 5) (Rd 1 5) 5 /\ ~ hb rw_bad_tr 3 4 /\ ~ disciplined rw_bad_tr 5.
Proof. exact write_under_read_lock_rejected. Qed.

(* the premise of C20_tracked_fields_race_free is satisfiable for the GENERATED table: a trace
   over its own field and lock names (emitted with the table, re-checked here on every run) that
   respects it, enters at least 3 different locks, touches at least 3 tracked fields, and has two
   readers inside one read section of the RWMutex *)
Example C20_generated_table_respected :
  wf_locks gen_ex_tr /\ wf_threads gen_ex_tr /\
  respects gen_ex_field_of gen_ex_inst access_table gen_ex_tr /\
  3 <= length (nodup Nat.eq_dec (acquired gen_ex_tr)) /\
  3 <= length (nodup string_dec (map gen_ex_field_of (touched gen_ex_tr))) /\
  (forall x, race_free_on gen_ex_tr x) /\
  (exists i t1 t2 g, t1 <> t2 /\ holds_r gen_ex_tr i t1 g /\ holds_r gen_ex_tr i t2 g).
Proof. exact generated_table_respected. Qed.

(* and the conclusion can fail: an undisciplined well-formed trace with an unordered conflict *)
Example C20_racy_trace_not_ordered :
  wf_locks racy_tr /\ wf_threads racy_tr /\ conflict (Wr 0 5) (Wr 1 5) 5 /\
  ~ hb racy_tr 1 2 /\ ~ disciplined racy_tr 5.
Proof. exact racy_trace_not_ordered. Qed.
