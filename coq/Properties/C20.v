(* C20 - no data races on the tracked shared state (PARTIAL: lock / atomic / immutable
   disciplines only; goroutine confinement and channel hand-off are outside, see the
   manifest note).

   C20_lockset_drf, C20_discipline_sound : for ALL traces (no bound).
   C20_table_ok : the table generated from the repo's CURRENT source passes the discipline
     (vm_compute on the generated list; recompiled whenever the table changes).
   C20_table_v0_refuted : the table of the pinned tree does not (the four defects of F9
     plus the value-receiver copy in tokens_t.count). *)
From Coq Require Import String List Arith.
From Snow Require Import Model.LockTrace Proofs.LockTraceProofs Proofs.AccessTableProofs
  Gen.AccessTable Gen.AccessTableV0.
Import ListNotations.

(* In every well-formed trace, a location whose accesses (outside the initialisation phase
   that precedes the first Fork) are all atomic, or all performed while holding one common
   lock, or all plain reads, has no two conflicting accesses by different threads that are
   unordered by happens-before (program order + release->later acquire + fork, closed). *)
Theorem C20_lockset_drf : forall tr,
  wf_locks tr -> wf_threads tr ->
  forall x, disciplined tr x ->
  forall i j e1 e2, i < j -> nth_error tr i = Some e1 -> nth_error tr j = Some e2 ->
    conflict e1 e2 x -> hb tr i j.
Proof. exact lockset_drf. Qed.

(* A table that passes discipline_ok gives that premise for every location of every trace
   whose accesses are instances of the table's rows holding at least the recorded locks. *)
Theorem C20_discipline_sound : forall (field_of : loc -> string) (inst : loc -> string -> lock) tbl,
  discipline_ok tbl = true ->
  forall tr, respects field_of inst tbl tr -> forall x, disciplined tr x.
Proof. exact discipline_sound. Qed.

(* the table extracted from the current source passes *)
Theorem C20_table_ok : discipline_ok access_table = true.
Proof. exact table_ok. Qed.

(* hence no execution that respects the extracted table has an unordered conflicting pair
   of accesses to a tracked field *)
Theorem C20_tracked_fields_race_free :
  forall (field_of : loc -> string) (inst : loc -> string -> lock) tr,
  wf_locks tr -> wf_threads tr -> respects field_of inst access_table tr ->
  forall x i j e1 e2, i < j -> nth_error tr i = Some e1 -> nth_error tr j = Some e2 ->
    conflict e1 e2 x -> hb tr i j.
Proof. exact tracked_fields_race_free. Qed.

(* the pinned tree: these tracked fields have no consistent discipline *)
Theorem C20_table_v0_refuted :
  failing_fields access_table_v0 =
  ["CountryStats.counts"; "CountryStats.natRestricted"; "CountryStats.natUnknown";
   "CountryStats.natUnrestricted"; "CountryStats.proxies[]"; "CountryStats.unknown";
   "Metrics.clientDeniedCount"; "Metrics.clientProxyMatchCount";
   "Metrics.clientRestrictedDeniedCount"; "Metrics.clientRoundtripEstimate";
   "Metrics.clientUnrestrictedDeniedCount"; "Metrics.countryStats"; "Metrics.proxyIdleCount";
   "Metrics.proxyPollRejectedWithRelayURLExtension"; "Metrics.proxyPollWithRelayURLExtension";
   "Metrics.proxyPollWithoutRelayURLExtension"; "bytesSyncLogger.inEvents";
   "bytesSyncLogger.inbound"; "bytesSyncLogger.outEvents"; "bytesSyncLogger.outbound";
   "roundedCounter.total"; "roundedCounter.value"; "tokens_t.clients"]%string
  /\ discipline_ok access_table_v0 = false.
Proof. exact table_v0_refuted. Qed.

(* the hypotheses of the two implications are satisfiable by a two-thread trace with a real
   conflict, which the theorems then order *)
Example C20_hypotheses_satisfiable :
  discipline_ok ex_tbl = true /\ wf_locks ex_tr /\ wf_threads ex_tr /\
  respects ex_field_of ex_inst ex_tbl ex_tr /\
  nth_error ex_tr 2 = Some (Wr 0 5) /\ nth_error ex_tr 5 = Some (Rd 1 5) /\
  conflict (Wr 0 5) (Rd 1 5) 5 /\
  disciplined ex_tr 5 /\ hb ex_tr 2 5.
Proof. exact hypotheses_satisfiable. Qed.

(* and the conclusion can fail: an undisciplined well-formed trace with an unordered conflict *)
Example C20_racy_trace_not_ordered :
  wf_locks racy_tr /\ wf_threads racy_tr /\ conflict (Wr 0 5) (Wr 1 5) 5 /\
  ~ hb racy_tr 1 2 /\ ~ disciplined racy_tr 5.
Proof. exact racy_trace_not_ordered. Qed.
