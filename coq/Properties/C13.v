(* placeholder until Proofs/SessDescProofs.v lands *)
From Snow Require Import Lib.Wire Model.SessDesc.
