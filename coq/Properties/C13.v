(* C13 — untrusted session descriptions cannot crash client or proxy.
   Statements over Model/SessDesc.v (the model of util.Serialize/DeserializeSessionDescription);
   [deserialize] is the repaired code (comma-ok assertions), [deserialize_v0] the pinned code.
   A JSON text enters as [option json]: None = not JSON, Some v = the value encoding/json builds. *)
From Coq Require Import List NArith Bool String.
From Snow Require Import Lib.Wire Model.SessDesc Proofs.SessDescProofs.
From Snow Require Import Model.IpClass Model.SdpStrip Proofs.SdpStripProofs.
From Snow Require Import Model.SessDescPeer Proofs.SessDescPeerProofs Model.SessDescCallers Proofs.SessDescCallersProofs.
Import ListNotations.
Open Scope N_scope.

(* Serialising then deserialising gives back the description, for the four SDP types and any SDP text. *)
Theorem C13_roundtrip : forall d : desc,
  d_type d <> TOther -> deserialize (Some (serialize d)) = Ok d.
Proof. exact roundtrip. Qed.

Example C13_roundtrip_nonvacuous :
  forall s, deserialize (Some (serialize (mkDesc TOffer s))) = Ok (mkDesc TOffer s)
         /\ deserialize (Some (serialize (mkDesc TPranswer s))) = Ok (mkDesc TPranswer s)
         /\ deserialize (Some (serialize (mkDesc TAnswer s))) = Ok (mkDesc TAnswer s)
         /\ deserialize (Some (serialize (mkDesc TRollback s))) = Ok (mkDesc TRollback s).
Proof. intros s. repeat split; apply roundtrip; discriminate. Qed.

(* the side condition is needed: webrtc.SDPType values outside the four print as "unknown" *)
Example C13_roundtrip_needs_named_type :
  forall s, deserialize (Some (serialize (mkDesc TOther s))) = Err EUnknownType.
Proof. exact roundtrip_other_fails. Qed.

(* The same at text level, encoding/json being a stated hypothesis (tested on every run by the `ser` cases). *)
Theorem C13_roundtrip_text :
  forall (jprint : json -> bytes) (jparse : bytes -> option json) (utf8_ok : bytes -> Prop),
  (forall k1 v1 k2 v2, utf8_ok k1 -> utf8_ok v1 -> utf8_ok k2 -> utf8_ok v2 ->
     jparse (jprint (JObj [(k1, JStr v1); (k2, JStr v2)])) = Some (JObj [(k1, JStr v1); (k2, JStr v2)])) ->
  (forall s, Forall (fun b => b < 128) s -> utf8_ok s) ->
  forall d, d_type d <> TOther -> utf8_ok (d_sdp d) ->
  deserialize_text jparse (serialize_text jprint d) = Ok d.
Proof. exact roundtrip_text. Qed.

(* Deserialising never panics: for every text (JSON or not) the result is a description or an error. *)
Theorem C13_total : forall j : option json, deserialize j <> Panic.
Proof. exact total. Qed.

Theorem C13_total_text : forall (jparse : bytes -> option json) (s : bytes), deserialize_text jparse s <> Panic.
Proof. exact total_text. Qed.

(* Exactly what is accepted: a JSON object (not null) whose LAST "type" member is a string naming one of
   the four types and whose LAST "sdp" member is a string; the description carries exactly those. *)
Theorem C13_accept_iff : forall (j : option json) (d : desc),
  deserialize j = Ok d <->
  exists m, unmarshal_map j = Some m
    /\ last_binding K_TYPE (JStr (type_name (d_type d))) m
    /\ d_type d <> TOther
    /\ last_binding K_SDP (JStr (d_sdp d)) m.
Proof. exact accept_iff. Qed.

Theorem C13_reject_iff : forall j : option json,
  (exists e, deserialize j = Err e) <-> (forall d, ~ accepts j d).
Proof. exact reject_iff. Qed.

Theorem C13_lookup_last_wins : forall k m v,
  lookup k m = Some v <-> exists m1 m2, m = m1 ++ (k, v) :: m2 /\ forall k' v', In (k', v') m2 -> k' <> k.
Proof. exact lookup_some_iff. Qed.

(* The pinned code panics on {"type":1,"sdp":"x"} ... *)
Theorem C13_v0_refuted :
  deserialize_v0 (Some (JObj [(bs "type", JNum (bs "1")); (bs "sdp", JStr (bs "x"))])) = Panic.
Proof. reflexivity. Qed.

(* ... exactly when both members are present and "type" is not a string, or "type" names one of the four
   types and "sdp" is not a string. *)
Theorem C13_v0_panics_iff : forall j : option json,
  deserialize_v0 j = Panic <->
  exists m tv sv, unmarshal_map j = Some m /\ lookup K_TYPE m = Some tv /\ lookup K_SDP m = Some sv
    /\ (is_str tv = false \/ (exists name t, tv = JStr name /\ type_of_name name = Some t /\ is_str sv = false)).
Proof. exact v0_panics_iff. Qed.

(* The repair removes no behaviour: it agrees with the pinned code wherever that did not panic, and
   returns an error where it did. *)
Theorem C13_fix_conservative : forall j : option json,
  (deserialize_v0 j <> Panic -> deserialize j = deserialize_v0 j)
  /\ (deserialize_v0 j = Panic -> exists e, deserialize j = Err e).
Proof. intros j. split; [apply fix_conservative | apply fix_error_where_panic]. Qed.

Example C13_fix_conservative_nonvacuous :
  deserialize_v0 (Some (JObj [(bs "type", JStr (bs "answer")); (bs "sdp", JStr (bs "v=0"))])) = Ok (mkDesc TAnswer (bs "v=0"))
  /\ deserialize_v0 (Some (JObj [(bs "type", JStr (bs "offer")); (bs "sdp", JNull)])) = Panic.
Proof. split; reflexivity. Qed.

(* Peer-address extraction (proxy/lib remoteIPFromSDP) over the parsed SDP ([p] = None: pion/sdp rejects the
   text; [caps] = what the two c= patterns capture): the modelled step is total, and whatever it returns is
   never a local, unspecified or loopback address.  Panic freedom of the parsers is observed, not proved. *)
Theorem C13_peer_addr_total : forall (p : option description) (caps : list (option bytes)),
  remote_ip p caps = None
  \/ exists ip, remote_ip p caps = Some ip /\ is_local ip = false /\ is_unspecified ip = false /\ is_loopback ip = false.
Proof. exact remote_ip_total. Qed.

Example C13_peer_addr_nonvacuous :
  remote_ip (Some [[mkAttr 0 (Cand Host (Some [10;0;0;1])); mkAttr 1 (Cand Srflx (Some [1;2;3;4]))]]) [] = Some [1;2;3;4]
  /\ remote_ip (Some [[mkAttr 0 (Cand Host (Some [10;0;0;1]))]]) [None; Some [8;8;8;8]] = Some [8;8;8;8]
  /\ remote_ip None [Some [8;8;8;8]] = None.
Proof. repeat split; reflexivity. Qed.

(* ------------------------------------------------------------------------------------------------
   remoteIPFromSDP at the granularity at which the Go code can panic (Model/SessDescPeer.v): every
   partial operation of the function - m.Attributes on a media pointer, c.Address() on the candidate
   interface, m[1] on a submatch slice - is a step that yields [PPanic].  For EVERY input the libraries
   can hand over ([lib_contract]: no nil media pointer, a candidate whenever no error, 1+2 strings per
   match; each clause is observed by the driver on every text it runs) no step panics, the result is nil
   or an address, and an address is never local, unspecified or loopback. *)
Theorem C13_peer_addr_never_panics : forall (parsed : option (list pmedia)) (caps : list submatch),
  lib_contract parsed caps = true ->
  (forall w, remote_ip_code parsed caps <> PPanic w)
  /\ (remote_ip_code parsed caps = PVal None
      \/ exists ip, remote_ip_code parsed caps = PVal (Some ip)
            /\ is_local ip = false /\ is_unspecified ip = false /\ is_loopback ip = false).
Proof.
  intros parsed caps H. split; [apply (remote_ip_code_never_panics parsed caps H)|apply (remote_ip_code_total parsed caps H)].
Qed.

Example C13_peer_addr_never_panics_nonvacuous :
  let parsed := Some [Some [PCand (mkUcand None true); POther; PCand (mkUcand (Some (Host, Some [10;0;0;1])) false)];
                      Some [PCand (mkUcand (Some (Srflx, None)) false)]] in
  let caps := [SNil; SSlice [None; Some [32;1;13;184;0;0;0;0;0;0;0;0;0;0;0;1]; None]] in
  lib_contract parsed caps = true
  /\ remote_ip_code parsed caps = PVal (Some [32;1;13;184;0;0;0;0;0;0;0;0;0;0;0;1]).
Proof. split; reflexivity. Qed.

(* the checks in the code are the reason: drop `if err == nil` or `if m != nil` and an input allowed by
   the contract panics, which the code as written answers with nil *)
Theorem C13_peer_addr_checks_needed :
  (exists parsed caps, lib_contract parsed caps = true
      /\ remote_ip_g (mkGuards false true) parsed caps = PPanic WNilCandidate /\ remote_ip_code parsed caps = PVal None)
  /\ (exists parsed caps, lib_contract parsed caps = true
      /\ remote_ip_g (mkGuards true false) parsed caps = PPanic WIndex /\ remote_ip_code parsed caps = PVal None).
Proof.
  split.
  - exists (Some [Some [PCand (mkUcand None true)]]), []. exact err_check_needed.
  - exists (Some []), [SNil]. exact match_check_needed.
Qed.

(* what is NOT defended by the code but promised by the libraries (each clause of the contract is needed) *)
Theorem C13_peer_addr_contract_needed :
  remote_ip_code (Some [None]) [] = PPanic WNilMedia
  /\ remote_ip_code (Some [Some [PCand (mkUcand None false)]]) [] = PPanic WNilCandidate
  /\ remote_ip_code (Some []) [SSlice [None]] = PPanic WIndex.
Proof. exact contract_needed. Qed.

(* the fine model computes the coarse one of C13_peer_addr_total *)
Theorem C13_peer_addr_refines : forall (parsed : option (list pmedia)) (caps : list submatch),
  lib_contract parsed caps = true ->
  remote_ip_code parsed caps = PVal (remote_ip (erase parsed) (map erase_cap caps)).
Proof. exact remote_ip_code_refines. Qed.

(* webRTCConn.RemoteAddr dereferences pc.RemoteDescription(): safe given a remote description (the only
   call is from the OnDataChannel callback, which cannot fire before SetRemoteDescription succeeded) *)
Theorem C13_remote_addr : forall (parsed : option (list pmedia)) (caps : list submatch),
  lib_contract parsed caps = true -> exists ip, remote_addr (Some (parsed, caps)) = AVal ip.
Proof. exact remote_addr_safe. Qed.

(* ------------------------------------------------------------------------------------------------
   The callers on the untrusted path (Model/SessDescCallers.v), each as decode result -> branches over
   the Go pair (ptr, err): "no remote party can terminate a client or proxy process with a crafted
   message" - whatever the exchange, the outer decoder and encoding/json deliver, no caller panics, and
   a description is dereferenced (handed to pion) exactly when the deserialiser accepted the message. *)

(* proxy, NAT probe answer (remote party: the probe server) *)
Theorem C13_natprobe_caller : forall (post_ok : bool) (outer : option (option json)),
  natprobe_code post_ok outer <> CPanic
  /\ (forall d, natprobe_code post_ok outer = CRet (Some d) <->
                 post_ok = true /\ exists j, outer = Some j /\ deserialize j = Ok d)
  /\ (natprobe_code post_ok outer = CRet None <->
        post_ok = false \/ outer = None \/ exists j e, outer = Some j /\ deserialize j = Err e).
Proof.
  intros post_ok outer. split; [apply natprobe_code_never_panics|].
  split; [intros d; apply natprobe_code_uses|apply natprobe_code_returns].
Qed.

(* the `return` after the failed deserialisation is what protects `*answer`: without it every rejected
   answer - starting with one that is not JSON - crashes the proxy *)
Theorem C13_natprobe_return_needed : forall (j : option json) (e : derr),
  deserialize j = Err e -> natprobe false deserialize true (Some j) = CPanic.
Proof. exact natprobe_lost_return_panics. Qed.

Example C13_natprobe_return_needed_nonvacuous :
  deserialize None = Err EJson /\ natprobe false deserialize true (Some None) = CPanic
  /\ natprobe_code true (Some None) = CRet None
  /\ natprobe true deserialize_v0 true (Some (Some (JObj [(bs "type", JNum (bs "1")); (bs "sdp", JStr (bs "x"))]))) = CPanic.
Proof. repeat split; reflexivity. Qed.

(* proxy, offer relayed by the broker (remote party: the client): pollOffer over any sequence of broker
   answers, then runSession *)
Theorem C13_polloffer_caller : forall (rs : list presp) (relay_ok : bool),
  (exists p, poll_offer_code rs = Some p)
  /\ (forall d, poll_offer_code rs = Some (Some d) <->
                 exists n j rest, rs = repeat PollNoMatch n ++ PollOffer j :: rest /\ deserialize j = Ok d)
  /\ run_session_code rs relay_ok <> CPanic
  /\ (forall d, run_session_code rs relay_ok = CRet (Some d) <-> relay_ok = true /\ poll_offer_code rs = Some (Some d)).
Proof.
  intros rs relay_ok. split; [apply poll_offer_code_total|]. split; [intros d; apply poll_offer_code_spec|].
  split; [apply run_session_code_never_panics|intros d; apply run_session_code_uses].
Qed.

Example C13_polloffer_caller_nonvacuous :
  let good := Some (JObj [(bs "type", JStr (bs "offer")); (bs "sdp", JStr (bs "v=0"))]) in
  poll_offer_code [PollNoMatch; PollNoMatch; PollOffer good; PollBad] = Some (Some (mkDesc TOffer (bs "v=0")))
  /\ poll_offer_code [PollNoMatch; PollOffer (Some JNull)] = Some None
  /\ run_session_code [PollOffer good] true = CRet (Some (mkDesc TOffer (bs "v=0")))
  /\ run_session true false deserialize [PollOffer None] true = CPanic.
Proof. repeat split; reflexivity. Qed.

(* client, answer relayed by the broker (remote party: the proxy): Negotiate never returns (nil, nil),
   connect never dereferences a nil answer *)
Theorem C13_negotiate_caller : forall r : cresp,
  ((exists d, negotiate_code r = Some (Some d, false)) \/ negotiate_code r = Some (None, true))
  /\ (forall d, negotiate_code r = Some (Some d, false) <-> exists j, r = RespAnswer j /\ deserialize j = Ok d)
  /\ connect_code r <> CPanic
  /\ (forall d, connect_code r = CRet (Some d) <-> exists j, r = RespAnswer j /\ deserialize j = Ok d).
Proof.
  intros r. split; [apply negotiate_code_coherent|]. split; [intros d; apply negotiate_code_spec|].
  split; [apply connect_code_never_panics|intros d; apply connect_code_uses].
Qed.

Example C13_negotiate_caller_nonvacuous :
  connect false deserialize ExchErr = CPanic
  /\ connect false deserialize (RespAnswer None) = CPanic
  /\ connect_code (RespAnswer None) = CRet None
  /\ connect_code (RespAnswer (Some (JObj [(bs "sdp", JStr (bs "x")); (bs "type", JStr (bs "answer"))]))) = CRet (Some (mkDesc TAnswer (bs "x"))).
Proof. repeat split; reflexivity. Qed.
