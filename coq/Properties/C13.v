(* C13 — untrusted session descriptions cannot crash client or proxy.
   Statements over Model/SessDesc.v (the model of util.Serialize/DeserializeSessionDescription);
   [deserialize] is the repaired code (comma-ok assertions), [deserialize_v0] the pinned code.
   A JSON text enters as [option json]: None = not JSON, Some v = the value encoding/json builds. *)
From Coq Require Import List NArith Bool String.
From Snow Require Import Lib.Wire Model.SessDesc Proofs.SessDescProofs.
From Snow Require Import Model.IpClass Model.SdpStrip Proofs.SdpStripProofs.
Import ListNotations.
Open Scope N_scope.

(* Serialising then deserialising gives back the description, for the four SDP types and any SDP text. *)
Theorem C13_roundtrip : forall d : desc,
  d_type d <> TOther -> deserialize (Some (serialize d)) = Ok d.
Proof. exact roundtrip. Qed.

Example C13_roundtrip_nonvacuous :
  forall s, deserialize (Some (serialize (mkDesc TOffer s))) = Ok (mkDesc TOffer s)
         /\ deserialize (Some (serialize (mkDesc TPranswer s))) = Ok (mkDesc TPranswer s)
         /\ deserialize (Some (serialize (mkDesc TAnswer s))) = Ok (mkDesc TAnswer s)
         /\ deserialize (Some (serialize (mkDesc TRollback s))) = Ok (mkDesc TRollback s).
Proof. intros s. repeat split; apply roundtrip; discriminate. Qed.

(* the side condition is needed: webrtc.SDPType values outside the four print as "unknown" *)
Example C13_roundtrip_needs_named_type :
  forall s, deserialize (Some (serialize (mkDesc TOther s))) = Err EUnknownType.
Proof. exact roundtrip_other_fails. Qed.

(* The same at text level, encoding/json being a stated hypothesis (tested on every run by the `ser` cases). *)
Theorem C13_roundtrip_text :
  forall (jprint : json -> bytes) (jparse : bytes -> option json) (utf8_ok : bytes -> Prop),
  (forall k1 v1 k2 v2, utf8_ok k1 -> utf8_ok v1 -> utf8_ok k2 -> utf8_ok v2 ->
     jparse (jprint (JObj [(k1, JStr v1); (k2, JStr v2)])) = Some (JObj [(k1, JStr v1); (k2, JStr v2)])) ->
  (forall s, Forall (fun b => b < 128) s -> utf8_ok s) ->
  forall d, d_type d <> TOther -> utf8_ok (d_sdp d) ->
  deserialize_text jparse (serialize_text jprint d) = Ok d.
Proof. exact roundtrip_text. Qed.

(* Deserialising never panics: for every text (JSON or not) the result is a description or an error. *)
Theorem C13_total : forall j : option json, deserialize j <> Panic.
Proof. exact total. Qed.

Theorem C13_total_text : forall (jparse : bytes -> option json) (s : bytes), deserialize_text jparse s <> Panic.
Proof. exact total_text. Qed.

(* Exactly what is accepted: a JSON object (not null) whose LAST "type" member is a string naming one of
   the four types and whose LAST "sdp" member is a string; the description carries exactly those. *)
Theorem C13_accept_iff : forall (j : option json) (d : desc),
  deserialize j = Ok d <->
  exists m, unmarshal_map j = Some m
    /\ last_binding K_TYPE (JStr (type_name (d_type d))) m
    /\ d_type d <> TOther
    /\ last_binding K_SDP (JStr (d_sdp d)) m.
Proof. exact accept_iff. Qed.

Theorem C13_reject_iff : forall j : option json,
  (exists e, deserialize j = Err e) <-> (forall d, ~ accepts j d).
Proof. exact reject_iff. Qed.

Theorem C13_lookup_last_wins : forall k m v,
  lookup k m = Some v <-> exists m1 m2, m = m1 ++ (k, v) :: m2 /\ forall k' v', In (k', v') m2 -> k' <> k.
Proof. exact lookup_some_iff. Qed.

(* The pinned code panics on {"type":1,"sdp":"x"} ... *)
Theorem C13_v0_refuted :
  deserialize_v0 (Some (JObj [(bs "type", JNum (bs "1")); (bs "sdp", JStr (bs "x"))])) = Panic.
Proof. reflexivity. Qed.

(* ... exactly when both members are present and "type" is not a string, or "type" names one of the four
   types and "sdp" is not a string. *)
Theorem C13_v0_panics_iff : forall j : option json,
  deserialize_v0 j = Panic <->
  exists m tv sv, unmarshal_map j = Some m /\ lookup K_TYPE m = Some tv /\ lookup K_SDP m = Some sv
    /\ (is_str tv = false \/ (exists name t, tv = JStr name /\ type_of_name name = Some t /\ is_str sv = false)).
Proof. exact v0_panics_iff. Qed.

(* The repair removes no behaviour: it agrees with the pinned code wherever that did not panic, and
   returns an error where it did. *)
Theorem C13_fix_conservative : forall j : option json,
  (deserialize_v0 j <> Panic -> deserialize j = deserialize_v0 j)
  /\ (deserialize_v0 j = Panic -> exists e, deserialize j = Err e).
Proof. intros j. split; [apply fix_conservative | apply fix_error_where_panic]. Qed.

Example C13_fix_conservative_nonvacuous :
  deserialize_v0 (Some (JObj [(bs "type", JStr (bs "answer")); (bs "sdp", JStr (bs "v=0"))])) = Ok (mkDesc TAnswer (bs "v=0"))
  /\ deserialize_v0 (Some (JObj [(bs "type", JStr (bs "offer")); (bs "sdp", JNull)])) = Panic.
Proof. split; reflexivity. Qed.

(* Peer-address extraction (proxy/lib remoteIPFromSDP) over the parsed SDP ([p] = None: pion/sdp rejects the
   text; [caps] = what the two c= patterns capture): the modelled step is total, and whatever it returns is
   never a local, unspecified or loopback address.  Panic freedom of the parsers is observed, not proved. *)
Theorem C13_peer_addr_total : forall (p : option description) (caps : list (option bytes)),
  remote_ip p caps = None
  \/ exists ip, remote_ip p caps = Some ip /\ is_local ip = false /\ is_unspecified ip = false /\ is_loopback ip = false.
Proof. exact remote_ip_total. Qed.

Example C13_peer_addr_nonvacuous :
  remote_ip (Some [[mkAttr 0 (Cand Host (Some [10;0;0;1])); mkAttr 1 (Cand Srflx (Some [1;2;3;4]))]]) [] = Some [1;2;3;4]
  /\ remote_ip (Some [[mkAttr 0 (Cand Host (Some [10;0;0;1]))]]) [None; Some [8;8;8;8]] = Some [8;8;8;8]
  /\ remote_ip None [Some [8;8;8;8]] = None.
Proof. repeat split; reflexivity. Qed.
