(* placeholder until Proofs land *)
From Snow Require Import Lib.Wire Model.AmpPath.
