(* C11 — Rendezvous requests are faithfully encoded, fronted and bounded.
   Statements only; proofs are in Proofs/{AmpPath,CacheURL,Rendezvous}Proofs.v.
   Library behaviour (idna.ToUnicode/ToASCII, sha256, AMP armor, IPC.ClientOffers) is
   universally quantified in each statement, with the hypotheses it needs spelled out. *)
From Coq Require Import List NArith Bool Arith String.
From Snow Require Import Lib.Wire Model.B64Url Model.AmpPath Model.CacheURL Model.Rendezvous.
From Snow Require Import Proofs.AmpPathProofs Proofs.CacheURLProofs Proofs.RendezvousPathProofs Proofs.RendezvousProofs.
Import ListNotations.
Open Scope N_scope.
Notation length := List.length.

(* ---------------- path encoding ---------------- *)

(* "0" ++ ANY padding (slashes included) ++ "/" ++ base64url(data) decodes to data *)
Theorem C11_path_roundtrip : forall pad data,
  wf_bytes data -> decode_path (encode_path_with_pad pad data) = POk data.
Proof. exact path_roundtrip. Qed.

Example C11_path_roundtrip_ex :
  wf_bytes [49; 46; 48; 10; 123; 125; 255; 0] /\
  encode_path_with_pad (bs "AA//_-") [49; 46; 48; 10; 123; 125; 255; 0] = bs "0AA//_-/MS4wCnt9_wA".
Proof. split; [repeat constructor|vm_compute; reflexivity]. Qed.

(* the encoder proper, for every value of the 9 random cache-breaker bytes *)
Theorem C11_path_roundtrip_encoder : forall cache_breaker data,
  wf_bytes data -> decode_path (encode_path cache_breaker data) = POk data.
Proof. exact path_roundtrip_encoder. Qed.

(* two paths that differ only before the final slash decode alike (also to the same error) *)
Theorem C11_path_padding_irrelevant : forall pad1 pad2 t,
  ~ In SLASH t ->
  decode_path (ZERO_CH :: pad1 ++ SLASH :: t) = decode_path (ZERO_CH :: pad2 ++ SLASH :: t).
Proof. exact path_padding_irrelevant. Qed.

Example C11_path_padding_irrelevant_ex : ~ In SLASH (bs "QUJD").
Proof. vm_compute. intuition discriminate. Qed.

(* every outcome of DecodePath, as an iff on the shape of the path *)
Theorem C11_path_errors : forall p,
  (decode_path p = PErr MissingFormat <-> p = []) /\
  (decode_path p = PErr UnknownFormat <-> exists v rest, p = v :: rest /\ v <> ZERO_CH) /\
  (decode_path p = PErr MissingData <-> exists rest, p = ZERO_CH :: rest /\ ~ In SLASH rest) /\
  (decode_path p = PErr BadBase64 <->
     exists pre t, p = ZERO_CH :: pre ++ SLASH :: t /\ ~ In SLASH t /\ u_decode t = None) /\
  (forall d, decode_path p = POk d <->
     exists pre t, p = ZERO_CH :: pre ++ SLASH :: t /\ ~ In SLASH t /\ u_decode t = Some d).
Proof. exact path_outcomes. Qed.

(* base64url is refused exactly for a character outside the alphabet (CR and LF are
   skipped) or a count of alphabet characters that is 1 modulo 4 *)
Theorem C11_b64url_refused_iff : forall s,
  u_decode s = None <->
  (exists c, In c s /\ is_nl c = false /\ ~ in_alphabet c) \/ (length (strip_nl s) mod 4 = 1)%nat.
Proof. exact u_decode_none. Qed.

(* ---------------- broker: AMP endpoint = armored POST endpoint ---------------- *)

Theorem C11_amp_equals_post :
  forall (client_offers : bytes -> option bytes) (legacy_post : bytes -> http_reply)
         (armor : bytes -> bytes) (decode_error_response : option bytes) p body,
  decode_path p = POk body ->
  not_legacy body ->
  N.of_nat (length body) <= BROKER_READ_LIMIT ->
  let post := post_handler client_offers legacy_post body in
  let ampr := amp_handler client_offers armor decode_error_response (AMP_ROUTE ++ p) in
  (h_status post = 200 /\ ampr = {| h_status := 200; h_body := armor (h_body post) |}) \/
  (h_status post = 500 /\ ampr = {| h_status := 500; h_body := [] |}).
Proof. exact amp_equals_post. Qed.

Example C11_amp_equals_post_ex :
  decode_path (bs "0AAAAAAAAAAAA/MS4wCnt9") = POk (bs "1.0
{}") /\ not_legacy (bs "1.0
{}") /\ N.of_nat (length (bs "1.0
{}")) <= BROKER_READ_LIMIT.
Proof. vm_compute. repeat split; discriminate. Qed.

(* composed with the client's encoder, for any padding *)
Theorem C11_amp_equals_post_encoded :
  forall (client_offers : bytes -> option bytes) (legacy_post : bytes -> http_reply)
         (armor : bytes -> bytes) (decode_error_response : option bytes) pad body,
  wf_bytes body -> not_legacy body -> N.of_nat (length body) <= BROKER_READ_LIMIT ->
  let post := post_handler client_offers legacy_post body in
  let ampr := amp_handler client_offers armor decode_error_response (AMP_ROUTE ++ encode_path_with_pad pad body) in
  (h_status post = 200 /\ ampr = {| h_status := 200; h_body := armor (h_body post) |}) \/
  (h_status post = 500 /\ ampr = {| h_status := 500; h_body := [] |}).
Proof. exact amp_equals_post_encoded. Qed.

(* the two endpoints for EVERY decodable poll, with the cases the equality above leaves out: a poll beyond the POST
   body limit is a 400 on /client but is taken by /amp/client/ (the handler has no limit of its own); a poll that
   starts with '{' goes to the legacy shim on /client but is an ordinary (versioned, hence refused by IPC) poll on
   /amp/client/. So "AMP = armored POST" holds exactly for non-legacy polls within the limit. *)
Theorem C11_amp_vs_post_all_polls :
  forall (client_offers : bytes -> option bytes) (legacy_post : bytes -> http_reply)
         (armor : bytes -> bytes) (decode_error_response : option bytes) p body,
  decode_path p = POk body ->
  let post := post_handler client_offers legacy_post body in
  let ampr := amp_handler client_offers armor decode_error_response (AMP_ROUTE ++ p) in
  ampr = match client_offers body with
         | Some r => {| h_status := 200; h_body := armor r |}
         | None => {| h_status := 500; h_body := [] |}
         end /\
  (BROKER_READ_LIMIT < N.of_nat (length body) -> post = {| h_status := 400; h_body := [] |}) /\
  (N.of_nat (length body) <= BROKER_READ_LIMIT -> is_legacy_b body = true -> post = legacy_post body) /\
  (N.of_nat (length body) <= BROKER_READ_LIMIT -> is_legacy_b body = false ->
     post = match client_offers body with
            | Some r => {| h_status := 200; h_body := r |}
            | None => {| h_status := 500; h_body := [] |}
            end).
Proof. exact amp_post_cases. Qed.

(* the divergence is real: a '{'-leading poll for which the shim answers 503 and IPC (on the raw body) an error text *)
Example C11_amp_vs_post_diverge_ex :
  let co := fun b : bytes => Some (bs "{""error"":""unsupported message version""}") in
  let lp := fun b : bytes => {| h_status := 503; h_body := [] |} in
  decode_path (bs "0/e30") = POk (bs "{}") /\ is_legacy_b (bs "{}") = true /\
  post_handler co lp (bs "{}") = {| h_status := 503; h_body := [] |} /\
  amp_handler co (fun x => x) None (AMP_ROUTE ++ bs "0/e30") = {| h_status := 200; h_body := bs "{""error"":""unsupported message version""}" |} /\
  BROKER_READ_LIMIT < N.of_nat (length (repeat 49 (N.to_nat 100001))) /\
  h_status (post_handler co lp (repeat 49 (N.to_nat 100001))) = 400.
Proof. vm_compute. repeat split. Qed.

(* ---------------- domain prefix ---------------- *)

(* a single dot-free label of at most 63 bytes: either the basic algorithm's output or the
   52-character a-z2-7 fallback (taken exactly when the basic algorithm fails or is too long) *)
Theorem C11_prefix_label :
  forall (to_unicode to_ascii : bytes -> option bytes) (sha256 : bytes -> bytes) (h34 : bytes -> bool),
  (forall s r, to_ascii s = Some r -> ~ In DOTC s -> ~ In DOTC r) ->
  (forall d, length (sha256 d) = 32%nat) ->
  forall d,
    let p := domain_prefix to_unicode to_ascii sha256 h34 d in
    ~ In DOTC p /\ (length p <= 63)%nat /\
    (domain_prefix_basic to_unicode to_ascii h34 d = Some p \/
     (p = domain_prefix_fallback sha256 d /\ length p = 52%nat /\ Forall b32_alpha p /\
      (domain_prefix_basic to_unicode to_ascii h34 d = None \/
       exists q, domain_prefix_basic to_unicode to_ascii h34 d = Some q /\ (63 < length q)%nat))).
Proof. exact prefix_label. Qed.

Example C11_prefix_label_ex :
  (forall s r, (fun x : bytes => Some x) s = Some r -> ~ In DOTC s -> ~ In DOTC r) /\
  (forall d : bytes, length ((fun _ => repeat 0 32) d) = 32%nat).
Proof. split; [intros s r H; inversion H; auto|reflexivity]. Qed.

(* with the character-indexed hyphen test the basic algorithm is the AMP specification's *)
Theorem C11_prefix_is_spec :
  forall (to_unicode to_ascii : bytes -> option bytes) d cps,
  to_unicode d = Some (utf8_encode cps) -> valid_str cps ->
  domain_prefix_basic to_unicode to_ascii h34_runes d = to_ascii (utf8_encode (steps234_spec cps)).
Proof. exact basic_is_spec. Qed.

(* the byte-indexed test (code at the pinned commit) agrees with the specification on ASCII names *)
Theorem C11_prefix_is_spec_ascii :
  forall (to_unicode to_ascii : bytes -> option bytes) d cps,
  to_unicode d = Some (utf8_encode cps) -> Forall (fun c => c < 128) cps ->
  domain_prefix_basic to_unicode to_ascii h34_bytes d = to_ascii (utf8_encode (steps234_spec cps)).
Proof. exact basic_v0_is_spec_ascii. Qed.

Example C11_prefix_is_spec_ex :
  valid_str [101; 110; 45; 117; 115; 46; 99; 111; 109] /\ Forall (fun c => c < 128) [101; 110; 45; 117; 115; 46; 99; 111; 109] /\
  steps234_spec [101; 110; 45; 117; 115; 46; 99; 111; 109] = bs "0-en--us-com-0".
Proof. split; [repeat constructor|split; [repeat constructor|vm_compute; reflexivity]]. Qed.

(* ... and not on internationalised names: "é-c.com" gets 0-…-0 from the bytes test only,
   "éa-b.com" from the specification only *)
Theorem C11_prefix_idn_refuted :
  (let cps := [233; 45; 99; 46; 99; 111; 109] in
   valid_str cps /\ h34_bytes (replace_byte DOTC [HYPHEN] (replace_byte HYPHEN [HYPHEN; HYPHEN] (utf8_encode cps))) = true /\
   h34_spec (replace_byte DOTC [HYPHEN] (replace_byte HYPHEN [HYPHEN; HYPHEN] cps)) = false /\
   steps234 h34_bytes (utf8_encode cps) <> utf8_encode (steps234_spec cps)) /\
  (let cps := [233; 97; 45; 98; 46; 99; 111; 109] in
   valid_str cps /\ h34_bytes (replace_byte DOTC [HYPHEN] (replace_byte HYPHEN [HYPHEN; HYPHEN] (utf8_encode cps))) = false /\
   h34_spec (replace_byte DOTC [HYPHEN] (replace_byte HYPHEN [HYPHEN; HYPHEN] cps)) = true /\
   steps234 h34_bytes (utf8_encode cps) <> utf8_encode (steps234_spec cps)).
Proof. exact steps234_bytes_refuted. Qed.

(* ---------------- cache URL ---------------- *)

(* CacheURL succeeds exactly under these conditions, and then returns exactly this URL *)
Theorem C11_cache_url_iff :
  forall (to_unicode to_ascii : bytes -> option bytes) (sha256 : bytes -> bytes) (h34 : bytes -> bool) pu cu ct r,
  cache_url to_unicode to_ascii sha256 h34 pu cu ct = Some r <->
  ct <> [] /\ (p_scheme pu = S_HTTP \/ p_scheme pu = S_HTTPS) /\ p_user pu = false /\
  port_default pu /\ p_hostname pu <> [] /\
  valid_escapes (path_join (path_components pu cu ct)) = true /\
  c_rawquery cu = [] /\ c_fragment cu = [] /\
  r = {| r_scheme := c_scheme cu; r_user := c_user cu;
         r_host := result_host to_unicode to_ascii sha256 h34 pu cu;
         r_rawpath := path_join (path_components pu cu ct);
         r_rawquery := p_rawquery pu; r_fragment := p_fragment pu |}.
Proof. exact cache_url_some. Qed.

(* for a publisher path /p1/…/pn and a cache path /c1/…/cm[/] without empty or dot segments,
   the result path is /c1/…/cm/c[/s]/<escaped host>/p1/…/pn *)
Theorem C11_cache_path : forall pu cu cs ps (trailing : bool),
  Forall normal_seg cs -> Forall normal_seg ps ->
  c_epath cu = abs_path cs ++ (if trailing then [SLASHC] else []) ->
  p_epath pu = abs_path ps ->
  p_hostname pu <> [] -> p_hostname pu <> [DOTC] -> p_hostname pu <> [DOTC; DOTC] ->
  let raw := path_join (path_components pu cu (bs "c"%string)) in
  (c_epath cu <> [] -> raw = abs_path (cs ++ middle pu ++ ps)) /\
  (c_epath cu = [] -> SLASHC :: raw = abs_path (middle pu ++ ps)).
Proof. exact cache_path_shape. Qed.

Example C11_cache_path_ex :
  let pu := {| p_scheme := S_HTTPS; p_user := false; p_hostname := bs "b.example"; p_port := [];
               p_epath := bs "/amp/client/0AAAA/QUJD"; p_rawquery := []; p_fragment := [] |} in
  let cu := {| c_scheme := S_HTTPS; c_user := None; c_hostname := bs "cdn.ampproject.org"; c_port := [];
               c_epath := bs "/"; c_rawquery := []; c_fragment := [] |} in
  Forall normal_seg [bs "amp"; bs "client"; bs "0AAAA"; bs "QUJD"] /\
  c_epath cu = abs_path [] ++ [SLASHC] /\ p_epath pu = abs_path [bs "amp"; bs "client"; bs "0AAAA"; bs "QUJD"] /\
  path_join (path_components pu cu (bs "c")) = bs "/c/s/b.example/amp/client/0AAAA/QUJD".
Proof.
  cbv zeta. split.
  - repeat (apply Forall_cons; [repeat split; try discriminate; vm_compute; intuition discriminate|]). apply Forall_nil.
  - vm_compute. repeat split.
Qed.

(* ---------------- client: fronting ---------------- *)

Theorem C11_fronting_http : forall b front body, front <> [] ->
  let q := http_request b front body in
  q_connect_host q = front /\ q_host_header q = b_host b /\
  q_method q = bs "POST"%string /\ q_body q = Some body /\
  (forall h, erase_host_header (http_request (set_host b h) front body) = erase_host_header q).
Proof. exact http_fronting. Qed.

Theorem C11_fronting_amp :
  forall (to_unicode to_ascii : bytes -> option bytes) (sha256 : bytes -> bytes) (h34 : bytes -> bool)
         b cache front cb data q,
  front <> [] ->
  amp_request to_unicode to_ascii sha256 h34 b cache front cb data = Some q ->
  q_connect_host q = front /\ q_method q = bs "GET"%string /\ q_body q = None /\
  match cache with
  | None => q_host_header q = b_host b
  | Some cu =>
      exists r, cache_url to_unicode to_ascii sha256 h34 (amp_pub_url b cb data) cu (bs "c"%string) = Some r /\
                q_host_header q = r_host r
  end.
Proof. exact amp_fronting. Qed.

Theorem C11_fronting_amp_nocache_only_host_header :
  forall (to_unicode to_ascii : bytes -> option bytes) (sha256 : bytes -> bytes) (h34 : bytes -> bool)
         b front cb data h,
  front <> [] ->
  option_map erase_host_header (amp_request to_unicode to_ascii sha256 h34 (set_host b h) None front cb data) =
  option_map erase_host_header (amp_request to_unicode to_ascii sha256 h34 b None front cb data).
Proof. exact amp_fronting_nocache_only_host_header. Qed.

Example C11_fronting_ex :
  let b := {| b_scheme := S_HTTPS; b_user := false; b_host := bs "broker.example"; b_hostname := bs "broker.example";
              b_port := []; b_epath := bs "/" |} in
  bs "front.example" <> [] /\
  http_request b (bs "front.example") (bs "x") =
    {| q_method := bs "POST"; q_scheme := S_HTTPS; q_connect_host := bs "front.example";
       q_host_header := bs "broker.example"; q_path := bs "/client"; q_rawquery := []; q_body := Some (bs "x") |} /\
  amp_request (fun x => Some x) (fun x => Some x) (fun _ => []) h34_runes b None (bs "front.example") (repeat 0 9) (bs "ABC") =
    Some {| q_method := bs "GET"; q_scheme := S_HTTPS; q_connect_host := bs "front.example";
            q_host_header := bs "broker.example"; q_path := bs "/amp/client/0AAAAAAAAAAAA/QUJD"; q_rawquery := []; q_body := None |}.
Proof. cbv zeta. split; [discriminate|]. split; vm_compute; reflexivity. Qed.

(* through an AMP cache, end to end: for a non-empty poll, a broker base path /b1/…/bk/ and a
   cache path /c1/…/cm[/] without empty or dot segments, the request path is
   /<cache path>/c[/s]/<broker host>/<broker path>/amp/client/0<pad>/<base64url(poll)>,
   i.e. it ends in the broker's AMP route followed by an encoded path that decodes to the poll *)
Theorem C11_amp_cache_end_to_end :
  forall (to_unicode to_ascii : bytes -> option bytes) (sha256 : bytes -> bytes) (h34 : bytes -> bool)
         b cu csegs bsegs (trailing : bool) front cb data q,
  wf_bytes data -> data <> [] ->
  Forall normal_seg csegs -> Forall normal_seg bsegs ->
  c_epath cu = abs_path csegs ++ (if trailing then [SLASHC] else []) ->
  b_epath b = abs_path bsegs ++ [SLASHC] ->
  b_hostname b <> [DOTC] -> b_hostname b <> [DOTC; DOTC] ->
  amp_request to_unicode to_ascii sha256 h34 b (Some cu) front cb data = Some q ->
  q_path q = abs_path (csegs ++ middle (amp_pub_url b cb data) ++ bsegs ++ amp_segs cb data) /\
  (exists pre, q_path q = pre ++ AMP_ROUTE ++ encode_path cb data) /\
  decode_path (encode_path cb data) = POk data.
Proof. exact amp_cache_end_to_end. Qed.

Example C11_amp_cache_end_to_end_ex :
  let b := {| b_scheme := S_HTTPS; b_user := false; b_host := bs "broker.example"; b_hostname := bs "broker.example";
              b_port := []; b_epath := bs "/x/" |} in
  let cu := {| c_scheme := S_HTTPS; c_user := None; c_hostname := bs "cdn.ampproject.org"; c_port := [];
               c_epath := bs "/"; c_rawquery := []; c_fragment := [] |} in
  Forall normal_seg [bs "x"] /\ b_epath b = abs_path [bs "x"] ++ [SLASHC] /\ c_epath cu = abs_path [] ++ [SLASHC] /\
  amp_request (fun x => Some x) (fun x => Some x) (fun _ => []) h34_runes b (Some cu) (bs "front.example") (repeat 0 9) (bs "ABC") =
    Some {| q_method := bs "GET"; q_scheme := S_HTTPS; q_connect_host := bs "front.example";
            q_host_header := bs "broker-example.cdn.ampproject.org";
            q_path := bs "/c/s/broker.example/x/amp/client/0AAAAAAAAAAAA/QUJD"; q_rawquery := []; q_body := None |}.
Proof.
  cbv zeta. split.
  - apply Forall_cons; [repeat split; try discriminate; vm_compute; intuition discriminate|apply Forall_nil].
  - vm_compute. repeat split.
Qed.

(* ---------------- paths with dot and empty segments ---------------- *)

(* url.ResolveReference (as both rendezvous methods use it) never leaves a "." or ".." segment in the request path,
   whatever the broker URL's path *)
Theorem C11_resolve_dotfree : forall base ref, Forall nodot (split_on SLASHC (resolve_path base ref)).
Proof. exact resolve_path_dotfree. Qed.

(* for a base path without dot segments it is the directory of the base path followed by the reference *)
Theorem C11_resolve_plain : forall base c ref,
  c <> SLASHC ->
  Forall nodot (split_on SLASHC (upto_last SLASHC base ++ c :: ref)) ->
  resolve_path base (c :: ref) = resolve_rel base (c :: ref).
Proof. exact resolve_path_nodots. Qed.

Example C11_resolve_ex :
  Forall nodot (split_on SLASHC (upto_last SLASHC (bs "/x//y/z") ++ bs "client")) /\
  resolve_path (bs "/x//y/z") (bs "client") = bs "/x//y/client" /\
  resolve_path (bs "/x/./y/../z/") (bs "client") = bs "/x/z/client" /\
  resolve_path (bs "/../..") (bs "amp/client/0/QQ") = bs "/amp/client/0/QQ" /\
  resolve_path [] (bs "client") = bs "/client".
Proof. split; [repeat (apply Forall_cons; [split; reflexivity|]); apply Forall_nil|vm_compute; repeat split]. Qed.

(* CacheURL's path for ANY cache path (empty or rooted) and ANY publisher path without ".." segments: the cleaned cache
   path, c[/s]/<host>, then the publisher path's segments except the empty and "." ones - nothing else dropped or reordered *)
Theorem C11_cache_path_all_paths : forall pu cu,
  (c_epath cu = [] \/ exists cp, c_epath cu = SLASHC :: cp) ->
  p_hostname pu <> [] -> p_hostname pu <> [DOTC] -> p_hostname pu <> [DOTC; DOTC] ->
  Forall (fun s => is_dotdot s = false) (split_on SLASHC (p_epath pu)) ->
  lead_slash (path_join (path_components pu cu (bs "c"%string))) =
  abs_path (clean_segs true (split_on SLASHC (c_epath cu)) [] ++ middle pu ++ filter keep (split_on SLASHC (p_epath pu))).
Proof. exact cache_path_general. Qed.

Example C11_cache_path_all_paths_ex :
  let pu := {| p_scheme := S_HTTPS; p_user := false; p_hostname := bs "b.example"; p_port := [];
               p_epath := bs "/x//./y/"; p_rawquery := []; p_fragment := [] |} in
  let cu := {| c_scheme := S_HTTPS; c_user := None; c_hostname := bs "cdn.ampproject.org"; c_port := [];
               c_epath := bs "/p/../q//"; c_rawquery := []; c_fragment := [] |} in
  Forall (fun s => is_dotdot s = false) (split_on SLASHC (p_epath pu)) /\
  path_join (path_components pu cu (bs "c")) = bs "/q/c/s/b.example/x/y".
Proof. cbv zeta. split; [repeat (apply Forall_cons; [reflexivity|]); apply Forall_nil|vm_compute; reflexivity]. Qed.

(* the inputs that DO lose a path component: a publisher path with a ".." segment given to the exported CacheURL eats the
   host in front of it (the rendezvous code never does that: C11_resolve_dotfree) *)
Theorem C11_cache_url_dotdot_loses_host :
  exists pu cu, p_hostname pu = bs "h.example" /\ p_epath pu = bs "/../x" /\
    option_map r_rawpath (cache_url (fun x => Some x) (fun x => Some x) (fun _ => []) h34_runes pu cu (bs "c")) = Some (bs "/c/s/x").
Proof.
  exists {| p_scheme := S_HTTPS; p_user := false; p_hostname := bs "h.example"; p_port := [];
            p_epath := bs "/../x"; p_rawquery := []; p_fragment := [] |},
         {| c_scheme := S_HTTPS; c_user := None; c_hostname := bs "cdn.ampproject.org"; c_port := [];
            c_epath := bs "/"; c_rawquery := []; c_fragment := [] |}.
  split; [reflexivity|split; [reflexivity|exact cache_url_dotdot_loses_host]].
Qed.

(* through an AMP cache, for EVERY broker path and every empty or rooted cache path: the request path is the cleaned cache
   path, c[/s]/<broker host>, the non-empty segments of the (dot-free) resolved broker path - and it ends in the broker's
   AMP route followed by the encoded poll, which decodes to the poll *)
Theorem C11_amp_cache_end_to_end_all_paths :
  forall (to_unicode to_ascii : bytes -> option bytes) (sha256 : bytes -> bytes) (h34 : bytes -> bool)
         b cu front cb data q,
  wf_bytes data -> data <> [] ->
  (c_epath cu = [] \/ exists cp, c_epath cu = SLASHC :: cp) ->
  b_hostname b <> [DOTC] -> b_hostname b <> [DOTC; DOTC] ->
  amp_request to_unicode to_ascii sha256 h34 b (Some cu) front cb data = Some q ->
  q_path q = abs_path (clean_segs true (split_on SLASHC (c_epath cu)) [] ++ middle (amp_pub_url b cb data) ++
                       filter nonempty (split_on SLASHC (p_epath (amp_pub_url b cb data)))) /\
  Forall nodot (split_on SLASHC (p_epath (amp_pub_url b cb data))) /\
  (exists pre, q_path q = pre ++ AMP_ROUTE ++ encode_path cb data) /\
  decode_path (encode_path cb data) = POk data.
Proof. exact amp_cache_end_to_end_general. Qed.

Example C11_amp_cache_end_to_end_all_paths_ex :
  let b := {| b_scheme := S_HTTPS; b_user := false; b_host := bs "broker.example"; b_hostname := bs "broker.example";
              b_port := []; b_epath := bs "/x/../y//z" |} in
  let cu := {| c_scheme := S_HTTPS; c_user := None; c_hostname := bs "cdn.ampproject.org"; c_port := [];
               c_epath := bs "/p/./q"; c_rawquery := []; c_fragment := [] |} in
  wf_bytes (bs "ABC") /\ (exists cp, c_epath cu = SLASHC :: cp) /\
  option_map q_path (amp_request (fun x => Some x) (fun x => Some x) (fun _ => []) h34_runes b (Some cu) [] (repeat 255 9) (bs "ABC")) =
    Some (bs "/p/q/c/s/broker.example/y/amp/client/0____________/QUJD").
Proof. cbv zeta. split; [repeat constructor|split; [eexists; reflexivity|vm_compute; reflexivity]]. Qed.

(* the one poll that does not survive a cache: the empty one (its last, empty, path segment is removed by path.Join) *)
Theorem C11_amp_cache_empty_poll :
  forall (to_unicode to_ascii : bytes -> option bytes) (sha256 : bytes -> bytes) (h34 : bytes -> bool)
         b cu front cb q,
  (c_epath cu = [] \/ exists cp, c_epath cu = SLASHC :: cp) ->
  b_hostname b <> [DOTC] -> b_hostname b <> [DOTC; DOTC] ->
  amp_request to_unicode to_ascii sha256 h34 b (Some cu) front cb [] = Some q ->
  (exists pre, q_path q = pre ++ AMP_ROUTE ++ enc_seg1 cb) /\ decode_path (enc_seg1 cb) = PErr MissingData /\
  decode_path (encode_path cb []) = POk [].
Proof. exact amp_cache_empty_poll. Qed.

(* ---------------- client: bounded responses ---------------- *)

(* an exchange yields data only for status 200 and a body within the limit, and then the
   whole body — never a truncation *)
Theorem C11_limit : forall limit status body d,
  http_response limit status body = Some d ->
  status = 200 /\ d = body /\ N.of_nat (length body) <= limit.
Proof. exact http_response_ok. Qed.

Theorem C11_limit_complete : forall limit body,
  N.of_nat (length body) <= limit -> http_response limit 200 body = Some body.
Proof. exact http_response_complete. Qed.

Theorem C11_limit_over : forall limit body,
  limit < N.of_nat (length body) -> limited_read limit body = None.
Proof. exact limited_read_over. Qed.

Theorem C11_non200 : forall limit status body, status <> 200 -> http_response limit status body = None.
Proof. exact http_response_non200. Qed.

Theorem C11_limit_amp :
  forall (armor_decode : bytes -> option bytes) limit status loc body d,
  amp_response armor_decode limit status loc body = Some d ->
  status = 200 /\ loc = false /\ armor_decode body = Some d /\ N.of_nat (length body) <= limit.
Proof. exact amp_response_ok. Qed.

Theorem C11_non200_amp :
  forall (armor_decode : bytes -> option bytes) limit status loc body,
  status <> 200 -> amp_response armor_decode limit status loc body = None.
Proof. exact amp_response_non200. Qed.

Example C11_limit_ex :
  http_response 3 200 [1; 2; 3] = Some [1; 2; 3] /\ http_response 3 200 [1; 2; 3; 4] = None /\
  http_response 3 404 [1] = None /\
  amp_response (fun x => Some x) 3 200 false [1; 2; 3] = Some [1; 2; 3] /\
  amp_response (fun x => Some x) 3 200 false [1; 2; 3; 4] = None /\
  amp_response (fun x => Some x) 3 200 true [1] = None.
Proof. vm_compute. repeat split. Qed.

(* ---------------- one rendezvous object over all its polls ---------------- *)
(* The client keeps ONE httpRendezvous / ampCacheRendezvous and calls Exchange on it once per snowflake
   (Model/Rendezvous.v rdv_step/rdv_run: the state is the object's configuration, which no Exchange writes).
   The correspondence check drives one object through histories of Exchanges with different polls and with transport
   errors, non-200 answers, Location headers and oversize bodies in between (op seq). *)
From Snow Require Import Proofs.RendezvousObjectProofs.

(* INVARIANT: no Exchange writes the configuration the constructor left (broker URL, cache URL, front). *)
Theorem C11_rendezvous_config_invariant :
  forall (to_unicode to_ascii : bytes -> option bytes) (sha256 : bytes -> bytes) (h34 : bytes -> bool)
         (armor_decode : bytes -> option bytes) s ev,
  rs_conf (fst (rdv_step to_unicode to_ascii sha256 h34 armor_decode s ev)) = rs_conf s.
Proof. exact rdv_step_conf. Qed.

(* Hence the request (and the result) of the Exchange at ANY position of ANY history, from any state of the object,
   is the function [rdv_request] ([rdv_result]) of the configuration and of that Exchange's poll alone ... *)
Theorem C11_request_history_independent :
  forall (to_unicode to_ascii : bytes -> option bytes) (sha256 : bytes -> bytes) (h34 : bytes -> bool)
         (armor_decode : bytes -> option bytes) s pre ev post,
  nth_error (snd (rdv_run to_unicode to_ascii sha256 h34 armor_decode s (pre ++ ev :: post))) (length pre)
  = Some (rdv_request to_unicode to_ascii sha256 h34 (rs_conf s) (ev_poll ev) (ev_cb ev),
          rdv_result to_unicode to_ascii sha256 h34 armor_decode (rs_conf s) ev).
Proof. exact rdv_run_at. Qed.

(* ... i.e. what a NEW object with the same configuration does on its first Exchange. *)
Theorem C11_every_request_is_a_first_request :
  forall (to_unicode to_ascii : bytes -> option bytes) (sha256 : bytes -> bytes) (h34 : bytes -> bool)
         (armor_decode : bytes -> option bytes) c pre ev post,
  nth_error (snd (rdv_run to_unicode to_ascii sha256 h34 armor_decode (rdv_init c) (pre ++ ev :: post))) (length pre)
  = nth_error (snd (rdv_run to_unicode to_ascii sha256 h34 armor_decode (rdv_init c) [ev])) 0.
Proof. exact rdv_run_at_is_first. Qed.

Theorem C11_rendezvous_state_irrelevant :
  forall (to_unicode to_ascii : bytes -> option bytes) (sha256 : bytes -> bytes) (h34 : bytes -> bool)
         (armor_decode : bytes -> option bytes) s1 s2 evs,
  rs_conf s1 = rs_conf s2 ->
  snd (rdv_run to_unicode to_ascii sha256 h34 armor_decode s1 evs) = snd (rdv_run to_unicode to_ascii sha256 h34 armor_decode s2 evs).
Proof. exact rdv_run_state_irrelevant. Qed.

(* Fronting for EVERY request a fronted object ever makes, after any history (errors included): it connects to the
   front; the broker is named in the Host header only (HTTP, AMP without cache), resp. the Host header is the AMP cache
   subdomain computed for that very poll. *)
Theorem C11_fronting_every_poll :
  forall (to_unicode to_ascii : bytes -> option bytes) (sha256 : bytes -> bytes) (h34 : bytes -> bool)
         (armor_decode : bytes -> option bytes) c pre ev post q r,
  rc_front c <> [] ->
  nth_error (snd (rdv_run to_unicode to_ascii sha256 h34 armor_decode (rdv_init c) (pre ++ ev :: post))) (length pre) = Some (Some q, r) ->
  q_connect_host q = rc_front c /\
  match rc_method c with
  | MHttp => q_host_header q = b_host (rc_broker c) /\ q_method q = bs "POST"%string /\ q_body q = Some (ev_poll ev)
  | MAmp None => q_host_header q = b_host (rc_broker c) /\ q_method q = bs "GET"%string /\ q_body q = None
  | MAmp (Some cu) =>
      q_method q = bs "GET"%string /\ q_body q = None /\
      exists u, cache_url to_unicode to_ascii sha256 h34 (amp_pub_url (rc_broker c) (ev_cb ev) (ev_poll ev)) cu (bs "c"%string) = Some u /\
                q_host_header q = r_host u
  end.
Proof. exact rdv_fronted_every_request. Qed.

(* Without a front (and without an AMP cache) every request goes to, and names, the broker. *)
Theorem C11_unfronted_every_poll :
  forall (to_unicode to_ascii : bytes -> option bytes) (sha256 : bytes -> bytes) (h34 : bytes -> bool)
         (armor_decode : bytes -> option bytes) c pre ev post q r,
  rc_front c = [] -> (rc_method c = MHttp \/ rc_method c = MAmp None) ->
  nth_error (snd (rdv_run to_unicode to_ascii sha256 h34 armor_decode (rdv_init c) (pre ++ ev :: post))) (length pre) = Some (Some q, r) ->
  q_connect_host q = b_host (rc_broker c) /\ q_host_header q = b_host (rc_broker c).
Proof. exact rdv_unfronted_every_request. Qed.

(* non-vacuity: a fronted HTTP object over [ok; transport error; 404; oversize; ok] — five requests of the same shape,
   the errors are those of their own Exchange only *)
Example C11_request_history_ex :
  let b := {| b_scheme := S_HTTPS; b_user := false; b_host := bs "broker.example"; b_hostname := bs "broker.example";
              b_port := []; b_epath := bs "/" |} in
  let c := mk_rdv_config b MHttp (bs "front.example") in
  let rq := fun p => Some {| q_method := bs "POST"; q_scheme := S_HTTPS; q_connect_host := bs "front.example";
                             q_host_header := bs "broker.example"; q_path := bs "/client"; q_rawquery := []; q_body := Some p |} in
  rc_front c <> [] /\
  snd (rdv_run (fun x => Some x) (fun x => Some x) (fun _ => []) h34_runes (fun x => Some x) (rdv_init c)
         [mk_rdv_event (bs "p1") [] (TxResponse 200 false (bs "r1")); mk_rdv_event (bs "p2") [] TxError;
          mk_rdv_event (bs "p3") [] (TxResponse 404 false (bs "r3"));
          mk_rdv_event (bs "p4") [] (TxResponse 200 false (repeat 120 (N.to_nat 100001)));
          mk_rdv_event (bs "p5") [] (TxResponse 200 false (bs "r5"))])
  = [(rq (bs "p1"), Some (bs "r1")); (rq (bs "p2"), None); (rq (bs "p3"), None); (rq (bs "p4"), None); (rq (bs "p5"), Some (bs "r5"))].
Proof. cbv zeta. split; [discriminate|vm_compute; reflexivity]. Qed.
