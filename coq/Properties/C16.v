(* C16 — the proxy honours its capacity and never leaks a session slot.

   Machine: Model/ProxySession.v over Model/Tokens.v.  `run v (init N) ls = Some st` ranges over
   ALL schedules ls (any interleaving of the Start loop with any number of handler goroutines, any
   broker response at each poll / answer, any timing of the data channel against the 20 s timer).
   V1 is the repaired code (proposed-fixes/C16-release-once.diff), V0 the pinned code.
   in_use = sessions whose tokens.get() completed and for which tokens.ret() has not been called;
   n_active = clients being negotiated with or served.
   The second half of the file states "polls again with full capacity" in its general form, at every reachable state
   (slot accounting, when the poll loop is enabled, and that no session can hold a slot with nothing left to run).
   The machine's LDcOpen is "close(dataChan); go handler(...)" as ONE step: a callback that closed dataChan and then
   returned without starting the handler (what a nil webRTCConn.RemoteAddr() must not cause) is outside the machine and
   is what the O<x>/Q<x> cases of the correspondence (clients whose offer has no non-local address, no candidates, ...)
   look for in the Go code. *)
From Coq Require Import List ZArith Arith Bool.
From Snow Require Import Model.Tokens Model.ProxySession Proofs.ProxySessionProofs Proofs.ProxySessionLiveProofs.
From Snow Require Import Model.TokensConc Proofs.TokensConcProofs.
Import ListNotations.

(* A proxy with capacity N >= 1 never negotiates with or serves more than N clients at once. *)
Theorem C16_capacity : forall N ls st,
  N >= 1 -> run V1 (init N) ls = Some st ->
  n_active st <= in_use st /\ in_use st <= N.
Proof.
  intros N ls st HN H. pose proof (run_inv _ _ _ H) as I. split.
  - eapply inv_active_le_in_use; eauto.
  - apply inv_in_use_le_cap; [intro; subst; inversion HN | exact I].
Qed.

(* Every completed get belongs to exactly one session; no session is released twice; a session
   that has terminated (runSession returned, no handler pending or running) was released once. *)
Theorem C16_release_once : forall N ls st,
  run V1 (init N) ls = Some st ->
  gets st = length (sessions st) /\
  (forall c, In c (sessions st) -> released c <= 1) /\
  (forall c, In c (bg st) -> handler_quiet c = true -> released c = 1).
Proof.
  intros N ls st H. pose proof (run_inv _ _ _ H) as I. split; [apply (inv_gets _ _ I)|]. split.
  - intros c Hc. eapply sess_released_le1; eauto.
  - intros c Hc Hq. eapply sess_terminated_released; eauto.
Qed.

(* The second half of every ret (the channel receive) is always enabled: a release never blocks. *)
Theorem C16_release_never_blocks : forall N ls st,
  run V1 (init N) ls = Some st ->
  (mn st = MRetRecv \/ exists c, In c (sessions st) /\ hp c = HRetRecv) ->
  recv_ready (tok st) = true.
Proof. intros N ls st H. eapply inv_ret_never_blocks. eapply run_inv; eauto. Qed.

(* After any sequence of sessions, once all have ended nothing is in use, the counter is back to
   zero and the next iteration of the Start loop gets a slot without blocking and polls. *)
Theorem C16_full_capacity_again : forall N ls st,
  run V1 (init N) ls = Some st -> all_terminated st = true ->
  in_use st = 0 /\
  (mn st = MTop -> count (tok st) = 0%Z /\
     exists st1 st2, step V1 st LGet = Some st1 /\ step V1 st1 LGetSend = Some st2 /\
                     mn st2 = MPoll /\ in_use st2 = 1).
Proof.
  intros N ls st H Ht. pose proof (run_inv _ _ _ H) as I.
  destruct (inv_all_terminated _ _ I Ht) as (Hu & Hc & _ & _). split; [exact Hu|].
  intros Hm. split.
  - rewrite Hc, Hm. reflexivity.
  - eapply inv_polls_again; eauto.
Qed.

(* Every Clients figure sent to the broker, int((tokens.count()/8)*8), is a multiple of 8 and does
   not exceed the number of slots in use at the moment it is computed. *)
Theorem C16_reported_load : forall N ls st,
  run V1 (init N) ls = Some st ->
  Forall (fun p => (8 | fst p)%Z /\ (0 <= fst p <= Z.of_nat (snd p))%Z) (polls st).
Proof. intros N ls st H. exact (inv_polls _ _ (run_inv _ _ _ H)). Qed.

(* The pinned code: sendAnswer failing after the client already connected releases twice; the
   counter goes negative and the handler's second receive blocks forever. *)
Theorem C16_v0_answer_fail_after_open_refuted :
  exists st c, run V0 (init 1) w_answer_fail = Some st /\ nth_error (sessions st) 0 = Some c /\
               released c = 2 /\ count (tok st) = (-1)%Z /\ step V0 st (LH 0 HRecv) = None.
Proof. exact v0_answer_fail_double_release. Qed.

(* The pinned code: the select takes the 20 s timer while the data channel handler starts. *)
Theorem C16_select_tie_refuted :
  exists st c, run V0 (init 1) w_select_tie = Some st /\ nth_error (sessions st) 0 = Some c /\
               released c = 2 /\ count (tok st) = (-1)%Z.
Proof. exact v0_select_tie_double_release. Qed.

(* The pinned code: after a double release a capacity-2 proxy serves three clients. *)
Theorem C16_v0_capacity_refuted :
  exists st, run V0 (init 2) w_capacity = Some st /\ n_active st = 3 /\ count (tok st) = 2%Z.
Proof. exact v0_capacity_exceeded. Qed.

(* The pinned code on tie-free schedules (runSession never gives up a session its handler has
   claimed, no handler claims a session runSession gave up) behaves as the repaired code, so all of
   the above holds for it on those schedules. *)
Theorem C16_v0_tie_free : forall N ls st,
  tie_free V0 (init N) ls = true -> run V0 (init N) ls = Some st ->
  run V1 (init N) ls = Some st /\
  (N >= 1 -> n_active st <= in_use st /\ in_use st <= N) /\
  (forall c, In c (sessions st) -> released c <= 1) /\
  (forall c, In c (bg st) -> handler_quiet c = true -> released c = 1) /\
  Forall (fun p => (8 | fst p)%Z /\ (0 <= fst p <= Z.of_nat (snd p))%Z) (polls st).
Proof.
  intros N ls st Ht H. rewrite (run_v0_v1 _ _ Ht) in H. split; [exact H|]. split.
  - intros HN. eapply C16_capacity; eauto.
  - destruct (C16_release_once _ _ _ H) as (_ & H1 & H2). split; [exact H1|]. split; [exact H2|].
    eapply C16_reported_load; eauto.
Qed.

(* ---- the hypotheses are satisfiable by non-trivial runs *)

(* capacity 2 filled by two served clients while a third get blocks; both theorems' premises hold *)
Example C16_capacity_nonvacuous :
  exists st, run V1 (init 2) (w_open 0 ++ w_open 1 ++ [LGet]) = Some st /\
             n_active st = 2 /\ in_use st = 2 /\ step V1 st LGetSend = None.
Proof. eexists. vm_compute. repeat split. Qed.

(* a run through every exit path, overlapping a served client, that ends all-terminated *)
Definition ex_all_paths : list label :=
  w_open 0 ++
  [LGet; LGetSend; LPollNoMatch; LPollNil; LMainRecv] ++
  [LGet; LGetSend; LPollShutdown; LMainRecv] ++
  [LGet; LGetSend; LPollOffer; LRelayBad; LMainRecv] ++
  [LGet; LGetSend; LPollOffer; LRelayOk; LPcFail; LMainRecv] ++
  [LGet; LGetSend; LPollOffer; LRelayOk; LPcOk; LAnswerFail; LGiveUp; LClose; LMainRecv] ++
  [LGet; LGetSend; LPollOffer; LRelayOk; LPcOk; LAnswerOk; LSelectTimeout; LGiveUp; LClose; LMainRecv] ++
  [LGet; LGetSend; LPollOffer; LRelayOk; LPcOk; LAnswerOk; LDcOpen; LSelectOpen; LH 7 HClaim; LH 7 HDialFail; LH 7 HRecv] ++
  [LH 0 HEnd; LH 0 HRecv].

Example C16_full_capacity_again_nonvacuous :
  exists st, run V1 (init 2) ex_all_paths = Some st /\ all_terminated st = true /\ mn st = MTop /\
             length (sessions st) = 8 /\ length (polls st) = 8.
Proof. eexists. vm_compute. repeat split. Qed.

(* a reachable state in which a release is pending in main and in a handler at once *)
Example C16_release_never_blocks_nonvacuous :
  exists st, run V1 (init 2) (w_open 0 ++ [LGet; LGetSend; LPollNil; LH 0 HEnd]) = Some st /\
             mn st = MRetRecv /\ (exists c, In c (sessions st) /\ hp c = HRetRecv).
Proof. eexists. split; [vm_compute; reflexivity|]. split; [reflexivity|]. eexists. split; [left; reflexivity | reflexivity]. Qed.

(* nine slots in use: the reported figure is 8 *)
Example C16_reported_load_nonvacuous :
  exists st, run V1 (init 0)
               (w_open 0 ++ w_open 1 ++ w_open 2 ++ w_open 3 ++ w_open 4 ++ w_open 5 ++ w_open 6 ++
                w_open 7 ++ [LGet; LGetSend; LPollNoMatch]) = Some st /\
             last (polls st) (0%Z, 0) = (8%Z, 9).
Proof. eexists. vm_compute. repeat split. Qed.

(* ONE session polls again and again ("no match") while the eight served clients end between its
   polls: the figure is computed anew for each poll (8 with nine slots in use, then 0 with one) *)
Example C16_reported_load_repoll :
  exists st, run V1 (init 0)
               (w_open 0 ++ w_open 1 ++ w_open 2 ++ w_open 3 ++ w_open 4 ++ w_open 5 ++ w_open 6 ++
                w_open 7 ++ [LGet; LGetSend; LPollNoMatch] ++
                concat (map (fun i => [LH i HEnd; LH i HRecv]) (seq 0 8)) ++ [LPollNoMatch; LPollNil]) = Some st /\
             skipn 8 (polls st) = [(8%Z, 9); (0%Z, 1); (0%Z, 1)].
Proof. eexists. vm_compute. repeat split. Qed.

(* a tie-free schedule of the pinned code that is not trivial *)
Example C16_v0_tie_free_nonvacuous :
  tie_free V0 (init 2) ex_all_paths = true /\ run V0 (init 2) ex_all_paths <> None.
Proof. vm_compute. split; [reflexivity | discriminate]. Qed.

(* ==== "after any sequence of sessions it polls again with full capacity", general form: at EVERY reachable
   state, also with 0 < in_use < N (C16_full_capacity_again above is the special case occupied = 0).

   occupied st = in_use st + releasing st: sessions whose tokens.get() completed and whose tokens.ret() has not
   finished (ret not called yet, or called with its channel receive still to come).  free_slots N st = N - occupied st. *)

(* The channel holds exactly the occupied slots; the free slots are the rest of the capacity; the counter is the
   slots in use (plus the get in progress); the second half of get is enabled exactly when a slot is free. *)
Theorem C16_slot_accounting : forall N ls st,
  N >= 1 -> run V1 (init N) ls = Some st ->
  chlen (tok st) = occupied st /\ occupied st <= N /\ free_slots N st + occupied st = N /\
  count (tok st) = (Z.of_nat (in_use st) + (match mn st with MGetSend => 1 | _ => 0 end))%Z /\
  (send_ready (tok st) = true <-> 0 < free_slots N st).
Proof.
  intros N ls st HN H. pose proof (run_inv _ _ _ H) as I. assert (N <> 0) as HN0 by (intro; subst; inversion HN).
  destruct (inv_occupied _ _ HN0 I) as (E & L & F). repeat (split; [assumption|]).
  split; [rewrite (inv_count _ _ I); destruct (mn st); reflexivity|]. exact (inv_send_ready_iff _ _ HN0 I).
Qed.

(* The poll loop at its head: taking a slot goes through - and the loop polls, with one more slot in use - if
   (and for N >= 1 only if) a slot is free; otherwise the loop parks in tokens.get(). *)
Theorem C16_poll_loop_iff_free_slot : forall N ls st,
  run V1 (init N) ls = Some st -> mn st = MTop ->
  exists st1, step V1 st LGet = Some st1 /\ mn st1 = MGetSend /\ in_use st1 = in_use st /\ releasing st1 = releasing st /\
    ((N = 0 \/ 0 < free_slots N st) ->
       exists st2, step V1 st1 LGetSend = Some st2 /\ mn st2 = MPoll /\ in_use st2 = in_use st + 1 /\
                   releasing st2 = releasing st /\ gets st2 = S (gets st)) /\
    (N <> 0 -> free_slots N st = 0 -> step V1 st1 LGetSend = None).
Proof. intros N ls st H. exact (inv_poll_loop _ _ (run_inv _ _ _ H)). Qed.

(* No served session can sit on a slot with nothing left to run: a session runSession has returned from and that
   still occupies a slot has a handler goroutine, and that goroutine alone (at most 3 of its own steps: claim, the
   handshake timer of the relay dial or the end of copyLoop, channel receive; nothing is asked of the loop, of another
   session, of the relay while it is being dialled, or of the peer beyond copyLoop returning) gives the slot back:
   one more slot is free afterwards. *)
Theorem C16_served_session_can_release : forall N ls st i c,
  run V1 (init N) ls = Some st -> nth_error (bg st) i = Some c -> holds c + pend c = 1 ->
  length (handler_path i c) <= 3 /\ Forall (own_handler_step i) (handler_path i c) /\
  exists st' c', run V1 st (handler_path i c) = Some st' /\ handler_path i c <> [] /\
    nth_error (bg st') i = Some c' /\ holds c' = 0 /\ pend c' = 0 /\ hp c' = HDone /\ released c' = 1 /\
    mn st' = mn st /\ cur st' = cur st /\ length (bg st') = length (bg st) /\
    (N <> 0 -> S (chlen (tok st')) = chlen (tok st)).
Proof.
  intros N ls st i c H Hn Ho. split; [apply handler_path_short|]. split; [apply handler_path_own|].
  exact (bg_release_path _ _ _ _ (run_inv _ _ _ H) Hn Ho).
Qed.

(* Nor can the session under negotiation: from every stage of runSession there are at most 6 steps of the Start
   goroutine inside runSession and of this session's own handler - none of them the peer opening the data channel:
   where the broker is awaited the path takes its error answer (LPollNil, LAnswerFail), where the data channel is
   awaited it takes the 20 s timer (LSelectTimeout) - after which runSession has returned, the loop is back at its
   head, and the slot has been given back exactly once. *)
Theorem C16_negotiating_session_can_release : forall N ls st c,
  run V1 (init N) ls = Some st -> cur st = Some c -> holds c + pend c + (match mn st with MRetRecv => 1 | _ => 0 end) = 1 ->
  length (cur_release st c) <= 6 /\ forallb (cur_session_step (length (bg st))) (cur_release st c) = true /\
  exists st' c', run V1 st (cur_release st c) = Some st' /\ cur_release st c <> [] /\
    mn st' = MTop /\ cur st' = None /\
    nth_error (bg st') (length (bg st)) = Some c' /\ length (bg st') = S (length (bg st)) /\
    holds c' = 0 /\ pend c' = 0 /\ released c' = 1 /\
    (N <> 0 -> S (chlen (tok st')) = chlen (tok st)).
Proof.
  intros N ls st c H Hc Ho. split; [apply cur_release_short|]. split; [apply cur_release_steps|].
  apply (cur_release_path _ _ _ (run_inv _ _ _ H) Hc). destruct (mn st); exact Ho.
Qed.

(* runSession itself always returns within 4 steps of the Start goroutine, whoever owns the session *)
Theorem C16_run_session_returns : forall N ls st c,
  run V1 (init N) ls = Some st -> cur st = Some c ->
  length (main_exit (mn st) (own c)) <= 4 /\ forallb main_step (main_exit (mn st) (own c)) = true /\
  exists st', run V1 st (main_exit (mn st) (own c)) = Some st' /\ mn st' = MTop /\ cur st' = None /\
              length (bg st') = S (length (bg st)).
Proof.
  intros N ls st c H Hc. split; [apply main_exit_short|]. split; [apply main_exit_main|].
  destruct (cur_exit_path _ _ _ (run_inv _ _ _ H) Hc) as (st' & c' & R & _ & M & C & B & _).
  exists st'. repeat (split; [assumption|]). rewrite B, app_length. cbn. apply Nat.add_1_r.
Qed.

(* ---- non-vacuity: capacity 3, one client served, one session waiting for its data channel: 0 < in_use < N *)
Definition ex_partial : list label := w_open 0 ++ [LGet; LGetSend; LPollOffer; LRelayOk; LPcOk; LAnswerOk].

Example C16_slot_accounting_nonvacuous :
  exists st, run V1 (init 3) ex_partial = Some st /\ in_use st = 2 /\ releasing st = 0 /\ free_slots 3 st = 1 /\ mn st = MSelect.
Proof. eexists. vm_compute. repeat split. Qed.

(* ... and a release in progress: occupied counts it until the channel receive *)
Example C16_slot_accounting_releasing :
  exists st, run V1 (init 3) (w_open 0 ++ [LH 0 HEnd]) = Some st /\ in_use st = 0 /\ releasing st = 1 /\ free_slots 3 st = 2.
Proof. eexists. vm_compute. repeat split. Qed.

Example C16_poll_loop_nonvacuous :
  (exists st, run V1 (init 2) (w_open 0) = Some st /\ mn st = MTop /\ free_slots 2 st = 1) /\
  (exists st, run V1 (init 2) (w_open 0 ++ w_open 1) = Some st /\ mn st = MTop /\ free_slots 2 st = 0).
Proof. split; eexists; vm_compute; repeat split. Qed.

Example C16_served_session_nonvacuous :
  exists st c, run V1 (init 3) ex_partial = Some st /\ nth_error (bg st) 0 = Some c /\ holds c + pend c = 1 /\
               handler_path 0 c = [LH 0 HEnd; LH 0 HRecv].
Proof. eexists. eexists. vm_compute. repeat split. Qed.

Example C16_negotiating_session_nonvacuous :
  exists st c, run V1 (init 3) ex_partial = Some st /\ cur st = Some c /\
               holds c + pend c + (match mn st with MRetRecv => 1 | _ => 0 end) = 1 /\
               cur_release st c = [LSelectTimeout; LGiveUp; LClose; LMainRecv].
Proof. eexists. eexists. vm_compute. repeat split. Qed.

(* the handler owns the session under negotiation (the answer request still in flight): 2 main steps + 2 handler steps *)
Example C16_negotiating_session_handler_owned :
  exists st c, run V1 (init 1) [LGet; LGetSend; LPollOffer; LRelayOk; LPcOk; LDcOpen; LH 0 HClaim] = Some st /\
               cur st = Some c /\ own c = OHandler /\
               cur_release st c = [LAnswerFail; LGiveUp; LH 0 HDialTimer; LH 0 HRecv].
Proof. eexists. eexists. vm_compute. repeat split. Qed.

(* ==== the relay dial (handler stage HDial: datachannelHandler is inside websocket.DefaultDialer.Dial).  What the relay
   answers is the environment's choice (LH i HDialOk / LH i HDialFail); a relay that accepts the connection and never
   answers gives NEITHER.  The code's own bound is the dialer's 45 s HandshakeTimeout: LH i HDialTimer. *)

(* ---- a session whose relay hangs gives its slot back by its own timer: from EVERY reachable state with a served session
   inside the relay dial, two steps of that session's handler - the timer and the channel receive, nothing from the relay,
   the loop, the broker or another session - and the slot is free again, released exactly once *)
Theorem C16_hanging_relay_released : forall N ls st i c,
  run V1 (init N) ls = Some st -> nth_error (bg st) i = Some c -> hp c = HDial ->
  holds c = 1 /\
  exists st' c', run V1 st [LH i HDialTimer; LH i HRecv] = Some st' /\
    nth_error (bg st') i = Some c' /\ holds c' = 0 /\ pend c' = 0 /\ hp c' = HDone /\ released c' = 1 /\
    mn st' = mn st /\ cur st' = cur st /\ in_use st' + 1 = in_use st /\
    (N <> 0 -> S (chlen (tok st')) = chlen (tok st)).
Proof. intros N ls st i c H Hn Hh. exact (dial_timer_releases N st i c (run_inv _ _ _ H) Hn Hh). Qed.

(* ---- and ONLY that timer (or an answer of the relay) does: without a dial event of session i - whatever else happens, for
   ever, in either code version - the session stays inside the dial, holding its slot.  A dial that is not bounded by a
   timer therefore leaks the slot of every session whose relay hangs. *)
Theorem C16_dial_without_timer_leaks : forall v tr st st' i c, nth_error (bg st) i = Some c -> hp c = HDial ->
  forallb (fun l => negb (dial_event i l)) tr = true -> run v st tr = Some st' ->
  nth_error (bg st') i = Some c.
Proof. exact hang_holds_slot. Qed.

(* capacity 1, the only client's relay hangs: the loop is parked in tokens.get() (C16_poll_loop_iff_free_slot: no free
   slot) until the timer has fired *)
Definition ex_dialling : list label := [LGet; LGetSend; LPollOffer; LRelayOk; LPcOk; LAnswerOk; LDcOpen; LH 0 HClaim; LSelectOpen].

Example C16_hanging_relay_nonvacuous :
  exists st c, run V1 (init 1) ex_dialling = Some st /\ nth_error (bg st) 0 = Some c /\ hp c = HDial /\ in_use st = 1 /\
    free_slots 1 st = 0 /\ n_active st = 1 /\
    (exists st', run V1 st [LGet; LH 0 HDialTimer; LH 0 HRecv; LGetSend] = Some st' /\ mn st' = MPoll /\ in_use st' = 1) /\
    (exists st', run V1 st [LGet; LPollNoMatch] = None /\ run V1 st [LGet] = Some st' /\ step V1 st' LGetSend = None).
Proof.
  eexists. eexists. split; [vm_compute; reflexivity|]. vm_compute. repeat split.
  - eexists. repeat split.
  - eexists. repeat split.
Qed.

Example C16_dial_without_timer_nonvacuous :
  exists st c, run V1 (init 2) ex_dialling = Some st /\ nth_error (bg st) 0 = Some c /\ hp c = HDial /\
    forallb (fun l => negb (dial_event 0 l)) (w_open 1 ++ [LH 1 HEnd; LH 1 HRecv]) = true /\
    run V1 st (w_open 1 ++ [LH 1 HEnd; LH 1 HRecv]) <> None.
Proof. eexists. eexists. split; [vm_compute; reflexivity|]. vm_compute. repeat split. discriminate. Qed.

(* ---- overlapping callers of tokens_t (Model/TokensConc.v): any number of goroutines, each with its own program of
   get()/ret() calls, every call two atomic steps (atomic.AddInt64, then the channel operation), interleaved by ANY
   schedule.  The session machine above takes get/ret steps one at a time; these statements say that nothing is lost when
   they overlap.  Tie: the conc cases (op S<n>x<rounds>) run the same programs on the real tokens_t behind one barrier and
   are compared at every quiescent point with the extracted machine run under a pseudo-random schedule
   (Run/ProxySessionRun.v `stress`); by the statements below the prediction is the same for every schedule. *)

(* at every point of every interleaving the counter is exactly its start value plus what the steps taken so far added *)
Theorem C16_counter_exact_under_interleaving : forall t ps sched s, balanced t ->
  crun (cinit t ps) sched = Some s ->
  clients (ctok s) = (clients t + progs_net ps - total net_c (todo s))%Z.
Proof. exact counter_exact. Qed.

(* the channel holds exactly one element per completed send not yet received, and never more than the capacity *)
Theorem C16_channel_exact_under_interleaving : forall t ps sched s, balanced t -> cap t <> O ->
  crun (cinit t ps) sched = Some s ->
  Z.of_nat (chlen (ctok s)) = (clients t + progs_net ps - total net_h (todo s))%Z /\ chlen (ctok s) <= cap t.
Proof. exact channel_exact. Qed.

(* when every goroutine has finished: count = start + gets - rets, and counter and channel agree again *)
Theorem C16_quiescent_count : forall t ps sched s, balanced t ->
  crun (cinit t ps) sched = Some s -> quiescent s = true ->
  clients (ctok s) = (clients t + progs_net ps)%Z /\ balanced (ctok s).
Proof. exact quiescent_count. Qed.

Theorem C16_quiescent_count_schedule_independent : forall t ps sched1 sched2 s1 s2, balanced t ->
  crun (cinit t ps) sched1 = Some s1 -> quiescent s1 = true ->
  crun (cinit t ps) sched2 = Some s2 -> quiescent s2 = true ->
  clients (ctok s1) = clients (ctok s2).
Proof. exact quiescent_schedule_independent. Qed.

(* one round of the driver's stress (n sessions end while n others start, k short sessions each) leaves the count as it
   was, whatever the interleaving *)
Theorem C16_stress_round_count : forall t n k sched s, balanced t ->
  crun (cinit t (round_progs n k)) sched = Some s -> quiescent s = true ->
  clients (ctok s) = clients t /\ balanced (ctok s).
Proof. exact stress_round_count. Qed.

(* capacity 0 (unlimited): no caller is ever blocked *)
Theorem C16_unlimited_never_blocks : forall s i m rest, cap (ctok s) = O ->
  nth_error (todo s) i = Some (m :: rest) -> exists s', cstep s i = Some s'.
Proof. exact nocap_never_blocks. Qed.

(* what atomic.AddInt64 buys: with the counter as a load followed by a (clamped) store, two sessions ending together can
   leave a slot counted for ever, and a get overlapping a ret can vanish (seed C16-m13's shape) *)
Theorem C16_load_store_counter_refuted :
  exists s, lrun two_rets [0; 1; 0; 1] = Some s /\ lquiescent s = true /\ lclients s = 1%Z.
Proof. exact load_store_loses_a_release. Qed.
Theorem C16_load_store_get_refuted :
  exists s, lrun ret_and_get [0; 1; 1; 0] = Some s /\ lquiescent s = true /\ lclients s = 0%Z.
Proof. exact load_store_loses_a_get. Qed.

Example C16_stress_round_nonvacuous :
  exists s, crun (cinit ex_tok (round_progs 2 1)) ex_sched = Some s /\ quiescent s = true /\ clients (ctok s) = 3%Z.
Proof. exact ex_round_runs. Qed.
Example C16_stress_round_start_balanced : balanced ex_tok.
Proof. exact ex_tok_balanced. Qed.
