(* placeholder until Proofs/EncapProofs.v lands *)
From Snow Require Import Lib.Wire Model.Encap.
