(* C09 — Packet framing round-trips under any read fragmentation.
   Only theorem statements; every proof is `exact <lemma of Proofs/EncapProofs.v>`.
   Model: coq/Model/Encap.v (common/encapsulation/encapsulation.go after the fix: commit
   "fix: read encapsulation length prefix bytes with io.ReadFull"). *)
From Coq Require Import List NArith Bool Arith Lia.
From Snow Require Import Lib.Wire Model.Encap Model.EncapFail Model.EncapPad Model.EncapServer Proofs.EncapSweep Proofs.EncapProofs Proofs.EncapFailProofs Proofs.EncapPadProofs Proofs.EncapServerProofs.
Import ListNotations.
Open Scope N_scope.

(* Any sequence of data chunks (< 2^20 bytes each) and paddings is read back as exactly the
   data chunks, in order, padding invisible, for EVERY reader script (short reads,
   zero-length reads, data returned together with EOF). *)
Theorem C09_roundtrip_any_reader : forall items s sc,
  items_ok items -> encode_items items = Some s -> read_stream s sc = (datas items, EOF).
Proof. exact roundtrip_any_reader. Qed.

(* The writer accepts exactly the item lists whose data chunks are below 2^20 bytes. *)
Theorem C09_encode_total : forall items, items_ok items -> exists s, encode_items items = Some s.
Proof. exact encode_total. Qed.
Theorem C09_encode_rejects_long : forall items, encode_items items <> None -> items_ok items.
Proof. exact encode_rejects_long. Qed.

(* The reader's fragmentation never matters: for every byte string (not only encoder output)
   and every script the result is that of the script-free parser. *)
Theorem C09_script_independent : forall s sc, read_stream s sc = decode_stream s.
Proof. exact read_stream_independent. Qed.

(* Every byte string is whole chunks followed by a tail; the data chunks returned are exactly
   those of the whole chunks; the error is EOF only at a chunk boundary, UnexpectedEOF when the
   tail ends inside a prefix or body, TooLong when a third prefix byte has its continuation bit. *)
Theorem C09_classify : forall s,
  exists cs tail, Forall chunk_wf cs /\ s = chunks_bytes cs ++ tail /\
    fst (decode_stream s) = chunks_datas cs /\
    match snd (decode_stream s) with
    | EOF => tail = []
    | UnexpectedEOF => parse_one tail = PShort
    | TooLong => parse_one tail = PLong
    end.
Proof. exact classify. Qed.

Theorem C09_classify_converse : forall cs tail e,
  Forall chunk_wf cs -> tail_err (parse_one tail) = Some e ->
  decode_stream (chunks_bytes cs ++ tail) = (chunks_datas cs, e).
Proof. exact decode_decomposed. Qed.

Theorem C09_toolong_shape : forall t, parse_one t = PLong <->
  exists b0 b1 b2 r, t = b0 :: b1 :: b2 :: r /\
    N.land b0 64 <> 0 /\ N.land b1 128 <> 0 /\ N.land b2 128 <> 0.
Proof. exact parse_one_long_iff. Qed.

(* Every complete 1..3-byte prefix (minimal or not) announces the value of its payload bits,
   which is below 2^20: the buffer allocated for a body (N.to_nat n in read_data) never
   exceeds the announcement, and the announcement never exceeds 2^20 - 1. *)
Theorem C09_nonminimal_and_bound : forall p isd v, hdr_exact p = Some (isd, v) ->
  v < 1048576 /\
  match p with
  | [b0] => v = N.land b0 63
  | [b0; b1] => v = N.land b0 63 * 128 + N.land b1 127
  | [b0; b1; b2] => v = (N.land b0 63 * 128 + N.land b1 127) * 128 + N.land b2 127
  | _ => False
  end.
Proof. exact hdr_exact_value. Qed.

Theorem C09_any_prefix_spelling_decodes : forall c rest, chunk_wf c ->
  parse_one (chunk_bytes c ++ rest) = PChunk (c_isdata c) (c_body c) rest.
Proof. exact parse_one_chunk. Qed.

Example C09_nonminimal_example :
  hdr_exact [132] = Some (true, 4) /\ hdr_exact [192; 4] = Some (true, 4) /\ hdr_exact [192; 128; 4] = Some (true, 4).
Proof. repeat split. Qed.

(* A stream cut at ANY byte offset yields a prefix of the data chunks (those wholly contained)
   and stops with EOF or UnexpectedEOF: no partial, merged or invented chunk. *)
Theorem C09_truncation_prefix : forall cs k, Forall chunk_wf cs ->
  exists j e, decode_stream (firstn k (chunks_bytes cs)) = (firstn j (chunks_datas cs), e) /\
              (e = EOF \/ e = UnexpectedEOF).
Proof. exact truncation_prefix. Qed.

(* Padding of size n occupies exactly n bytes and is invisible to every reader. *)
Theorem C09_padding_exact : forall n, length (write_padding n) = N.to_nat n.
Proof. exact padding_exact. Qed.
Theorem C09_padding_invisible : forall n sc, read_stream (write_padding n) sc = ([], EOF).
Proof. exact padding_invisible. Qed.

(* The same for WritePadding over ANY padding buffer (Model/EncapPad.v: the package variable paddingBuffer as a
   parameter - its length is the batch size of the loop, its bytes are the fill): as long as a batch is at most 8194
   bytes, padding of size n occupies exactly n bytes and is invisible anywhere in a stream, to every reader, whatever
   the fill bytes and however far n exceeds the batch size.  [write_padding] is the instance (1024, zeros). *)
Theorem C09_padding_any_buffer_exact : forall buf n, 1 <= blen buf -> blen buf <= PADBATCH_MAX ->
  length (write_padding_buf buf n) = N.to_nat n.
Proof. exact padding_buf_exact. Qed.
Theorem C09_padding_any_buffer_invisible : forall buf n rest sc, 1 <= blen buf -> blen buf <= PADBATCH_MAX ->
  read_stream (write_padding_buf buf n ++ rest) sc = read_stream rest sc.
Proof. exact padding_buf_invisible. Qed.
Theorem C09_padding_model_is_instance : forall n, write_padding n = write_padding_buf (zeros PADBUF) n.
Proof. exact write_padding_is_buf. Qed.
Example C09_padding_any_buffer_example :
  let buf := loud_fill 1024 in
  1 <= blen buf /\ blen buf <= PADBATCH_MAX /\
  read_stream ([129; 7] ++ write_padding_buf buf 100000 ++ [129; 9]) [(3%nat, false); (0%nat, false)] = ([[7]; [9]], EOF).
Proof. cbv zeta. split; [vm_compute; discriminate|]. split; [vm_compute; discriminate|]. vm_compute. reflexivity. Qed.

(* WritePadding's switch has a third case (three-byte prefix) whose middle byte is masked with 0x3f, not 0x7f.  With the
   pinned batch size (1024), indeed with any batch up to 8193 bytes, no turn of the loop reaches it: every padding
   chunk has a one- or two-byte prefix. *)
Theorem C09_padding_three_byte_case_unreachable : forall p, 1 <= p -> p <= PADBUF ->
  (1 <= length (fst (pad_prefix p)) <= 2)%nat.
Proof. exact pad_prefix_short_pinned. Qed.
Theorem C09_padding_three_byte_case_unreachable_below_8194 : forall p, 1 <= p -> p <= 8193 ->
  (1 <= length (fst (pad_prefix p)) <= 2)%nat.
Proof. exact pad_prefix_short. Qed.
(* The bound 8194 is sharp: with a 16384-byte buffer one WritePadding(8195) still writes exactly 8195 bytes, but its
   prefix announces 0 of the 8192 bytes that follow, and a reader finds 4096 data chunks in a loud fill and loses
   the chunk after the padding; an all-zero fill hides the slip (left-over zeros are empty padding chunks). *)
Theorem C09_padding_large_batch_refuted :
  let buf := loud_fill 16384 in
  blen buf = 16384 /\ length (write_padding_buf buf 8195) = N.to_nat 8195 /\
  N.of_nat (length (fst (read_stream (write_padding_buf buf 8195) []))) = 4096 /\
  read_stream ([129; 7] ++ write_padding_buf buf 8195 ++ [129; 9]) [] <> ([[7]; [9]], EOF).
Proof. exact padding_large_batch_refuted. Qed.
Example C09_padding_large_batch_zero_fill : read_stream (write_padding_buf (zeros 16384) 8195) [] = ([], EOF).
Proof. exact padding_large_batch_zero_fill. Qed.

(* A chunk sized by the size-budget helper never exceeds its budget. *)
Theorem C09_budget : forall n d, 0 < n -> blen d = max_data_for_size n ->
  exists w, write_data d = Some w /\ N.of_nat (length w) <= n.
Proof. exact budget_respected. Qed.

(* The streams feeding ReadData on the server (server/lib/http.go, Model/EncapServer.v): the 8-byte token and the 8-byte
   ClientID are read by io.ReadFull from the SAME reader that ReadData then reads from, nothing buffers ahead in
   between, so the chunk stream starts exactly at offset 16 of the carrier's bytes for EVERY reader script - also when
   the read that completes the preamble already carries the first chunk bytes (coalesced messages). *)
Theorem C09_stream_after_preamble : forall tok cid s sc,
  length tok = TOKEN_LEN -> length cid = CLIENTID_LEN ->
  server_read (tok ++ cid ++ s) sc = SOk tok cid (fst (decode_stream s)) (snd (decode_stream s)).
Proof. exact stream_after_preamble. Qed.
Theorem C09_server_roundtrip : forall tok cid items s sc,
  length tok = TOKEN_LEN -> length cid = CLIENTID_LEN ->
  items_ok items -> encode_items items = Some s ->
  server_read (tok ++ cid ++ s) sc = SOk tok cid (datas items) EOF.
Proof. exact server_roundtrip. Qed.
Theorem C09_server_short_preamble : forall s sc, (length s < TOKEN_LEN + CLIENTID_LEN)%nat ->
  exists e, server_read s sc = SShort e.
Proof. exact server_short_preamble. Qed.
Example C09_server_roundtrip_example :
  let tok := [1; 2; 3; 4; 5; 6; 7; 8] in let cid := [9; 9; 9; 9; 9; 9; 9; 9] in
  length tok = TOKEN_LEN /\ length cid = CLIENTID_LEN /\ items_ok [Data [65; 66]; Pad 3; Data []] /\
  (* one read delivers the whole preamble together with the first chunk's prefix and one body byte *)
  server_read (tok ++ cid ++ [130; 65; 66; 2; 0; 0; 128]) [(18%nat, false); (0%nat, false); (1%nat, false)]
    = SOk tok cid [[65; 66]; []] EOF.
Proof. cbv zeta. repeat split. Qed.

(* A reader that FAILS (returns a non-EOF error, alone or with its last bytes, after delivering the bytes s
   under any fragmentation): the chunks returned before the failure are exactly the whole data chunks of s,
   and the call that meets the failure returns the reader's error (ErrTooLong keeps precedence when the
   delivered bytes already contain an over-long prefix).  Nothing is invented, lost or reordered. *)
Theorem C09_failing_reader : forall s sc,
  read_stream_x s sc = (fst (decode_stream s), xmap (snd (decode_stream s))).
Proof. exact read_stream_x_spec. Qed.
Example C09_failing_reader_example :
  read_stream_x [129; 65; 130; 66] [(1%nat, false); (0%nat, false); (3%nat, true)] = ([[65]], XIo).
Proof. vm_compute. reflexivity. Qed.

(* The pinned code (one r.Read per prefix byte, count ignored) violated the round trip:
   regression witnesses, replayed on the Go code before the fix. *)
Theorem C09_v0_refuted_zero_read :
  let items := [Data (gen_bytes 200 1)] in
  let sc := [(1%nat, false); (0%nat, false); (1%nat, false)] in
  exists s, items_ok items /\ encode_items items = Some s /\ read_stream_v0 s sc <> (datas items, EOF).
Proof. exact v0_refuted_zero_read. Qed.
Theorem C09_v0_refuted_eof_with_data :
  let items := [Data []] in
  let sc := [(1%nat, true)] in
  exists s, items_ok items /\ encode_items items = Some s /\ read_stream_v0 s sc <> (datas items, EOF).
Proof. exact v0_refuted_eof_with_data. Qed.

(* non-vacuity: hypotheses are satisfiable by a non-trivial case *)
Example C09_items_ok_example : items_ok [Data [1; 2; 3]; Pad 5; Data []] /\
  exists s, encode_items [Data [1; 2; 3]; Pad 5; Data []] = Some s.
Proof. split; [vm_compute; repeat split | eexists; vm_compute; reflexivity]. Qed.
