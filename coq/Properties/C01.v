(* placeholder: the integrator replaces this file with the composition theorems of C01 *)
From Snow Require Import Model.Encap.
