(* C01 — End-to-end byte stream is exact and ordered across proxy churn.
   PARTIAL by nature: the ARQ machinery (kcp-go, smux), WebRTC/SCTP, WebSockets and OS sockets are real
   libraries; they enter as the Section hypothesis [arq_safe] (safety half of ARQ) and are exercised, not
   modelled, by the whole-system rig of lib/checks/c01.py. What IS proved is everything the Snowflake code
   adds around them: whatever reaches the receiving KCP endpoint over carriers that are cut at ANY byte
   offset, fragmented in ANY way and replaced ANY number of times is an unmodified packet of the peer
   endpoint of the same session (C09 framing + C05 carrier layer), hence — under the ARQ hypothesis — the
   delivered stream is a prefix of the written one: never missing-in-the-middle, duplicated, reordered or
   foreign bytes; and the client's redialing adapter reports an error to KCP only after Close or a failed
   dial (C17). Liveness ("provided some working proxy eventually becomes available") rests on KCP
   retransmission and is observed by the rig only.
   The ARQ boundary, precisely: kcp-go and smux themselves enter ONLY as the hypothesis [arq_safe] (library
   boundary; their behaviour is exercised by the rig of lib/checks/c01.py, not proved). That the hypothesis is
   satisfiable by a NON-TRIVIAL reliable-stream layer is shown by the toy ARQ of Proofs/ToyArqProofs.v, a
   selective-repeat receiver with the shape of KCP's receive side (conversation id, sequence number, rcv_nxt,
   reorder buffer drained while contiguous): it is proved safe for all inputs (C01_toy_arq_safe), complete
   when every segment arrives in any order with duplicates and foreign segments (C01_toy_arq_complete), and
   the two stream theorems are instantiated with it (…_toy_arq, no ARQ hypothesis left). The toy ARQ is a
   witness of satisfiability; it is NOT a model of kcp-go.
   Composition over many carriers (section "multi-carrier composition" below): the premise of the two stream
   theorems — every packet handed to the receiving endpoint was queued from some one fresh carrier fed an honest
   cut stream — is PROVED over the server's carrier layer [srun] for every schedule (Proofs/CarrierMultiProofs.v,
   Proofs/PacketPathMultiProofs.v); what remains there as hypothesis is the schedule-level [honest_carriers] (the bytes
   sent on every carrier that presented the ClientID are a prefix of an honest sender's stream). The section "the relay
   in the loop" at the end DERIVES it, one hop further out, from the model of the proxy's copyLoop (Model/CopyLoop.v):
   if every such carrier's bytes are (a prefix of) what some relay run [cl_run] - any scripts, any schedule - wrote to
   its server side while its client side handed it at most an honest carrier stream ([relayed_carriers]), then
   [honest_carriers] holds (C01_relayed_carriers_honest), and the multi-carrier stream theorems are restated with
   [relayed_carriers] as their only schedule hypothesis (…_multi_carrier_via_relay), both directions.
   IDEALISATION in the relay model (atomic wake): Model/CopyLoop.v [wake] ends the copiers parked on a conn in the very
   step that closes it, and so do the scripted conns of the correspondence driver
   (harness/overlay/proxy/lib/zz_verif_copyloop_test.go wakeLocked). Go promises less: Close makes the pending Read/Write
   fail, the copier goroutine returns from io.Copy some time later, and copyLoop (proxy/lib/snowflake.go) returns after its
   two deferred Close calls WITHOUT joining the copiers. C01_relay_both_copiers_gone_at_return is therefore a theorem
   about the idealised machine; what holds without the idealisation is stated and proved for the machine without the
   atomic wake ([cl_run_lazy]): at the return both conns are closed, a copier still inside io.Copy leaves it at its next
   step without moving a byte, and nothing is accepted after the return (C01_relay_*_no_atomic_wake). The byte-stream
   theorems (prefix, closes, nothing late) do not depend on which of the two machines one takes for the copiers' exit. *)
From Coq Require Import List NArith Bool Arith.
From Snow Require Import Lib.Wire Model.Encap Proofs.EncapProofs Model.CarrierLayer Proofs.CarrierProofs Proofs.PacketPathProofs.
From Snow Require Import Model.Redial Proofs.RedialProofs.
Import ListNotations.
Open Scope N_scope.

(* Upstream, one carrier: the server queues a prefix of the sender's packets, under the sender's ClientID. *)
Theorem C01_upstream_cut : forall cid ps w k,
  length cid = 8%nat -> wire_of ps = Some w ->
  let s := firstn k (carrier_stream cid w) in
  exists k' j, pump (S (S (S (length s)))) (fresh s) = (k', firstn j ps) /\
               k_up k' = firstn j ps /\ (j <> 0%nat -> k_cid k' = cid).
Proof. exact upstream_cut. Qed.

(* Downstream, one carrier: under any reader behaviour the client reads a prefix of the packets written. *)
Theorem C01_downstream_cut : forall ps w k sc, wire_of ps = Some w ->
  exists j e, read_stream (firstn k w) sc = (firstn j ps, e) /\ (e = EOF \/ e = UnexpectedEOF).
Proof. exact reader_cut. Qed.

(* Packet integrity over any number of cut carriers, then the stream under the ARQ hypothesis: both directions. *)
Theorem C01_upstream_stream_prefix :
  forall (packets_of : bytes -> list bytes -> Prop) (stream_of : list bytes -> bytes),
  (forall written sent recv, packets_of written sent -> (forall p, In p recv -> In p sent) ->
     is_prefix (stream_of recv) written) ->
  forall written sent cid (cs : list ucarrier) recv,
    length cid = 8%nat -> packets_of written sent ->
    (forall c, In c cs -> wire_of (u_ps c) = Some (u_w c) /\ forall p, In p (u_ps c) -> In p sent) ->
    (forall p, In p recv -> exists c, In c cs /\ In p (queued_from cid (u_w c) (u_cut c))) ->
    is_prefix (stream_of recv) written.
Proof. exact upstream_stream_prefix. Qed.

Theorem C01_downstream_stream_prefix :
  forall (packets_of : bytes -> list bytes -> Prop) (stream_of : list bytes -> bytes),
  (forall written sent recv, packets_of written sent -> (forall p, In p recv -> In p sent) ->
     is_prefix (stream_of recv) written) ->
  forall written sent (cs : list dcarrier) recv,
    packets_of written sent ->
    (forall c, In c cs -> wire_of (d_ps c) = Some (d_w c) /\ forall p, In p (d_ps c) -> In p sent) ->
    (forall p, In p recv -> exists c, In c cs /\ In p (read_from (d_w c) (d_cut c) (d_sc c))) ->
    is_prefix (stream_of recv) written.
Proof. exact downstream_stream_prefix. Qed.

(* Cross-session isolation at the server (from C05): a packet surfaces under ClientID a only from a carrier
   that presented a. *)
Theorem C01_no_cross_session : forall ops p a,
  In (p, a) (delivered (srun ops) ++ recvq (srun ops)) ->
  exists i k, nth_error (carriers (srun ops)) i = Some k /\ k_cid k = a /\ In p (k_up k) /\ ~ pre_open k.
Proof. intros ops. apply (si_up _ (srun_inv ops)). Qed.

(* The client's redialing adapter surfaces an error to KCP only after Close or a failed dial (from C17). *)
Theorem C01_no_error_surfaces :
  forall ecap qcap s l e, reachable ecap qcap s -> user_result s l = UErr e ->
    (g_close_called s = true \/ g_dial_failed s = true) /\ e = r_err s /\ e <> ENone /\ r_closed s = true.
Proof. exact redial_errors_only_after_close_or_dial_failure. Qed.

(* non-vacuity: a concrete carrier stream cut inside the second packet yields exactly the first packet *)
Example C01_example :
  let cid := [1;2;3;4;5;6;7;8] in
  let ps := [[65;66;67]; [68;69]] in
  exists w, wire_of ps = Some w /\ queued_from cid w 21 = [[65;66;67]] /\ queued_from cid w 23 = ps /\
            queued_from cid w 12 = [] /\ read_from w 5 [(1%nat, false); (0%nat, false)] = [[65;66;67]].
Proof. eexists. split; [vm_compute; reflexivity|]. repeat split. Qed.

(* ---------- toy ARQ: the hypothesis is satisfiable ---------- *)
From Snow Require Import Proofs.ToyArqProofs.

(* The ARQ hypothesis of the two stream theorems holds of the toy selective-repeat ARQ, for all inputs. *)
Theorem C01_toy_arq_safe : forall conv written sent recv,
  toy_packets_of conv written sent -> (forall p, In p recv -> In p sent) ->
  is_prefix (toy_stream_of conv recv) written.
Proof. exact toy_arq_safe. Qed.

(* ... and not because it delivers nothing: when every segment arrives (any order, any duplicates, foreign or
   undecodable segments anywhere in between) the whole stream is delivered. *)
Theorem C01_toy_arq_complete : forall conv (chunks : list bytes) (recv : list bytes),
  (forall i, (i < length chunks)%nat -> In (toy_seg conv i (nth i chunks [])) recv) ->
  (forall p, In p recv ->
     (exists i, (i < length chunks)%nat /\ p = toy_seg conv i (nth i chunks [])) \/ toy_foreign conv p) ->
  toy_stream_of conv recv = concat chunks.
Proof. exact toy_arq_complete. Qed.

(* A segment handed to the receiver a second time changes nothing; a foreign segment changes nothing. *)
Theorem C01_toy_arq_dup_ignored : forall conv l1 p l2 l3,
  toy_stream_of conv (l1 ++ [p] ++ l2 ++ [p] ++ l3) = toy_stream_of conv (l1 ++ [p] ++ l2 ++ l3).
Proof. exact toy_dup_ignored. Qed.

Theorem C01_toy_arq_foreign_ignored : forall conv l1 p l2, toy_foreign conv p ->
  toy_stream_of conv (l1 ++ [p] ++ l2) = toy_stream_of conv (l1 ++ l2).
Proof. exact toy_foreign_ignored. Qed.

(* The two stream theorems with the ARQ hypothesis discharged by the toy ARQ. *)
Theorem C01_upstream_stream_prefix_toy_arq :
  forall conv written sent cid (cs : list ucarrier) recv,
    length cid = 8%nat -> toy_packets_of conv written sent ->
    (forall c, In c cs -> wire_of (u_ps c) = Some (u_w c) /\ forall p, In p (u_ps c) -> In p sent) ->
    (forall p, In p recv -> exists c, In c cs /\ In p (queued_from cid (u_w c) (u_cut c))) ->
    is_prefix (toy_stream_of conv recv) written.
Proof. exact upstream_stream_prefix_toy. Qed.

Theorem C01_downstream_stream_prefix_toy_arq :
  forall conv written sent (cs : list dcarrier) recv,
    toy_packets_of conv written sent ->
    (forall c, In c cs -> wire_of (d_ps c) = Some (d_w c) /\ forall p, In p (d_ps c) -> In p sent) ->
    (forall p, In p recv -> exists c, In c cs /\ In p (read_from (d_w c) (d_cut c) (d_sc c))) ->
    is_prefix (toy_stream_of conv recv) written.
Proof. exact downstream_stream_prefix_toy. Qed.

(* non-vacuity, concrete bytes: session 7 writes "ABCDEF" as the three segments AB | C | DEF.
   - handed the segments reordered, with a duplicate, a segment of session 9 and an undecodable one, the
     receiver delivers the whole stream;
   - handed segments 2 and 0 but never segment 1, it delivers exactly the first chunk (a strict prefix);
   - end to end through the Snowflake layers: one upstream carrier framing [seg2; seg0; seg0; seg1], uncut,
     yields the whole stream; cut inside the last framed segment it yields the first chunk. *)
Example C01_toy_arq_example :
  let conv := 7 in
  let written := [65;66;67;68;69;70] in
  let s0 := [7;0;65;66] in let s1 := [7;1;67] in let s2 := [7;2;68;69;70] in
  let cid := [1;2;3;4;5;6;7;8] in
  toy_packets_of conv written [s0; s1; s2; s1] /\
  toy_stream_of conv [s2; [9;0;88;89]; s0; [7]; s2; s1; s0] = written /\
  toy_stream_of conv [s2; s0; s2] = [65;66] /\
  exists w, wire_of [s2; s0; s0; s1] = Some w /\
            queued_from cid w (length (carrier_stream cid w)) = [s2; s0; s0; s1] /\
            toy_stream_of conv (queued_from cid w (length (carrier_stream cid w))) = written /\
            queued_from cid w (length (carrier_stream cid w) - 2)%nat = [s2; s0; s0] /\
            toy_stream_of conv (queued_from cid w (length (carrier_stream cid w) - 2)%nat) = [65;66].
Proof.
  cbv zeta. split.
  - exists [[65;66]; [67]; [68;69;70]]. split; [reflexivity|].
    intros p [<-|[<-|[<-|[<-|[]]]]];
      [exists 0%nat | exists 1%nat | exists 2%nat | exists 1%nat]; (split; [cbn; repeat constructor | reflexivity]).
  - split; [vm_compute; reflexivity|]. split; [vm_compute; reflexivity|].
    eexists. split; [vm_compute; reflexivity|].
    repeat (split; [vm_compute; reflexivity|]). vm_compute; reflexivity.
Qed.

(* ---------- multi-carrier composition: the premise of the stream theorems, proved from the carrier layer ---------- *)
From Snow Require Import Proofs.CarrierOnceProofs Proofs.CarrierFragProofs Proofs.CarrierMultiProofs Proofs.PacketPathMultiProofs.

(* [C01_upstream_stream_prefix] ASSUMES that every packet handed to the receiving endpoint was queued from some one
   fresh carrier fed an honest, cut stream. Here that composition is PROVED over the server's carrier layer [srun],
   for every schedule [ops]: any number of carriers of this and of other sessions, arrivals interleaved and
   fragmented in any way, closes at any point, carriers of the same session overlapping. *)

(* one carrier among many: when the bytes sent on carrier i are a prefix of an honest carrier stream, what it queued
   is exactly [queued_from] at the cut it had read (all that was sent while it is alive) *)
Theorem C01_carrier_queued_from : forall ops i k cid w,
  nth_error (carriers (srun ops)) i = Some k ->
  is_prefix (sent_on i ops) (carrier_stream cid w) ->
  exists cut, k_up k = queued_from cid w cut /\ (k_state k <> K_Dead -> cut = length (sent_on i ops)).
Proof. exact carrier_queued_from. Qed.

(* packet integrity for the whole session: if every carrier that presented ClientID [cid] was sent a prefix of an
   honest sender's stream (token, cid, framed packets of the session's sending endpoint), every packet that
   surfaces under [cid] — read by KCP or still queued — is one of that endpoint's packets *)
Theorem C01_session_packets_are_senders : forall ops cid sent p,
  length cid = 8%nat -> honest_carriers ops cid sent ->
  In (p, cid) (surfaced (srun ops)) -> In p sent.
Proof. exact session_packets_are_senders. Qed.

(* the stream theorems with the composition discharged: no premise about single carriers is left, only the schedule
   hypothesis [honest_carriers] (upstream) / what the server's endpoint wrote (downstream), and the ARQ hypothesis *)
Theorem C01_upstream_stream_prefix_multi_carrier :
  forall (packets_of : bytes -> list bytes -> Prop) (stream_of : list bytes -> bytes),
  (forall written sent recv, packets_of written sent -> (forall p, In p recv -> In p sent) ->
     is_prefix (stream_of recv) written) ->
  forall written sent cid ops recv,
    length cid = 8%nat -> packets_of written sent -> honest_carriers ops cid sent ->
    (forall p, In p recv -> In (p, cid) (surfaced (srun ops))) ->
    is_prefix (stream_of recv) written.
Proof. exact upstream_stream_prefix_multi. Qed.

Theorem C01_downstream_stream_prefix_multi_carrier :
  forall (packets_of : bytes -> list bytes -> Prop) (stream_of : list bytes -> bytes),
  (forall written sent recv, packets_of written sent -> (forall p, In p recv -> In p sent) ->
     is_prefix (stream_of recv) written) ->
  forall written sent cid ops recv,
    packets_of written sent ->
    (forall p, In (cid, p) (accepted (srun ops)) -> In p sent) ->
    (forall p, In p recv -> exists i k cut sc, nth_error (carriers (srun ops)) i = Some k /\ k_cid k = cid /\
                                            In p (read_from (k_wire k) cut sc)) ->
    is_prefix (stream_of recv) written.
Proof. exact downstream_stream_prefix_multi. Qed.

(* ... and with the toy ARQ for the library: nothing hypothetical left but the schedule *)
Theorem C01_upstream_stream_prefix_multi_carrier_toy_arq : forall conv written sent cid ops recv,
  length cid = 8%nat -> toy_packets_of conv written sent -> honest_carriers ops cid sent ->
  (forall p, In p recv -> In (p, cid) (surfaced (srun ops))) ->
  is_prefix (toy_stream_of conv recv) written.
Proof.
  intros conv. exact (upstream_stream_prefix_multi (toy_packets_of conv) (toy_stream_of conv) (toy_arq_safe conv)).
Qed.

(* the session's packets surface in an order-preserving merge of the carriers' decoded sequences *)
Theorem C01_session_packets_in_order : forall ops c,
  subseq (map fst (filter (tagged c) (surfaced (srun ops)))) (pkts_of (filter (entry_cid c) (offered ops))).
Proof. exact session_packets_in_order. Qed.

(* non-vacuity: a session (ClientID c1) over two OVERLAPPING carriers — carrier 0 is cut inside its second packet,
   carrier 1 re-sends the second packet — next to a carrier of another session: the hypothesis [honest_carriers]
   holds of this schedule, and what surfaces under c1 is packet 1 from carrier 0, then packet 2 from carrier 1. *)
Definition c01_two_carriers : list sop :=
  let c1 := [1;2;3;4;5;6;7;8] in let c2 := [9;9;9;9;9;9;9;9] in
  [S_New; S_New; S_New;
   S_Recv 0 (TOKEN ++ c1 ++ [131; 65; 66]); S_Recv 1 (TOKEN ++ c1); S_Recv 2 (TOKEN ++ c2 ++ [129; 90]);
   S_Recv 0 [67; 130; 68]; S_Recv 1 [130; 68; 69]; S_Close 0].

Example C01_multi_carrier_example :
  let c1 := [1;2;3;4;5;6;7;8] in
  let sent := [[65;66;67]; [68;69]] in
  honest_carriers c01_two_carriers c1 sent /\
  map fst (filter (tagged c1) (surfaced (srun c01_two_carriers))) = [[65;66;67]; [68;69]] /\
  sent_on 0 c01_two_carriers = TOKEN ++ c1 ++ [131; 65; 66; 67; 130; 68] /\
  pkts_of (filter (entry_cid c1) (offered c01_two_carriers)) = [[65;66;67]; [68;69]].
Proof.
  cbn zeta. split; [|vm_compute; repeat split].
  intros i k Hk Hcid Hnp.
  destruct i as [|[|[|i]]].
  - exists [[65;66;67]; [68;69]], [131;65;66;67;130;68;69]. split; [reflexivity|]. split; [intros p H; exact H|].
    exists [69]. vm_compute. reflexivity.
  - exists [[68;69]], [130;68;69]. split; [reflexivity|]. split; [intros p [<-|[]]; right; left; reflexivity|].
    exists []. vm_compute. reflexivity.
  - exfalso. vm_compute in Hk. injection Hk as <-. vm_compute in Hcid. discriminate.
  - exfalso. vm_compute in Hk. destruct i; discriminate.
Qed.

(* ---------- the proxy's relay step (gap round) ----------
   The theorems above take as premise that the bytes reaching the far end of a carrier are a prefix [firstn k] of what
   the honest sender put on it. Between the two ends sits the proxy: proxy/lib/snowflake.go copyLoop (two io.Copy
   goroutines, a once-closed done channel, two deferred Close calls), modelled in Model/CopyLoop.v at the granularity of
   single Read / Write / Close calls. For ALL read scripts r0 r1 (data chunks of any size, possibly together with EOF or
   an error), ALL write scripts w0 w1 (short writes, write errors) of the two conns and ALL schedules of the two
   copiers, copyLoop's own goroutine, the shutdown channel and closes from outside:
   side 0 = c1 (the client's WebRTC conn), side 1 = c2 (the WebSocket to the server); direction d copies side d -> 1-d. *)
From Snow Require Import Model.CopyLoop Proofs.CopyLoopProofs Proofs.CopyLoopLazyProofs.
Open Scope N_scope.

(* (a) what side 1-d accepted is a prefix of what side d handed out, which is a prefix of side d's script: nothing
   inserted, nothing reordered, nothing skipped in the middle — in both directions *)
Theorem C01_relay_prefix : forall (r0 r1 : list cl_ritem) (w0 w1 : list cl_witem) (sched : list cl_step) (d : bool),
  exists n, s_in (get_side (negb d) (cl_run sched (cl_init r0 w0 r1 w1)))
            = firstn n (s_out (get_side d (cl_run sched (cl_init r0 w0 r1 w1)))).
Proof. exact relay_prefix. Qed.

Theorem C01_relay_consumed_prefix : forall (r0 r1 : list cl_ritem) (w0 w1 : list cl_witem) (sched : list cl_step) (s : bool),
  s_out (get_side s (cl_run sched (cl_init r0 w0 r1 w1)))
    ++ script_data (s_reads (get_side s (cl_run sched (cl_init r0 w0 r1 w1))))
  = script_data (if s then r1 else r0).
Proof. exact consumed_prefix. Qed.

(* a copier parked at a Read (no chunk in hand, no write failed so far) has delivered exactly what it read; parked at a
   Write it has delivered everything but the chunk it holds *)
Theorem C01_relay_exact_at_read : forall (r0 r1 : list cl_ritem) (w0 w1 : list cl_witem) (sched : list cl_step) (d : bool),
  get_dir d (cl_run sched (cl_init r0 w0 r1 w1)) = AtRead ->
  s_in (get_side (negb d) (cl_run sched (cl_init r0 w0 r1 w1))) = s_out (get_side d (cl_run sched (cl_init r0 w0 r1 w1))).
Proof. exact relay_exact_at_read. Qed.

Theorem C01_relay_at_write : forall (r0 r1 : list cl_ritem) (w0 w1 : list cl_witem) (sched : list cl_step) (d : bool) c er,
  get_dir d (cl_run sched (cl_init r0 w0 r1 w1)) = AtWrite c er ->
  s_in (get_side (negb d) (cl_run sched (cl_init r0 w0 r1 w1))) ++ c = s_out (get_side d (cl_run sched (cl_init r0 w0 r1 w1))).
Proof. exact relay_at_write. Qed.

(* the form the packet-path theorems consume *)
Theorem C01_relay_prefix_of : forall (r0 r1 : list cl_ritem) (w0 w1 : list cl_witem) (sched : list cl_step) (d : bool) (str : bytes),
  is_prefix (script_data (if d then r1 else r0)) str ->
  exists k, s_in (get_side (negb d) (cl_run sched (cl_init r0 w0 r1 w1))) = firstn k str.
Proof. exact relay_prefix_of. Qed.

(* (b) copyLoop closes each conn at most once, c1 before c2, both exactly once when it has returned; and it leaves its
   select only after a copier has finished or the shutdown channel was closed *)
Theorem C01_relay_closes_at_most_once : forall (r0 r1 : list cl_ritem) (w0 w1 : list cl_witem) (sched : list cl_step) (s : bool),
  (s_closes (get_side s (cl_run sched (cl_init r0 w0 r1 w1))) <= 1)%nat.
Proof. exact closes_at_most_once. Qed.

Theorem C01_relay_closes_once_when_returned : forall (r0 r1 : list cl_ritem) (w0 w1 : list cl_witem) (sched : list cl_step),
  mn (cl_run sched (cl_init r0 w0 r1 w1)) = Returned ->
  forall s, s_closes (get_side s (cl_run sched (cl_init r0 w0 r1 w1))) = 1%nat.
Proof. exact closes_once_when_returned. Qed.

Theorem C01_relay_closes_in_order : forall (r0 r1 : list cl_ritem) (w0 w1 : list cl_witem) (sched : list cl_step),
  (s_closes (side1 (cl_run sched (cl_init r0 w0 r1 w1))) <= s_closes (side0 (cl_run sched (cl_init r0 w0 r1 w1))))%nat.
Proof. exact closes_in_order. Qed.

Theorem C01_relay_returns_for_a_reason : forall r0 w0 r1 w1 sched,
  let st := cl_run sched (cl_init r0 w0 r1 w1) in
  mn st <> Waiting -> (exists d, get_dir d st = Exited) \/ In Shutdown sched.
Proof. exact leaves_select_for_a_reason. Qed.

(* (c) after the return nothing moves: no byte is accepted by either side, no script advances, no further Close, whatever
   steps follow (a copier that still held a chunk has dropped it) *)
Theorem C01_relay_inert_after_return : forall r0 w0 r1 w1 sched more,
  let st := cl_run sched (cl_init r0 w0 r1 w1) in
  mn st = Returned -> view (cl_run (sched ++ more) (cl_init r0 w0 r1 w1)) = view st.
Proof. exact returned_inert. Qed.

(* IDEALISED (atomic wake, see the header): in [cl_run] the Close that copyLoop makes ends the copiers parked on that conn
   in the same step, so both are gone at the return. Go's copyLoop does not join its copiers; what it guarantees is the
   three …_no_atomic_wake theorems below. *)
Theorem C01_relay_both_copiers_gone_at_return : forall r0 w0 r1 w1 sched,
  let st := cl_run sched (cl_init r0 w0 r1 w1) in mn st = Returned -> forall d, get_dir d st = Exited.
Proof. exact returned_both_exited. Qed.

(* WITHOUT the atomic wake ([cl_run_lazy]: a Close only marks the conn closed; a parked copier moves at its own next
   step), for all scripts and schedules: when copyLoop has returned it has closed both conns, each exactly once; *)
Theorem C01_relay_both_closed_at_return_no_atomic_wake : forall r0 w0 r1 w1 sched,
  let st := cl_run_lazy sched (cl_init r0 w0 r1 w1) in
  mn st = Returned -> forall s, s_closes (get_side s st) = 1%nat /\ closed (get_side s st) = true.
Proof. exact lazy_returned_closed. Qed.

(* a copier that is still inside io.Copy then (parked in a Read or Write) leaves it at its very next step - the call fails,
   the conn being closed - and that step changes neither side (no byte moved, no script advanced, no Close) nor the other
   copier: every copier terminates after at most one more step of its own; *)
Theorem C01_relay_copier_exits_in_one_step_no_atomic_wake : forall r0 w0 r1 w1 sched,
  let st := cl_run_lazy sched (cl_init r0 w0 r1 w1) in
  mn st = Returned -> forall d,
    get_dir d (cl_do_lazy st (Rel d)) = Exited /\
    (forall s, get_side s (cl_do_lazy st (Rel d)) = get_side s st) /\
    get_dir (negb d) (cl_do_lazy st (Rel d)) = get_dir (negb d) st /\
    mn (cl_do_lazy st (Rel d)) = Returned.
Proof. exact lazy_returned_one_step. Qed.

(* and after the return nothing is accepted, handed out or closed, whatever steps follow. *)
Theorem C01_relay_inert_after_return_no_atomic_wake : forall r0 w0 r1 w1 sched more,
  let st := cl_run_lazy sched (cl_init r0 w0 r1 w1) in
  mn st = Returned ->
  mn (cl_run_lazy (sched ++ more) (cl_init r0 w0 r1 w1)) = Returned /\
  forall s, side_view (get_side s (cl_run_lazy (sched ++ more) (cl_init r0 w0 r1 w1))) = side_view (get_side s st).
Proof. exact lazy_returned_inert. Qed.

(* non-vacuity, and the reason the stronger statement is NOT claimed of that machine: shutdown, the two closes, return -
   and both copiers are still parked at their Read; one step each and they are gone, nothing else having changed *)
Example C01_relay_copier_may_outlive_return_no_atomic_wake :
  let st := cl_run_lazy [Shutdown; RelMain; RelMain] (cl_init [mk_ritem [1;2] CNone] [] [] []) in
  mn st = Returned /\ get_dir false st = AtRead /\ get_dir true st = AtRead /\
  s_closes (side0 st) = 1%nat /\ s_closes (side1 st) = 1%nat /\
  let st' := cl_run_lazy [Rel false; Rel true] st in
  get_dir false st' = Exited /\ get_dir true st' = Exited /\ s_in (side1 st') = [] /\ s_out (side0 st') = [].
Proof. vm_compute. repeat split. Qed.

Theorem C01_relay_nothing_late : forall r0 w0 r1 w1 sched, late (cl_run sched (cl_init r0 w0 r1 w1)) = (0%nat, 0%nat).
Proof. exact late_zero. Qed.

(* the premise of C01_upstream_cut / C01_downstream_cut discharged through the relay *)
Theorem C01_upstream_via_relay : forall cid ps w r0 w0 r1 w1 sched,
  length cid = 8%nat -> wire_of ps = Some w ->
  is_prefix (script_data r0) (carrier_stream cid w) ->
  let s := s_in (side1 (cl_run sched (cl_init r0 w0 r1 w1))) in
  exists k' j, pump (S (S (S (length s)))) (fresh s) = (k', firstn j ps) /\
               k_up k' = firstn j ps /\ (j <> 0%nat -> k_cid k' = cid).
Proof. exact upstream_via_relay. Qed.

Theorem C01_downstream_via_relay : forall ps w r0 w0 r1 w1 sched sc,
  wire_of ps = Some w ->
  is_prefix (script_data r1) w ->
  let s := s_in (side0 (cl_run sched (cl_init r0 w0 r1 w1))) in
  exists j e, read_stream s sc = (firstn j ps, e) /\ (e = EOF \/ e = UnexpectedEOF).
Proof. exact downstream_via_relay. Qed.

(* non-vacuity. One run: side 0 hands out 1 2 3 | 4 5 | 6+EOF, side 1's second Write is short (1 byte): direction 0
   relays 1 2 3, then 4 of the chunk 4 5, and exits (ErrShortWrite); copyLoop closes c1 then c2 and returns.
   The prefix is strict (5 was read and lost, 6 never read); direction 1 meanwhile delivered 9 and is woken by the close. *)
Definition C01_ex_r0 : list cl_ritem := [mk_ritem [1;2;3] CNone; mk_ritem [4;5] CNone; mk_ritem [6] CEof].
Definition C01_ex_r1 : list cl_ritem := [mk_ritem [9] CNone; mk_ritem [8] CNone].
Definition C01_ex_w1 : list cl_witem := [w_ok; mk_witem (Some 1%nat) false].
Definition C01_ex_run (sched : list cl_step) := cl_run sched (cl_init C01_ex_r0 [] C01_ex_r1 C01_ex_w1).

Example C01_relay_example_strict_prefix :
  let st := C01_ex_run [Rel false; Rel false; Rel true; Rel true; Rel false; Rel true; Rel false; RelMain; RelMain; Rel true; Rel false] in
  s_in (side1 st) = [1;2;3;4] /\ s_out (side0 st) = [1;2;3;4;5] /\ s_in (side0 st) = [9] /\ s_out (side1 st) = [9;8] /\
  mn st = Returned /\ s_closes (side0 st) = 1%nat /\ s_closes (side1 st) = 1%nat /\
  get_dir false st = Exited /\ get_dir true st = Exited /\ ~ In Shutdown [Rel false; RelMain].
Proof. vm_compute. repeat split. intros [H|[H|[]]]; discriminate. Qed.

(* the hypotheses of the at_read / at_write theorems are met by states that have relayed something *)
Example C01_relay_example_at_read :
  let st := C01_ex_run [Rel false; Rel false] in get_dir false st = AtRead /\ s_in (side1 st) = [1;2;3] /\ mn st = Waiting.
Proof. vm_compute. repeat split. Qed.

Example C01_relay_example_at_write :
  let st := C01_ex_run [Rel false; Rel false; Rel false; Shutdown] in
  get_dir false st = AtWrite [4;5] CNone /\ s_in (side1 st) = [1;2;3] /\ mn st = Closing1 /\ In Shutdown [Rel false; Shutdown].
Proof. vm_compute. repeat split. right. left. reflexivity. Qed.

(* a chunk larger than io.Copy's buffer is relayed in pieces of 32768 bytes *)
Example C01_relay_example_big_chunk :
  let st := cl_run [Rel false; Rel false] (cl_init [mk_ritem (gen_bytes (N.to_nat 40000) 7) CNone] [] [] []) in
  N.of_nat (length (s_in (side1 st))) = 32768 /\ get_dir false st = AtRead /\ N.of_nat (length (s_out (side0 st))) = 32768.
Proof. vm_compute. repeat split. Qed.

(* via the relay: the client's carrier stream is handed to the relay in two Reads (20 bytes, then the rest with EOF); the
   relay forwards the first, and is shut down while it holds the second: the server queues exactly the first packet.
   Downstream the relay forwards 5 of the server's bytes before a write error: the client reads the first packet. *)
Example C01_via_relay_example :
  let cid := [1;2;3;4;5;6;7;8] in
  let ps := [[65;66;67]; [68;69]] in
  exists w, wire_of ps = Some w /\
    let up := carrier_stream cid w in
    let r0 := [mk_ritem (firstn 20 up) CNone; mk_ritem (skipn 20 up) CEof] in
    let r1 := [mk_ritem (firstn 2 w) CNone; mk_ritem (skipn 2 w) CNone] in
    let w0 := [w_ok; mk_witem (Some 3%nat) true] in
    let st := cl_run [Rel false; Rel false; Rel false; Rel true; Rel true; Rel true; Rel true; Shutdown; RelMain; RelMain; Rel false]
                     (cl_init r0 w0 r1 []) in
    is_prefix (script_data r0) up /\ is_prefix (script_data r1) w /\ mn st = Returned /\
    length (s_in (side1 st)) = 20%nat /\
    snd (pump (S (S (S (length (s_in (side1 st)))))) (fresh (s_in (side1 st)))) = [[65;66;67]] /\
    length (s_in (side0 st)) = 5%nat /\
    fst (read_stream (s_in (side0 st)) [(1%nat, false); (0%nat, false)]) = [[65;66;67]].
Proof.
  eexists. split; [vm_compute; reflexivity|]. cbv zeta. split; [exists []; vm_compute; reflexivity|].
  split; [exists []; vm_compute; reflexivity|]. vm_compute. repeat split.
Qed.

(* ---------- the relay in the loop of the multi-carrier composition ----------
   [C01_upstream_via_relay] above is about ONE relay feeding ONE fresh [pump]. The multi-carrier theorems take the
   schedule hypothesis [honest_carriers]. Here the two are connected: [relayed_carriers ops cid sent] says that for every
   carrier i of the schedule that presented [cid] there is a relay run - ANY read/write scripts of its two conns, ANY
   schedule of its copiers, of copyLoop's closes, of shutdown and of outside closes - whose client side handed it (at
   most) an honest carrier stream of packets of [sent], and the bytes the server was sent on carrier i are a prefix of
   what that relay has written to its server side. *)
From Snow Require Import Proofs.RelayMultiProofs.

Theorem C01_relayed_carriers_honest : forall ops cid sent,
  relayed_carriers ops cid sent -> honest_carriers ops cid sent.
Proof. exact relayed_carriers_honest. Qed.

Theorem C01_session_packets_are_senders_via_relay : forall ops cid sent p,
  length cid = 8%nat -> relayed_carriers ops cid sent ->
  In (p, cid) (surfaced (srun ops)) -> In p sent.
Proof. exact session_packets_are_senders_via_relay. Qed.

(* the stream theorems with client -> relay -> server carrier layer -> KCP composed: no premise about single carriers and
   none about what reaches the server is left, only [relayed_carriers] (upstream) / what the server's endpoint wrote and
   that each client read goes through some relay run fed (at most) a carrier's wire (downstream), and the ARQ hypothesis *)
Theorem C01_upstream_stream_prefix_multi_carrier_via_relay :
  forall (packets_of : bytes -> list bytes -> Prop) (stream_of : list bytes -> bytes),
  (forall written sent recv, packets_of written sent -> (forall p, In p recv -> In p sent) ->
     is_prefix (stream_of recv) written) ->
  forall written sent cid ops recv,
    length cid = 8%nat -> packets_of written sent -> relayed_carriers ops cid sent ->
    (forall p, In p recv -> In (p, cid) (surfaced (srun ops))) ->
    is_prefix (stream_of recv) written.
Proof. exact upstream_stream_prefix_multi_via_relay. Qed.

Theorem C01_downstream_stream_prefix_multi_carrier_via_relay :
  forall (packets_of : bytes -> list bytes -> Prop) (stream_of : list bytes -> bytes),
  (forall written sent recv, packets_of written sent -> (forall p, In p recv -> In p sent) ->
     is_prefix (stream_of recv) written) ->
  forall written sent cid ops recv,
    packets_of written sent ->
    (forall p, In (cid, p) (accepted (srun ops)) -> In p sent) ->
    (forall p, In p recv -> exists i k r0 w0 r1 w1 sched sc,
        nth_error (carriers (srun ops)) i = Some k /\ k_cid k = cid /\
        is_prefix (script_data r1) (k_wire k) /\
        In p (fst (read_stream (relay_to_client r0 w0 r1 w1 sched) sc))) ->
    is_prefix (stream_of recv) written.
Proof. exact downstream_stream_prefix_multi_via_relay. Qed.

Theorem C01_upstream_stream_prefix_multi_carrier_via_relay_toy_arq : forall conv written sent cid ops recv,
  length cid = 8%nat -> toy_packets_of conv written sent -> relayed_carriers ops cid sent ->
  (forall p, In p recv -> In (p, cid) (surfaced (srun ops))) ->
  is_prefix (toy_stream_of conv recv) written.
Proof.
  intros conv. exact (upstream_stream_prefix_multi_via_relay (toy_packets_of conv) (toy_stream_of conv) (toy_arq_safe conv)).
Qed.

(* non-vacuity: the two overlapping carriers of [c01_two_carriers], each behind its own relay run. Carrier 0's client
   hands its relay the token, the ClientID and the first bytes in one Read and the rest (with EOF) in a second; the relay's
   second Write to the server is short (3 of 4 bytes): the server was sent everything but the last byte. Carrier 1's relay
   forwards one Read whole. [relayed_carriers] holds of the schedule, and what surfaces is the session's two packets. *)
Example C01_relayed_carriers_example :
  let c1 := [1;2;3;4;5;6;7;8] in
  let sent := [[65;66;67]; [68;69]] in
  relayed_carriers c01_two_carriers c1 sent /\
  relay_to_server [mk_ritem (TOKEN ++ c1 ++ [131; 65; 66]) CNone; mk_ritem [67; 130; 68; 69] CEof] []
                  [] [w_ok; mk_witem (Some 3%nat) false] [Rel false; Rel false; Rel false; Rel false]
    = sent_on 0 c01_two_carriers /\
  map fst (filter (tagged c1) (surfaced (srun c01_two_carriers))) = [[65;66;67]; [68;69]].
Proof.
  cbn zeta. split; [|vm_compute; repeat split].
  intros i k Hk Hcid Hnp.
  destruct i as [|[|[|i]]].
  - exists [[65;66;67]; [68;69]], [131;65;66;67;130;68;69],
      [mk_ritem (TOKEN ++ [1;2;3;4;5;6;7;8] ++ [131; 65; 66]) CNone; mk_ritem [67; 130; 68; 69] CEof], [],
      [], [w_ok; mk_witem (Some 3%nat) false], [Rel false; Rel false; Rel false; Rel false].
    split; [reflexivity|]. split; [intros p H; exact H|]. split; exists []; vm_compute; reflexivity.
  - exists [[68;69]], [130;68;69], [mk_ritem (TOKEN ++ [1;2;3;4;5;6;7;8] ++ [130; 68; 69]) CNone], [], [], [], [Rel false; Rel false].
    split; [reflexivity|]. split; [intros p [<-|[]]; right; left; reflexivity|]. split; exists []; vm_compute; reflexivity.
  - exfalso. vm_compute in Hk. injection Hk as <-. vm_compute in Hcid. discriminate.
  - exfalso. vm_compute in Hk. destruct i; discriminate.
Qed.

(* ---------- liveness, one mechanism stated: the client's staleness watchdog ----------
   "provided some working proxy eventually becomes available" needs the client to GIVE UP a carrier that has gone
   silent without closing anything (proxy frozen, its WebSocket to the bridge black-holed): the only detector is
   WebRTCPeer.checkForStaleness (client/lib/webrtc.go), modelled over an explicit clock in Model/Staleness.v. What is
   proved is the clause at the granularity the rig's scenarios silent-at-open / silent-replacement exercise: the watchdog
   runs from the moment the data channel opens, so a proxy that is silent from its very first byte - NOTHING is ever
   received through it - is closed by the first watchdog turn later than [timeout] after the opening; in general later
   than [timeout] after the last message. The rest of the liveness chain (Peers collecting a replacement,
   RedialPacketConn dialling it, KCP retransmitting, kcp-go/smux keeping a session whose bridge-side stream was closed
   after writing until its bytes are acknowledged) stays with the rig (answer-then-close scenarios included). This small
   machine is not compared with the code by extraction (where the watchdog is started is decided inside connect() and
   pion's callbacks); its tie is the rig. *)
From Snow Require Import Model.Staleness Proofs.StalenessProofs.

Theorem C01_silent_peer_is_closed : forall timeout t0 T pre t post,
  t0 <= T -> recv_by T pre = true -> T + timeout < t ->
  w_closed (w_run (w_step timeout) (WOpen t0 :: pre ++ [WTick t] ++ post)) = true.
Proof. exact silent_peer_closed. Qed.

(* ... not because everything gets closed: while each watchdog turn finds the last message (or the opening) at most
   [timeout] old, the peer stays *)
Theorem C01_fresh_peer_is_kept : forall timeout t0 evs,
  fresh timeout t0 evs = true -> w_closed (w_run (w_step timeout) (WOpen t0 :: evs)) = false.
Proof. exact fresh_peer_not_closed. Qed.

(* the watchdog started by the first received message instead (seeded change C01-m7): a proxy silent from the start
   is never given up, however long one waits *)
Theorem C01_watchdog_started_by_first_message_refuted : forall timeout t0 ticks,
  w_closed (w_run (w_step_lazy timeout) (WOpen t0 :: map WTick ticks)) = false.
Proof. exact lazy_watchdog_refuted. Qed.

(* non-vacuity: timeout 20 s, watchdog turns every second (clock in ms). Opened at 1000 and never a message: closed by
   the turn at 22000, not before; one message at 5000: kept at 25000, closed at 26000. *)
Example C01_silent_peer_example :
  recv_by 1000 [WTick 2000; WTick 21000] = true /\
  w_closed (w_run (w_step 20000) (WOpen 1000 :: [WTick 2000; WTick 21000] ++ [WTick 22000] ++ [])) = true /\
  w_closed (w_run (w_step 20000) [WOpen 1000; WTick 2000; WTick 21000]) = false /\
  fresh 20000 1000 [WTick 2000; WRecv 5000; WTick 25000] = true /\
  w_closed (w_run (w_step 20000) [WOpen 1000; WTick 2000; WRecv 5000; WTick 25000; WTick 26000]) = true.
Proof. vm_compute. repeat split. Qed.
