(* C17 — Turbotunnel packet adapters: no surfaced errors, leaks or aliasing.
   Statements only; proofs are in Proofs/{GoHeap,ClientMap,QueueConn,QueueOut,QueueRetention,Redial,RedialOverlap,RedialCapacity}Proofs.v.
   Models: Model/GoHeap.v (container/heap), Model/ClientMap.v (clientMapInner, explicit clock),
   Model/QueueConn.v (QueuePacketConn), Model/Redial.v (RedialPacketConn; error channel capacity
   0 = the pinned code, 1 = the repaired code).

   OBSERVED, NOT PROVED: "without aliasing the caller's buffers".  Payloads are values in
   Model/QueueConn.v, so no theorem below can speak about who owns a slice.  The clause is checked on
   the Go code only: the drivers (harness/overlay/zz_verif/turbotunnel/{main,redial,sweep}.go)
   overwrite every buffer they passed to QueueIncoming / WriteTo as soon as the call returns, and
   once more at the end of the case, overwrite every slice they received from an outgoing queue and
   every buffer ReadFrom filled, and then compare what the connection hands out with these value
   models (lib/checks/c17.py: keys queueconn-fifo, sweep-lost, "!aliased-*" answers of the redial
   driver). *)
From Coq Require Import List NArith ZArith Bool Arith Lia Permutation.
From Snow Require Import Model.GoHeap Model.ClientMap Model.QueueConn Model.Redial Model.RedialQueue.
From Snow Require Import Proofs.GoHeapProofs Proofs.ClientMapProofs Proofs.QueueConnProofs Proofs.QueueOutProofs Proofs.QueueRetentionProofs Proofs.RedialProofs Proofs.RedialOverlapProofs Proofs.RedialCapacityProofs Proofs.SweeperLockProofs.
Import ListNotations.

(* ================================================================ container/heap (GoHeap.v) *)
Section Heap.
  Variable A : Type.
  Variable lessA : A -> A -> bool.
  Hypothesis less_irrefl : forall a, lessA a a = false.
  Hypothesis less_trans : forall a b c, lessA a b = true -> lessA b c = true -> lessA a c = true.
  Hypothesis less_negtrans : forall a b c, lessA a b = false -> lessA b c = false -> lessA a c = false.

  Theorem C17_goheap_push : forall l x,
    heap_ok A lessA l -> heap_ok A lessA (lpush lessA x l) /\ Permutation (lpush lessA x l) (x :: l).
  Proof. intros. split; [apply lpush_heap_ok; auto | apply lpush_perm]. Qed.

  Theorem C17_goheap_pop_min : forall l m, heap_ok A lessA l -> nth_error l 0 = Some m ->
    exists l', lpop lessA l = (l', Some m) /\ heap_ok A lessA l' /\ Permutation l (m :: l') /\
               (forall y, In y l -> lessA y m = false).
  Proof. exact (lpop_spec A lessA less_irrefl less_trans less_negtrans). Qed.

  Theorem C17_goheap_remove : forall l i x, heap_ok A lessA l -> nth_error l i = Some x ->
    exists l', lremove lessA l i = (l', Some x) /\ heap_ok A lessA l' /\ Permutation l (x :: l').
  Proof. exact (lremove_spec A lessA less_irrefl less_trans less_negtrans). Qed.

  Theorem C17_goheap_fix : forall l i x, heap_ok A lessA l -> i < length l ->
    heap_ok A lessA (lfix lessA (set_nth i x l) i) /\ Permutation (lfix lessA (set_nth i x l) i) (set_nth i x l).
  Proof. exact (lfix_spec A lessA less_irrefl less_trans less_negtrans). Qed.

  Theorem C17_goheap_init : forall l, heap_ok A lessA (linit lessA l) /\ Permutation (linit lessA l) l.
  Proof. exact (linit_spec A lessA less_irrefl less_trans less_negtrans). Qed.
End Heap.

Example C17_goheap_hyps_satisfiable :
  heap_ok Z Z.ltb [1; 3; 2]%Z /\ nth_error [1; 3; 2]%Z 0 = Some 1%Z /\ lpop Z.ltb [1; 3; 2]%Z = ([2; 3]%Z, Some 1%Z).
Proof.
  split; [|split; reflexivity].
  assert (I: forall a, Z.ltb a a = false) by (intros; apply Z.ltb_irrefl).
  assert (T: forall a b c, Z.ltb a b = true -> Z.ltb b c = true -> Z.ltb a c = true)
    by (intros a b c H1 H2; apply Z.ltb_lt in H1, H2; apply Z.ltb_lt; lia).
  assert (N: forall a b c, Z.ltb a b = false -> Z.ltb b c = false -> Z.ltb a c = false)
    by (intros a b c H1 H2; apply Z.ltb_ge in H1, H2; apply Z.ltb_ge; lia).
  assert (E: heap_ok Z Z.ltb []) by (intros p c a b _ H; destruct p; discriminate).
  change [1; 3; 2]%Z with (lpush Z.ltb 2%Z (lpush Z.ltb 3%Z (lpush Z.ltb 1%Z []))).
  repeat apply (lpush_heap_ok Z Z.ltb I T N). exact E.
Qed.

(* ================================================================ client map (ClientMap.v) *)

(* byAddr a = i <-> byAge[i].addr = a, after every sequence of SendQueue / removeExpired calls
   with arbitrary (also non-monotonic) clock readings *)
Theorem C17_heap_index_consistent : forall ops a i,
  let s := cm_run ops cm_empty in
  amap_get a (byAddr s) = Some i <-> exists r, nth_error (byAge s) i = Some r /\ c_addr r = a.
Proof. exact cm_index_consistent. Qed.

(* the two panics of clientmap.go are unreachable, and byAge is a heap by LastSeen *)
Theorem C17_clientmap_consistent : forall ops,
  let s := cm_run ops cm_empty in
  length (byAddr s) = length (byAge s) /\ NoDup (map c_addr (byAge s)) /\ heap_ok crec rec_less (byAge s).
Proof. exact cm_no_inconsistency. Qed.

(* a client seen within the timeout keeps its record: same queue (identity), same contents *)
Theorem C17_kept_while_seen : forall ops now timeout r,
  let s := cm_run ops cm_empty in
  In r (byAge s) -> (now - c_seen r < timeout)%Z -> In r (byAge (remove_expired now timeout s)).
Proof.
  intros ops now timeout r s Hin Hlt.
  pose proof (remove_expired_aux_spec (length (byAge s)) now timeout s (cm_run_inv ops cm_empty cm_inv_empty) (le_n _))
    as (_ & _ & _ & H4 & _).
  destruct (H4 r Hin) as [H|[H _]]; auto.
  unfold expired in H. rewrite Z.geb_leb in H. apply Z.leb_le in H. lia.
Qed.

(* a record disappears, or a queue is closed, only when now - last_seen >= timeout (the code's comparison) *)
Theorem C17_not_early : forall ops now timeout,
  let s := cm_run ops cm_empty in
  let s' := remove_expired now timeout s in
  (forall r, In r (byAge s) -> ~ In r (byAge s') -> (now - c_seen r >= timeout)%Z) /\
  (forall e, In e (dead s') -> ~ In e (dead s) ->
      exists r, In r (byAge s) /\ e = (c_qid r, c_q r) /\ (now - c_seen r >= timeout)%Z) /\
  (forall r, In r (byAge s') -> In r (byAge s)).
Proof.
  intros ops now timeout s s'.
  pose proof (remove_expired_aux_spec (length (byAge s)) now timeout s (cm_run_inv ops cm_empty cm_inv_empty) (le_n _))
    as (_ & _ & _ & H4 & H5 & _ & H7).
  assert (Hex: forall r, expired now timeout r = true -> (now - c_seen r >= timeout)%Z).
  { intros r H. unfold expired in H. rewrite Z.geb_leb in H. apply Z.leb_le in H. lia. }
  split; [|split]; auto.
  - intros r Hin Hout. destruct (H4 r Hin) as [H|[H _]]; [contradiction | auto].
  - intros e He Hn. destruct (H7 e He) as [H|(r & R1 & R2 & R3 & _)]; [contradiction|].
    exists r. auto.
Qed.

(* the next sweep after the full timeout discards the client and closes its queue *)
Theorem C17_removed_by_next_sweep : forall ops now timeout r,
  let s := cm_run ops cm_empty in
  let s' := remove_expired now timeout s in
  In r (byAge s) -> (now - c_seen r >= timeout)%Z ->
  (forall r', In r' (byAge s') -> c_addr r' <> c_addr r) /\ In (c_qid r, c_q r) (dead s').
Proof.
  intros ops now timeout r s s' Hin Hge.
  pose proof (remove_expired_aux_spec (length (byAge s)) now timeout s (cm_run_inv ops cm_empty cm_inv_empty) (le_n _))
    as (_ & _ & H3 & H4 & H5 & _).
  assert (Hexp: expired now timeout r = true).
  { unfold expired. rewrite Z.geb_leb. apply Z.leb_le. lia. }
  assert (Hout: ~ In r (byAge s')).
  { intro X. apply H3 in X. congruence. }
  split.
  - intros r' Hr' E. apply Hout.
    destruct (cm_no_inconsistency ops) as (_ & Hnd & _). fold s in Hnd.
    assert (r' = r); [|subst; auto].
    apply H5 in Hr'.
    clear - Hnd Hr' Hin E. induction (byAge s) as [|x l IH]; simpl in *; [tauto|].
    inversion Hnd; subst.
    match goal with Hn : ~ In (c_addr x) (map c_addr l) |- _ => rename Hn into Hnot end.
    destruct Hr' as [G1|G1], Hin as [G2|G2]; subst; auto.
    + exfalso. apply Hnot. rewrite E. apply in_map. auto.
    + exfalso. apply Hnot. rewrite <- E. apply in_map. auto.
  - destruct (H4 r Hin) as [H|[_ H]]; [contradiction | auto].
Qed.

(* sweeps every `period` (= timeout/2 in NewClientMap): some sweep falls in [timeout, timeout + period)
   after the client was last seen, i.e. removal within 1.5 timeouts nominally.  (Arithmetic only; the
   statement over the model of the sweeper goroutine is C17_ticker_idle_client_removal_window below.) *)
Theorem C17_sweep_within_timeout_plus_period : forall t0 period timeout last_seen : Z,
  (0 < period)%Z -> exists k : Z, (timeout <= t0 + k * period - last_seen < timeout + period)%Z.
Proof.
  intros t0 period timeout ls Hp.
  exists ((ls + timeout - t0 + period - 1) / period)%Z.
  pose proof (Z.div_mod (ls + timeout - t0 + period - 1) period ltac:(lia)).
  pose proof (Z.mod_pos_bound (ls + timeout - t0 + period - 1) period Hp).
  nia.
Qed.

Example C17_clientmap_hyps_satisfiable :
  let s := cm_run [CSend 1 0%Z; CSend 2 3%Z; CSend 1 5%Z] cm_empty in
  exists r, In r (byAge s) /\ c_addr r = 2%N /\ (12 - c_seen r < 10)%Z /\
  exists r1, In r1 (byAge s) /\ c_addr r1 = 1%N /\ (15 - c_seen r1 >= 10)%Z /\
  ~ In r (byAge (remove_expired 13 10 s)).
Proof.
  vm_compute. exists (mkrec 2 3 1 []). split; [auto|]. split; [auto|]. split; [reflexivity|].
  exists (mkrec 1 5 0 []). split; [auto|]. split; [auto|]. split; [discriminate|].
  intro H; simpl in H; intuition discriminate.
Qed.

(* ================================================================ queue connection (QueueConn.v) *)

(* incoming side: what ReadFrom returns is, in order, what QueueIncoming accepted (so also first-in
   first-out per client address); nothing accepted is lost or duplicated; payloads are the values
   that were passed in (truncated to the reader's buffer) *)
Theorem C17_queue_fifo_incoming : forall cap timeout ops,
  let '(s', outs) := qrun cap timeout ops qc_empty in
  exists delivered,
    accepted ops outs = delivered ++ recvq s' /\ Forall2 delivered_as delivered (reads ops outs).
Proof.
  intros cap timeout ops. pose proof (recv_fifo cap timeout ops qc_empty) as H.
  destruct (qrun cap timeout ops qc_empty) as [s' outs]. exact H.
Qed.

(* outgoing side: what OutgoingQueue(a) hands out is a prefix, in order, of what WriteTo(_, a)
   accepted; the rest is still queued (histories without sweeps and held receives; the statement for
   ARBITRARY histories is C17_queue_fifo_per_addr_any_history below) *)
Theorem C17_queue_fifo_per_addr : forall cap timeout ops a,
  forallb no_expiry ops = true ->
  let '(s', outs) := qrun cap timeout ops qc_empty in
  written a ops outs = received a ops outs ++ out_q (clients s') a.
Proof. exact outgoing_fifo_from_empty. Qed.

(* no operation waits: QueueIncoming / WriteTo enqueue at the tail, or drop when the queue is full
   (state otherwise unchanged); both queues stay within queueSize *)
Theorem C17_never_blocks : forall cap timeout ops,
  let s := fst (qrun cap timeout ops qc_empty) in
  length (recvq s) <= cap /\ (forall a, length (out_q (clients s) a) <= cap) /\
  (forall p a, qstep cap timeout s (QIncoming p a) =
      if negb (qclosed s) && (length (recvq s) <? cap)
      then (mkqc (recvq s ++ [(p, a)]) (clients s) (qclosed s), OIncoming true)
      else (s, OIncoming false)) /\
  (forall p a now, qclosed s = false ->
      let '(s', o) := qstep cap timeout s (QWrite p a now) in
      recvq s' = recvq s /\
      out_q (clients s') a = (if length (out_q (clients s) a) <? cap then out_q (clients s) a ++ [p] else out_q (clients s) a) /\
      (exists k, o = OWrote (length p) k (length (out_q (clients s) a) <? cap)) /\
      (forall b, b <> a -> out_q (clients s') b = out_q (clients s) b)).
Proof.
  intros cap timeout ops s.
  assert (Hinv: cm_inv (clients s)) by (apply qrun_inv; exact cm_inv_empty).
  split; [|split; [|split]].
  - apply QueueConnProofs.qrun_bound. simpl. lia.
  - intro a. apply outgoing_bounded; [exact cm_inv_empty | simpl; lia].
  - intros. apply qincoming_spec.
  - intros p a now Hc. pose proof (qwrite_out cap timeout s p a now Hinv Hc) as H.
    destruct (qstep cap timeout s (QWrite p a now)) as [s' o]. tauto.
Qed.

(* after Close every ReadFrom / WriteTo / Close fails and QueueIncoming drops, whatever is queued *)
Theorem C17_after_close_fail : forall cap timeout pre post,
  let '(s1, _) := qrun cap timeout (pre ++ [QClose]) qc_empty in
  let '(s2, rs) := qrun cap timeout post s1 in
  Forall2 fails_closed post rs /\ recvq s2 = recvq s1.
Proof. intros. apply after_close_fail. Qed.

Example C17_queue_hyps_satisfiable :
  snd (qrun 2 10%Z [QIncoming [1%N] 7%N; QIncoming [2%N] 8%N; QIncoming [3%N] 9%N; QRead 4; QWrite [5%N] 7%N 0%Z;
                    QOutRecv 7%N 1%Z; QClose; QRead 4; QWrite [6%N] 7%N 2%Z] qc_empty)
  = [OIncoming true; OIncoming true; OIncoming false; ORead [1%N] 7%N; OWrote 1 0 true;
     ORecv 0 (RcvPkt [5%N]); OCloseOk; OErrClosed; OErrClosed].
Proof. vm_compute. reflexivity. Qed.

(* ================================================================ outgoing queues, arbitrary histories
   (Proofs/QueueRetentionProofs.v).  A history is ANY list of operations: WriteTo (enqueue),
   OutgoingQueue + receive (dequeue), a receive on a channel obtained earlier (QHeldRecv), sweeps of
   the client map at arbitrary instants, QueueIncoming, ReadFrom, Close; clock readings are
   arbitrary integers (also non-monotonic).  [rec_of c a] is the record of address a: last seen,
   the identity of its queue, and the queue's contents in order. *)

(* the exact effect of every operation, after every history, on the record of every address
   ([rec_after]: WriteTo/OutgoingQueue refresh last-seen and keep the queue -- or make a fresh
   empty one when the address has none --, then enqueue at the tail unless full / dequeue at the
   head; a receive on a held channel dequeues from that queue only; a sweep removes the record iff
   now - last_seen >= timeout; everything else leaves it alone) and the answer it gives *)
Theorem C17_queue_step_per_addr : forall cap timeout ops o a,
  let s := fst (qrun cap timeout ops qc_empty) in
  rec_of (clients (fst (qstep cap timeout s o))) a =
    rec_after cap timeout a (next_qid (clients s)) (qclosed s) (rec_of (clients s) a) o /\
  (forall x, out_after cap a (next_qid (clients s)) (qclosed s) (rec_of (clients s) a) o = Some x ->
     snd (qstep cap timeout s o) = x).
Proof.
  intros cap timeout ops o a s.
  destruct (qstep_rec cap timeout s o a (proj1 (reach_inv cap timeout ops))) as (_ & H1 & H2). auto.
Qed.

(* a client seen within the timeout keeps its queue at a sweep: the same queue (identity), the same
   last-seen, THE SAME CONTENTS IN THE SAME ORDER, and the queue is not closed *)
Theorem C17_queue_kept_with_contents : forall cap timeout ops now a r,
  let s := fst (qrun cap timeout ops qc_empty) in
  let s' := fst (qstep cap timeout s (QSweep now)) in
  rec_of (clients s) a = Some r -> (now - c_seen r < timeout)%Z ->
  rec_of (clients s') a = Some r /\ out_q (clients s') a = c_q r /\
  ~ In (c_qid r) (map fst (dead (clients s'))).
Proof.
  intros cap timeout ops now a r s s'. destruct (reach_inv cap timeout ops) as [H1 H2].
  apply (sweep_kept cap timeout s now a r); auto.
Qed.

(* BEING WRITTEN TO COUNTS AS BEING SEEN.  After any history, on an open connection: a client that has a queue and is
   written to at now1 -- whenever its queue was last fetched, e.g. never since, because the client is between two
   carriers -- keeps THE SAME queue (identity), with the packet at its tail when there was room, not closed, at every
   sweep earlier than now1 + timeout.  (WriteTo refreshes last-seen exactly as OutgoingQueue does.) *)
Theorem C17_written_client_kept_at_sweep : forall cap timeout ops a r p now1 now2,
  let s := fst (qrun cap timeout ops qc_empty) in
  let s1 := fst (qstep cap timeout s (QWrite p a now1)) in
  let s2 := fst (qstep cap timeout s1 (QSweep now2)) in
  qclosed s = false -> rec_of (clients s) a = Some r -> (now2 - now1 < timeout)%Z ->
  let q' := if length (c_q r) <? cap then c_q r ++ [p] else c_q r in
  rec_of (clients s2) a = Some (mkrec (c_addr r) now1 (c_qid r) q') /\ out_q (clients s2) a = q' /\
  ~ In (c_qid r) (map fst (dead (clients s2))).
Proof.
  intros cap timeout ops a r p now1 now2 s s1 s2 Hopen Hrec Hlt q'.
  pose proof (C17_queue_step_per_addr cap timeout ops (QWrite p a now1) a) as [Hstep _].
  fold s in Hstep. fold s1 in Hstep. unfold rec_after in Hstep. rewrite Hopen, N.eqb_refl, Hrec in Hstep.
  cbn [touch_rec] in Hstep.
  assert (Hr1 : rec_of (clients s1) a = Some (mkrec (c_addr r) now1 (c_qid r) q')).
  { rewrite Hstep. unfold q', set_q, set_seen. cbn [c_q c_addr c_seen c_qid].
    destruct (length (c_q r) <? cap); reflexivity. }
  assert (Hs1 : s1 = fst (qrun cap timeout (ops ++ [QWrite p a now1]) qc_empty)).
  { rewrite qrun_app. fold s. unfold s1. cbn [qrun]. destruct (qstep cap timeout s (QWrite p a now1)). reflexivity. }
  pose proof (C17_queue_kept_with_contents cap timeout (ops ++ [QWrite p a now1]) now2 a
                (mkrec (c_addr r) now1 (c_qid r) q')) as Hk.
  cbv zeta in Hk. rewrite <- Hs1 in Hk. fold s2 in Hk. apply Hk; [exact Hr1 | exact Hlt].
Qed.

Example C17_written_client_kept_at_sweep_witness :
  let s := fst (qrun 4 10%Z [QOutRecv 7%N 0%Z] qc_empty) in
  qclosed s = false /\ rec_of (clients s) 7%N = Some (mkrec 7%N 0%Z 0 []) /\
  rec_of (clients (fst (qstep 4 10%Z (fst (qstep 4 10%Z s (QWrite [1%N] 7%N 9%Z))) (QSweep 15%Z)))) 7%N
    = Some (mkrec 7%N 9%Z 0 [[1%N]]).
Proof. vm_compute. repeat split; reflexivity. Qed.

(* a sweep removes a record, or closes a queue, only when now - last_seen >= timeout (the code's
   comparison); a record that is not kept unchanged is removed; a sweep creates or alters nothing *)
Theorem C17_queue_not_removed_early : forall cap timeout ops now,
  let s := fst (qrun cap timeout ops qc_empty) in
  let s' := fst (qstep cap timeout s (QSweep now)) in
  (forall a r, rec_of (clients s) a = Some r -> rec_of (clients s') a <> Some r ->
     (now - c_seen r >= timeout)%Z /\ rec_of (clients s') a = None) /\
  (forall e, In e (dead (clients s')) -> ~ In e (dead (clients s)) ->
     exists r, rec_of (clients s) (c_addr r) = Some r /\ e = (c_qid r, c_q r) /\ (now - c_seen r >= timeout)%Z) /\
  (forall a r, rec_of (clients s') a = Some r -> rec_of (clients s) a = Some r).
Proof.
  intros cap timeout ops now s s'. apply (sweep_not_early cap timeout s now). apply (proj1 (reach_inv cap timeout ops)).
Qed.

(* the first sweep at or after last_seen + timeout removes the client and closes its queue; the
   packets still queued stay in the closed channel (the pair in [dead]) and no live queue has that
   identity any more: they are dropped with the queue *)
Theorem C17_queue_removed_by_next_sweep : forall cap timeout ops now a r,
  let s := fst (qrun cap timeout ops qc_empty) in
  let s' := fst (qstep cap timeout s (QSweep now)) in
  rec_of (clients s) a = Some r -> (now - c_seen r >= timeout)%Z ->
  rec_of (clients s') a = None /\ out_q (clients s') a = [] /\
  In (c_qid r, c_q r) (dead (clients s')) /\
  (forall r', In r' (byAge (clients s')) -> c_qid r' <> c_qid r).
Proof.
  intros cap timeout ops now a r s s'. apply (sweep_removed cap timeout s now a r). apply (proj1 (reach_inv cap timeout ops)).
Qed.

(* ... and when the address is used again it gets a NEW queue: identity greater than that of every
   queue ever made (open or closed), empty *)
Theorem C17_new_queue_after_expiry_is_fresh : forall cap timeout ops a now,
  let s := fst (qrun cap timeout ops qc_empty) in
  rec_of (clients s) a = None ->
  let c' := fst (send_queue a now (clients s)) in
  let k := snd (send_queue a now (clients s)) in
  rec_of c' a = Some (mkrec a now k []) /\ k = next_qid (clients s) /\
  (forall r, In r (byAge (clients s)) -> c_qid r < k) /\ (forall e, In e (dead (clients s)) -> fst e < k).
Proof.
  intros cap timeout ops a now s Hnone. destruct (reach_inv cap timeout ops) as [H1 H2].
  apply new_queue_fresh; auto.
Qed.

(* non-vacuity, with non-empty queues: client 7 (seen at 5, one packet left after a receive) is kept by
   the sweep at 14 with its packet; client 8 (seen at 4, one packet) is removed and its queue closed
   with the packet in it; timeout 10 *)
Example C17_retention_hyps_satisfiable :
  let ops := [QWrite [1%N] 7%N 0%Z; QWrite [2%N] 7%N 1%Z; QWrite [9%N] 8%N 4%Z; QOutRecv 7%N 5%Z] in
  let s := fst (qrun 4 10%Z ops qc_empty) in
  let s' := fst (qstep 4 10%Z s (QSweep 14%Z)) in
  rec_of (clients s) 7%N = Some (mkrec 7 5 0 [[2%N]]) /\ (14 - 5 < 10)%Z /\
  rec_of (clients s) 8%N = Some (mkrec 8 4 1 [[9%N]]) /\ (14 - 4 >= 10)%Z /\
  rec_of (clients s') 7%N = Some (mkrec 7 5 0 [[2%N]]) /\ rec_of (clients s') 8%N = None /\
  dead (clients s') = [(1, [[9%N]])] /\
  rec_of (clients (fst (qstep 4 10%Z s' (QSweep 15%Z)))) 7%N = None /\
  snd (send_queue 8%N 20%Z (clients s')) = 2.
Proof. vm_compute. repeat split; try reflexivity; discriminate. Qed.

(* FIRST-IN-FIRST-OUT PER ADDRESS OVER ARBITRARY HISTORIES (sweeps, held receives, Close included).
   [ep_run] is bookkeeping over the observable trace only (Proofs/QueueRetentionProofs.v): for
   address a it keeps, SINCE a's QUEUE WAS (RE)CREATED, e_w = the packets WriteTo(_, a) enqueued
   (drops at capacity are the writes answered `accepted = false`; C17_never_blocks says when) and
   e_r = the packets receivers of that queue took (through OutgoingQueue(a) or a held reference
   to the same queue), e_seen = the clock reading of the last WriteTo/OutgoingQueue for a; a sweep
   at `now` ends the bookkeeping iff now - e_seen >= timeout, every other sweep leaves it alone.
   Then, after every history:
   - if the bookkeeping has an open epoch, a has a queue, it is the one created at the start of
     the epoch (same identity all along, so across every sweep that did not expire a), last seen
     at e_seen, and written = received ++ still queued: what receivers got is, in order, exactly a
     prefix of what was accepted since the queue was created, the rest is still queued in order;
   - otherwise a has no queue.  What was queued when a WAS expired is therefore not delivered to
     any later receiver of OutgoingQueue(a): it went with the closed queue
     (C17_queue_removed_by_next_sweep), and the next epoch starts from an empty fresh queue
     (C17_new_queue_after_expiry_is_fresh). *)
Theorem C17_queue_fifo_per_addr_any_history : forall cap timeout ops a,
  let '(s', outs) := qrun cap timeout ops qc_empty in
  match ep_run timeout a None ops outs with
  | None => rec_of (clients s') a = None /\ out_q (clients s') a = []
  | Some e => exists r, rec_of (clients s') a = Some r /\ c_seen r = e_seen e /\ c_qid r = e_qid e /\
                        e_w e = e_r e ++ out_q (clients s') a
  end.
Proof. exact epoch_fifo_from_empty. Qed.

(* non-vacuity: writes, a sweep that keeps the client (12 - 3 < 10), a receive through OutgoingQueue, a
   held receive on the same queue, a full queue (cap 3) dropping a write; then an expiry (30 - 13 >= 10)
   with one packet still queued, a held receive draining the closed queue, and a new epoch in which only
   what was written after the expiry is delivered *)
Example C17_fifo_any_history_satisfiable :
  let ops1 := [QWrite [1%N] 7%N 0%Z; QWrite [2%N] 7%N 3%Z; QSweep 12%Z; QOutRecv 7%N 13%Z; QWrite [3%N] 7%N 13%Z;
               QWrite [4%N] 7%N 13%Z; QWrite [5%N] 7%N 13%Z; QHeldRecv 0; QSweep 22%Z] in
  let ops2 := ops1 ++ [QSweep 30%Z; QHeldRecv 0; QWrite [6%N] 7%N 31%Z; QOutRecv 7%N 32%Z] in
  ep_run 10%Z 7%N None ops1 (snd (qrun 3 10%Z ops1 qc_empty)) = Some (mkep 13 0 [[1%N]; [2%N]; [3%N]; [4%N]] [[1%N]; [2%N]]) /\
  out_q (clients (fst (qrun 3 10%Z ops1 qc_empty))) 7%N = [[3%N]; [4%N]] /\
  snd (qrun 3 10%Z ops2 qc_empty) =
    [OWrote 1 0 true; OWrote 1 0 true; ONone; ORecv 0 (RcvPkt [1%N]); OWrote 1 0 true; OWrote 1 0 true; OWrote 1 0 false;
     ORecv 0 (RcvPkt [2%N]); ONone; ONone; ORecv 0 (RcvPkt [3%N]); OWrote 1 1 true; ORecv 1 (RcvPkt [6%N])] /\
  ep_run 10%Z 7%N None ops2 (snd (qrun 3 10%Z ops2 qc_empty)) = Some (mkep 32 1 [[6%N]] [[6%N]]) /\
  dead (clients (fst (qrun 3 10%Z ops2 qc_empty))) = [(0, [[4%N]])].
Proof. vm_compute. repeat split; reflexivity. Qed.

(* ---------------------------------------------------------------- the sweeper goroutine of NewClientMap
   for { time.Sleep(period); removeExpired(time.Now(), timeout) } with period = timeout/2, idealised:
   the k-th sweep happens at phase + k*period (k = 1, 2, ...; ANY phase).  [ticked phase period 0 segs]
   is the history in which the i-th segment of (arbitrary) operations is followed by the i-th sweep. *)

(* a client whose record r exists after `length pre` sweeps and was not yet due at the last of them,
   and that is idle from then on (no WriteTo/OutgoingQueue for it, no receive on its queue; anything
   else may happen): there is an n >= 1 -- the first sweep at or after last_seen + timeout, and that
   sweep comes BEFORE last_seen + timeout + period (= 1.5 timeouts for period = timeout/2) -- such that
   after fewer than n further sweeps the client still has the same queue with the same contents (never
   discarded before it has been idle for the full timeout), and after n or more it is gone and its
   queue is closed *)
Theorem C17_ticker_idle_client_removal_window : forall cap timeout phase period pre a r,
  (0 < period)%Z ->
  let k0 := length pre in
  let s := fst (qrun cap timeout (ticked phase period 0 pre) qc_empty) in
  rec_of (clients s) a = Some r ->
  (tick phase period k0 < c_seen r + timeout)%Z ->
  exists n, 1 <= n /\
    (c_seen r + timeout <= tick phase period (k0 + n) < c_seen r + timeout + period)%Z /\
    forall segs, Forall (fun seg => forallb (idle_op a (c_qid r)) seg = true) segs ->
      let s' := fst (qrun cap timeout (ticked phase period 0 (pre ++ segs)) qc_empty) in
      (length segs < n -> rec_of (clients s') a = Some r /\ out_q (clients s') a = c_q r) /\
      (n <= length segs -> rec_of (clients s') a = None /\ In (c_qid r) (map fst (dead (clients s')))).
Proof. exact ticker_idle_client. Qed.

(* non-vacuity: timeout 10, period 5, phase 1 (sweeps at 6, 11, 16, ...); client 7 written at 3 with
   one packet, kept by the sweeps at 6 and 11 (while client 8 is busy), gone at 16 < 3 + 10 + 5 *)
Example C17_ticker_hyps_satisfiable :
  let pre := [[QWrite [1%N] 7%N 3%Z]] in
  let s := fst (qrun 4 10%Z (ticked 1 5 0 pre) qc_empty) in
  let r := mkrec 7 3 0 [[1%N]] in
  rec_of (clients s) 7%N = Some r /\ (tick 1 5 (length pre) < c_seen r + 10)%Z /\
  let segs := [[QWrite [2%N] 8%N 7%Z; QHeldRecv 1]; [QOutRecv 8%N 12%Z]] in
  Forall (fun seg => forallb (idle_op 7%N (c_qid r)) seg = true) segs /\
  rec_of (clients (fst (qrun 4 10%Z (ticked 1 5 0 (pre ++ [[QWrite [2%N] 8%N 7%Z; QHeldRecv 1]])) qc_empty))) 7%N = Some r /\
  rec_of (clients (fst (qrun 4 10%Z (ticked 1 5 0 (pre ++ segs)) qc_empty))) 7%N = None /\
  (3 + 10 <= tick 1 5 (1 + 2) < 3 + 10 + 5)%Z.
Proof.
  vm_compute. split; [reflexivity|]. split; [reflexivity|]. split; [repeat constructor|].
  split; [reflexivity|]. split; [reflexivity|]. split; [discriminate | reflexivity].
Qed.

(* ================================================================ redialing connection (Redial.v) *)
(* `reachable ecap qcap s`: s is reached from the initial state by some trace of the interleaving
   machine (any schedule of the dial loop and the reader/writer goroutines of every carrier, any
   carrier behaviour, any user calls).  ecap = capacity of readErrCh/writeErrCh: 0 = pinned code,
   1 = proposed-fixes/C17-redial-goroutine-leak.diff. *)

(* a user call reports an error only after Close or after dialContext failed (both code versions) *)
Theorem C17_redial_errors_only_after_close_or_dial_failure :
  forall ecap qcap s l e, reachable ecap qcap s -> user_result s l = UErr e ->
    (g_close_called s = true \/ g_dial_failed s = true) /\ e = r_err s /\ e <> ENone /\ r_closed s = true.
Proof. exact redial_errors_only_after_close_or_dial_failure. Qed.

(* at most one carrier is open, and it is the one the dial loop is serving *)
Theorem C17_one_active_carrier :
  forall ecap qcap s, reachable ecap qcap s ->
    (forall k c, nth_error (r_cs s) k = Some c -> c_closed c = false -> r_d s = DExch k \/ r_d s = DClose k) /\
    (forall k1 k2 c1 c2, nth_error (r_cs s) k1 = Some c1 -> nth_error (r_cs s) k2 = Some c2 ->
       c_closed c1 = false -> c_closed c2 = false -> k1 = k2).
Proof.
  intros ecap qcap s H. split.
  - intros. eapply redial_one_active_carrier; eauto.
  - intros. eapply redial_at_most_one_open; eauto.
Qed.

(* "closed" = conn.Close() has RETURNED in the dial loop.  The close count of a carrier changes in one
   step only, LDCloseCarrier: a step of the dial loop itself, taken after exchange returned (DClose k)
   and before the loop goes round (DTop) -- never by another thread, never at another moment.  A
   Close() that takes long is that step scheduled late.  (A loop that closes the finished carrier
   with `go conn.Close()` is not this machine; the driver's carriers whose Close blocks until the
   script releases it tie this reading to the code: "turbotunnel redials", observable oad.) *)
Theorem C17_close_is_dial_loop_step :
  forall ecap qcap s l s' k c c', step ecap qcap s l = Some s' ->
    nth_error (r_cs s) k = Some c -> nth_error (r_cs s') k = Some c' -> c_nclose c' <> c_nclose c ->
    l = LDCloseCarrier /\ r_d s = DClose k /\ r_d s' = DTop /\ c_nclose c' = S (c_nclose c).
Proof. exact redial_close_is_dial_loop_step. Qed.

(* at the moment dialContext hands out a carrier (any schedule, any behaviour of the carriers, however
   long their Close takes) every carrier obtained earlier is closed -- the number of carriers open at a
   dial is 0 -- and afterwards the new carrier is the only open one *)
Theorem C17_no_open_carrier_at_dial :
  forall ecap qcap s s', reachable ecap qcap s -> step ecap qcap s LDialOk = Some s' ->
    (forall k c, nth_error (r_cs s) k = Some c -> c_closed c = true) /\
    (exists c', nth_error (r_cs s') (length (r_cs s)) = Some c' /\ c_closed c' = false) /\
    (forall k c, nth_error (r_cs s') k = Some c -> c_closed c = false -> k = length (r_cs s)).
Proof. exact redial_no_open_carrier_at_dial. Qed.

(* hypotheses are satisfiable: a second dial after a redial, with the first carrier closed *)
Example C17_dial_after_redial_satisfiable :
  exists s s' c, reachable 1 8 s /\ step 1 8 s LDialOk = Some s' /\
                 nth_error (r_cs s) 0 = Some c /\ c_nclose c = 1 /\ length (r_cs s') = 2.
Proof.
  exists (mkrs false ENone DDial [mkcar RDone WSel (mkch 0 true) ch_new 1] 0 0 false false).
  eexists. exists (mkcar RDone WSel (mkch 0 true) ch_new 1).
  split; [exists [LDTop; LDialOk; LRTopDefault 0; LReadFail 0; LRSendBuf 0; LDRecvR; LDCloseCarrier; LDTop];
          vm_compute; reflexivity|].
  split; [vm_compute; reflexivity|]. split; [reflexivity|]. split; reflexivity.
Qed.

(* every carrier obtained is closed exactly once: never twice, and whenever the dial loop is not
   serving a carrier (in particular when it has returned) every carrier is closed *)
Theorem C17_every_carrier_closed :
  forall ecap qcap s, reachable ecap qcap s ->
    (forall k c, nth_error (r_cs s) k = Some c -> c_nclose c <= 1) /\
    ((r_d s = DDone \/ r_d s = DTop \/ r_d s = DDial) ->
       forall k c, nth_error (r_cs s) k = Some c -> c_closed c = true).
Proof.
  intros ecap qcap s H. split.
  - intros. eapply redial_closed_once; eauto.
  - intros. eapply redial_done_all_closed; eauto.
Qed.

(* repaired code: no goroutine is retained per redial or after Close, under every schedule.
   (1) a goroutine of a closed carrier is never blocked, (2) each of its steps lowers its rank
   (<= 3), so it terminates within 3 own steps; (3) once closed, every non-user step lowers mu, and
   (4) when nothing but user calls can happen, no goroutine is left and every carrier is closed *)
Theorem C17_no_thread_left :
  forall qcap s, reachable 1 qcap s ->
    (forall k c, nth_error (r_cs s) k = Some c -> c_closed c = true ->
       (c_r c = RDone \/ exists l, In l (r_labels k ++ [LReadFail k]) /\ enabled 1 qcap s l = true) /\
       (c_w c = WDone \/ exists l, In l (w_labels k ++ [LWriteFail k]) /\ enabled 1 qcap s l = true)) /\
    (forall k c l s' c', nth_error (r_cs s) k = Some c -> c_closed c = true ->
       step 1 qcap s l = Some s' -> nth_error (r_cs s') k = Some c' ->
       rrank (c_r c') <= rrank (c_r c) /\ wrank (c_w c') <= wrank (c_w c) /\
       (In l (r_labels k ++ [LReadFail k; LReadOk k]) -> rrank (c_r c') < rrank (c_r c)) /\
       (In l (w_labels k ++ [LWriteFail k; LWriteOk k]) -> wrank (c_w c') < wrank (c_w c))) /\
    (r_closed s = true -> forall l s', user_label l = false -> step 1 qcap s l = Some s' -> mu s' < mu s) /\
    (r_closed s = true -> (forall l, user_label l = false -> step 1 qcap s l = None) ->
       threads_left s = 0 /\ r_d s = DDone /\
       (forall k c, nth_error (r_cs s) k = Some c -> c_closed c = true /\ c_r c = RDone /\ c_w c = WDone)).
Proof.
  intros qcap s H. split; [|split; [|split]].
  - intros. eapply redial_v1_closed_carrier_threads_enabled; eauto.
  - intros. eapply redial_v1_closed_carrier_rank_decreases; eauto.
  - intros. eapply redial_v1_closed_measure_decreases; eauto.
  - intros. eapply redial_v1_no_thread_left; eauto.
Qed.

(* pinned code (unbuffered error channels): the writer's carrier write fails first, exchange returns,
   the carrier is closed, the reader's read fails and the reader blocks for ever on readErrCh *)
Theorem C17_v0_refuted_leak :
  forall qcap, 0 < qcap -> exists tr s c,
    run_trace 0 qcap tr rs_init = Some s /\ r_closed s = true /\ r_d s = DDone /\
    nth_error (r_cs s) 0 = Some c /\ c_closed c = true /\ c_r c = RSend /\ c_w c = WDone /\
    (forall l s', step 0 qcap s l = Some s' -> s' = s).
Proof. exact redial_v0_refuted_leak. Qed.

(* hypotheses are satisfiable: the same schedule on the repaired code ends clean *)
Example C17_redial_hyps_satisfiable :
  exists s, reachable 1 8 s /\ r_closed s = true /\ r_d s = DDone /\ threads_left s = 0 /\
            exists c, nth_error (r_cs s) 0 = Some c /\ c_closed c = true.
Proof.
  destruct (redial_v1_same_trace_clean 8 ltac:(lia)) as (s & Hrun & Hc & Hd & Ht).
  exists s. split; [eexists; exact Hrun|]. split; auto. split; auto. split; auto.
  destruct (r_cs s) as [|c cs] eqn:E.
  - exfalso. revert Hrun. vm_compute. intro X. inversion X. subst. discriminate.
  - exists c. split; auto.
    assert (R: reachable 1 8 s) by (eexists; exact Hrun).
    apply (redial_done_all_closed 1 8 s R (or_introl Hd) 0 c). rewrite E. reflexivity.
Qed.

(* ================================================================ the redialing connection at the capacity of its queues
   qcap = queueSize (2048 in the code) is a parameter of the machine: LUWrite / LReadOk enqueue only while
   the counter is below qcap and otherwise leave the state as it is (select ... default: drop). *)

(* after ANY history - any number of writes, any schedule, any behaviour of the carriers - in which the
   user has not called Close and no dial has failed: WriteTo answers (len, nil), also when the send queue
   is full, in which case NOTHING changes (the packet is dropped and nothing is signalled); ReadFrom
   returns a packet or blocks; both queues hold at most qcap packets *)
Theorem C17_redial_write_never_errors_before_close_or_dial_failure :
  forall ecap qcap tr s, run_trace ecap qcap tr rs_init = Some s ->
    g_close_called s = false -> g_dial_failed s = false ->
    user_result s LUWrite = UOk /\
    (user_result s LURead = UPacket \/ user_result s LURead = UWouldBlock) /\
    r_sendq s <= qcap /\ r_recvq s <= qcap /\
    exists s', step ecap qcap s LUWrite = Some s' /\
      r_closed s' = false /\ g_close_called s' = false /\ g_dial_failed s' = false /\
      (r_sendq s < qcap -> r_sendq s' = S (r_sendq s)) /\
      (r_sendq s = qcap -> s' = s).
Proof. exact redial_write_never_errors_before_close_or_dial_failure. Qed.

(* the hypotheses are satisfiable at and beyond the capacity, for every n: n writes while nothing drains
   the queue (the first dial has not returned) leave min n qcap packets queued, the connection open and
   the next write answered ok - the 2049th outstanding packet included *)
Theorem C17_redial_writes_fill_then_drop : forall ecap qcap n,
  exists s, run_trace ecap qcap (repeat LUWrite n) rs_init = Some s /\
    r_sendq s = Nat.min n qcap /\ g_close_called s = false /\ g_dial_failed s = false /\
    user_result s LUWrite = UOk.
Proof. exact redial_writes_fill_then_drop. Qed.

(* ... and with an active carrier whose WriteTo does not return (one packet with the carrier, qcap queued) *)
Example C17_redial_capacity_with_blocked_carrier :
  exists s, run_trace 1 3 ([LDTop; LDialOk; LUWrite; LWSelPkt 0] ++ repeat LUWrite 6) rs_init = Some s /\
    r_sendq s = 3 /\ g_close_called s = false /\ g_dial_failed s = false /\
    user_result s LUWrite = UOk /\ step 1 3 s LUWrite = Some s.
Proof. exact capacity_with_blocked_carrier. Qed.

Theorem C17_redial_queues_bounded : forall ecap qcap s,
  reachable ecap qcap s -> r_sendq s <= qcap /\ r_recvq s <= qcap.
Proof. exact redial_queues_bounded. Qed.

(* contents (Model/RedialQueue.v): a queue that accepts while it holds fewer than cap packets and drops
   otherwise hands out, in order, exactly what it accepted: taken ++ left = initially queued ++ accepted,
   for every sequence of enqueue / dequeue operations, and never holds more than cap *)
Theorem C17_redial_queue_fifo_of_accepted : forall (A : Type) (cap : nat) (ops : list (bop A)) (q : list A),
  let '(out, acc, q') := bq_exec A cap ops q in out ++ q' = q ++ acc.
Proof. exact bq_fifo. Qed.

Theorem C17_redial_queue_bounded : forall (A : Type) (cap : nat) (ops : list (bop A)) (q : list A),
  length q <= cap -> let '(_, _, q') := bq_exec A cap ops q in length q' <= cap.
Proof. exact bq_bounded. Qed.

Example C17_redial_queue_hyps_satisfiable :
  bq_exec nat 2 [BPush nat 1; BPush nat 2; BPush nat 3; BPop nat; BPush nat 4; BPop nat; BPop nat; BPop nat] [] = ([1; 2; 4], [1; 2; 4], []).
Proof. reflexivity. Qed.

(* these contents are the machine's queues: along every step of the machine of Model/Redial.v the lengths of
   the content queues (ghost_send: enqueue at LUWrite, dequeue at LWSelPkt; ghost_recv: enqueue at LReadOk,
   dequeue at LURead) are its counters r_sendq / r_recvq *)
Theorem C17_redial_contents_refine_counters :
  forall (A : Type) ecap qcap s l s' (sq rq : list A) (x : A),
    step ecap qcap s l = Some s' -> r_sendq s = length sq -> r_recvq s = length rq ->
    r_sendq s' = length (ghost_send A qcap s l sq x) /\ r_recvq s' = length (ghost_recv A qcap s l rq x).
Proof. exact redial_contents_refine_counters. Qed.

Example C17_redial_contents_hyps_satisfiable :
  step 1 2 (mkrs false ENone DDial [] 2 0 false false) LUWrite = Some (mkrs false ENone DDial [] 2 0 false false) /\
  ghost_send nat 2 (mkrs false ENone DDial [] 2 0 false false) LUWrite [7; 8] 9 = [7; 8].
Proof. split; reflexivity. Qed.

(* ---------------------------------------------------------------- the sweeper and the map's lock (Proofs/SweeperLockProofs.v)
   The sweeper takes m.lock for every sweep.  When another goroutine is inside a critical section at a tick, a sweeper that
   WAITS performs that sweep d later (0 <= d <= D); the removal window of C17_ticker_idle_client_removal_window widens by D
   and nothing else changes: the idle client is kept by every sweep before last_seen + timeout, gone after the sweep of the
   first tick at or after it, and that sweep happens before last_seen + timeout + period + D.  Tie: op `sweephold` (in-package,
   real sweeper, the driver holds m.lock around every tick) and the busy-map monitor. *)
Theorem C17_sweeper_waiting_for_lock_removes : forall cap timeout phase period D k0 segs s a r,
  (0 < period)%Z -> cm_inv (clients s) -> rec_of (clients s) a = Some r ->
  Forall (fun x => forallb (idle_op a (c_qid r)) (fst x) = true) segs ->
  Forall (fun x => (0 <= snd x <= D)%Z) segs ->
  (tick phase period k0 < c_seen r + timeout)%Z ->
  exists n, 1 <= n /\
    (c_seen r + timeout <= tick phase period (k0 + n) < c_seen r + timeout + period)%Z /\
    let s' := fst (qrun cap timeout (swept (with_delayed_ticks phase period k0 segs)) s) in
    (n <= length segs ->
       rec_of (clients s') a = None /\ In (c_qid r) (map fst (dead (clients s'))) /\
       exists seg d, nth_error segs (n - 1) = Some (seg, d) /\
                     (c_seen r + timeout <= tick phase period (k0 + n) + d < c_seen r + timeout + period + D)%Z) /\
    (Forall (fun x => (snd x < c_seen r + timeout)%Z) (with_delayed_ticks phase period k0 segs) ->
       rec_of (clients s') a = Some r).
Proof. exact delayed_sweeper_removes. Qed.

(* A sweeper that gives its round up when the lock is busy (TryLock) sweeps nothing at such a tick: with the lock busy at every
   tick the idle client keeps its record and its queue for ever - there is no removal bound at all (seed C17-m14). *)
Theorem C17_sweeper_skipping_rounds_refuted : forall cap timeout (rounds : list (list qop)) s a r,
  cm_inv (clients s) -> rec_of (clients s) a = Some r ->
  Forall (fun seg => forallb (idle_op a (c_qid r)) seg = true) rounds ->
  rec_of (clients (fst (qrun cap timeout (concat rounds) s))) a = Some r.
Proof. exact skipping_sweeper_never_removes. Qed.

(* non-vacuity: timeout 10, period 5, phase 1; client 7 written at 3; the sweeps of ticks 6, 11, 16 delayed by 2, 0, 3 (D = 3):
   kept at 8 and 11, gone at 19 < 3 + 10 + 5 + 3 *)
Example C17_sweeper_waiting_example :
  let s := fst (qrun 4 10%Z [QWrite [1%N] 7%N 3%Z] qc_empty) in
  let r := mkrec 7 3 0 [[1%N]] in
  let segs := [([QWrite [2%N] 8%N 7%Z], 2%Z); ([], 0%Z); ([QOutRecv 8%N 12%Z], 3%Z)] in
  rec_of (clients s) 7%N = Some r /\
  with_delayed_ticks 1 5 0 segs = [([QWrite [2%N] 8%N 7%Z], 8%Z); ([], 11%Z); ([QOutRecv 8%N 12%Z], 19%Z)] /\
  rec_of (clients (fst (qrun 4 10%Z (swept (with_delayed_ticks 1 5 0 (firstn 2 segs))) s))) 7%N = Some r /\
  rec_of (clients (fst (qrun 4 10%Z (swept (with_delayed_ticks 1 5 0 segs)) s))) 7%N = None.
Proof. vm_compute. repeat split; reflexivity. Qed.
