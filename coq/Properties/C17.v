(* C17 theorems: filled in below *)
From Snow Require Import Model.GoHeap Model.ClientMap Model.QueueConn Model.Redial.
