(* AmpPath.v — executable model of common/amp/path.go (EncodePath / DecodePath).
   Executable definitions only. *)
From Coq Require Import List NArith Bool Arith.
From Snow Require Import Lib.Wire Model.B64Url.
Import ListNotations.
Open Scope N_scope.

Definition SLASH : N := 47.
Definition ZERO_CH : N := 48.   (* the "0" format indicator *)

Inductive path_err := MissingFormat | UnknownFormat | MissingData | BadBase64.
Inductive path_res := POk (d : bytes) | PErr (e : path_err).

(* "0" ++ pad ++ "/" ++ b64url(data) for a literal padding string *)
Definition encode_path_with_pad (pad data : bytes) : bytes :=
  ZERO_CH :: pad ++ SLASH :: u_encode data.

(* EncodePath with the 9 cache-breaker bytes made explicit (crypto/rand in the code) *)
Definition encode_path (cache_breaker data : bytes) : bytes :=
  encode_path_with_pad (u_encode cache_breaker) data.

(* rest[LastIndexByte(rest, sep)+1:], None when sep does not occur *)
Fixpoint after_last (sep : N) (l : bytes) : option bytes :=
  match l with
  | [] => None
  | c :: r => match after_last sep r with
              | Some t => Some t
              | None => if c =? sep then Some r else None
              end
  end.

Definition decode_path (p : bytes) : path_res :=
  match p with
  | [] => PErr MissingFormat
  | v :: rest =>
      if v =? ZERO_CH then
        match after_last SLASH rest with
        | None => PErr MissingData
        | Some t => match u_decode t with
                    | Some d => POk d
                    | None => PErr BadBase64
                    end
        end
      else PErr UnknownFormat
  end.

(* the mutation "LastIndexByte -> IndexByte" for reference in the proofs:
   everything after the FIRST slash *)
Fixpoint after_first (sep : N) (l : bytes) : option bytes :=
  match l with
  | [] => None
  | c :: r => if c =? sep then Some r else after_first sep r
  end.
