(* ClientAddr.v — executable model of clientAddr (server/lib/http.go) from the result of
   net.ParseIP onwards.  Executable definitions only.

   net.ParseIP is the library boundary: the harness reports what it returned for the
   client_ip string (nil, or the 16-byte form), the model takes it from there:
   IsUnspecified, then (&net.TCPAddr{IP: ip, Port: 1}).String(), i.e. IP.String()
   (dotted quad for 4-in-6 addresses, RFC 5952 text otherwise) and net.JoinHostPort. *)
From Coq Require Import List NArith Bool Arith.
From Snow Require Import Lib.Wire.
Import ListNotations.
Open Scope N_scope.

Inductive param :=
| Absent                      (* clientIPParam == "" *)
| Unparsable                  (* net.ParseIP returned nil *)
| Parsed (ip : bytes).        (* net.ParseIP returned these bytes (16 of them) *)

Definition zero16 : bytes := repeat 0 16.
Definition v4zero : bytes := repeat 0 10 ++ [255; 255; 0; 0; 0; 0].   (* net.IPv4zero *)

(* IP.IsUnspecified: ip.Equal(IPv4zero) || ip.Equal(IPv6unspecified) on a 16-byte ip *)
Definition unspecified (ip : bytes) : bool := beq ip v4zero || beq ip zero16.

(* IP.To4 on a 16-byte ip *)
Definition to4 (ip : bytes) : option bytes :=
  if beq (firstn 12 ip) (repeat 0 10 ++ [255; 255]) then Some (skipn 12 ip) else None.

Definition dotted (b : bytes) : bytes := join [DOT] (map dec_print b).

Fixpoint hextets (ip : bytes) : list N :=
  match ip with
  | a :: b :: r => 256 * a + b :: hextets r
  | _ => []
  end.

(* lower-case hex without leading zeros, for h < 65536 *)
Definition hex16 (h : N) : bytes :=
  let d3 := N.shiftr h 12 in let d2 := N.land (N.shiftr h 8) 15 in
  let d1 := N.land (N.shiftr h 4) 15 in let d0 := N.land h 15 in
  if 4096 <=? h then [hexdigit d3; hexdigit d2; hexdigit d1; hexdigit d0]
  else if 256 <=? h then [hexdigit d2; hexdigit d1; hexdigit d0]
  else if 16 <=? h then [hexdigit d1; hexdigit d0]
  else [hexdigit d0].

(* number of leading zero hextets *)
Fixpoint zrun (hs : list N) : nat :=
  match hs with
  | 0 :: r => S (zrun r)
  | _ => 0%nat
  end.

(* netip appendTo6: the first longest run of >= 2 zero hextets, as (start, end) *)
Fixpoint best_run (hs : list N) (i : nat) (best : option (nat * nat)) : option (nat * nat) :=
  match hs with
  | [] => best
  | _ :: r =>
      let l := zrun hs in
      let cur := match best with Some (s, e) => (e - s)%nat | None => 0%nat end in
      let best' := if (2 <=? l)%nat && (cur <? l)%nat then Some (i, (i + l)%nat) else best in
      best_run r (S i) best'
  end.

Fixpoint v6_render (hs : list N) (i : nat) (z : option (nat * nat)) : bytes :=
  match hs with
  | [] => []
  | h :: r =>
      let here :=
        match z with
        | Some (s, e) =>
            if (s <=? i)%nat && (i <? e)%nat then (if (i =? s)%nat then [COLON; COLON] else [])
            else (if (i =? 0)%nat || (i =? e)%nat then [] else [COLON]) ++ hex16 h
        | None => (if (i =? 0)%nat then [] else [COLON]) ++ hex16 h
        end in
      here ++ v6_render r (S i) z
  end.

(* IP.String for a 16-byte ip *)
Definition ip_string (ip : bytes) : bytes :=
  match to4 ip with
  | Some b => dotted b
  | None => let hs := hextets ip in v6_render hs 0 (best_run hs 0 None)
  end.

(* net.JoinHostPort *)
Definition join_host_port (host port : bytes) : bytes :=
  if existsb (N.eqb COLON) host then [91] ++ host ++ [93; COLON] ++ port
  else host ++ [COLON] ++ port.

Definition stub_port : bytes := [49].     (* Port: 1 *)

(* clientAddr: the string inside the returned ClientMapAddr *)
Definition sanitise (p : param) : bytes :=
  match p with
  | Absent => []
  | Unparsable => []
  | Parsed ip => if unspecified ip then [] else join_host_port (ip_string ip) stub_port
  end.
