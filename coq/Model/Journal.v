(* Journal.v — model of the distinct-IP journal: common/ipsetsink/sink.go (IPSetSink),
   common/ipsetsink/sinkcluster/writer.go (ClusterWriter) and reader.go (ClusterCounter.Count).
   Executable definitions only.

   Boundary: the HyperLogLog++ sketch (github.com/clarkduvall/hyperloglog, precision 18) is abstracted as the
   finite SET of masked values it has absorbed; its Count() is exact only while the sketch is in its sparse
   representation (small sets), otherwise an estimate with about 0.2 % standard error.  [mask] is the keyed
   HMAC-SHA3-256 of the address string (truncated to 64 bits by the sketch); it is a Section variable: the
   journal sees addresses only through it.  Times are instants (Z, any unit); time.Time Before/After/Equal
   compare instants.  The writer reads the clock once per AddIPToSet and once per WriteIPSetToDisk; the clock
   value is an explicit argument here. *)
From Coq Require Import List ZArith NArith Bool.
Import ListNotations.
Open Scope Z_scope.

Section Journal.
  Variables addr hash : Type.
  Variable mask : addr -> hash.
  Variable heqb : hash -> hash -> bool.

  Fixpoint hmem (h : hash) (l : list hash) : bool :=
    match l with [] => false | x :: l' => heqb h x || hmem h l' end.
  (* sketch.Add *)
  Definition sk_add (l : list hash) (h : hash) : list hash := if hmem h l then l else l ++ [h].
  (* sketch.Merge *)
  Definition sk_merge (a b : list hash) : list hash := fold_left sk_add b a.
  Definition sk_of (hs : list hash) : list hash := fold_left sk_add hs [].

  Record chunk := { c_start : Z; c_end : Z; c_sk : list hash }.     (* SinkEntry *)
  Record writer := { w_last : Z; w_int : Z; w_cur : list hash; w_out : list chunk }.

  Definition new_writer (now interval : Z) : writer := {| w_last := now; w_int := interval; w_cur := []; w_out := [] |}.

  (* WriteIPSetToDisk *)
  Definition flush (now : Z) (w : writer) : writer :=
    {| w_last := now; w_int := w_int w; w_cur := [];
       w_out := w_out w ++ [{| c_start := w_last w; c_end := now; c_sk := w_cur w |}] |}.

  (* AddIPToSet: if lastWriteTime.Add(writeInterval).Before(now) { WriteIPSetToDisk() }; current.AddIPToSet(ip) *)
  Definition add (now : Z) (ip : addr) (w : writer) : writer :=
    let w' := if w_last w + w_int w <? now then flush now w else w in
    {| w_last := w_last w'; w_int := w_int w'; w_cur := sk_add (w_cur w') (mask ip); w_out := w_out w' |}.

  Inductive jop := Add (now : Z) (ip : addr) | Flush (now : Z).
  Definition japply (w : writer) (o : jop) : writer :=
    match o with Add now ip => add now ip w | Flush now => flush now w end.
  Definition jrun (ops : list jop) (w : writer) : writer := fold_left japply ops w.

  (* reader.go: a chunk is skipped when
       (RecordingStart.Before(from) && !RecordingStart.Equal(from)) || RecordingEnd.After(to) *)
  Definition skipped (from to : Z) (c : chunk) : bool :=
    ((c_start c <? from) && negb (c_start c =? from)) || (to <? c_end c).

  Fixpoint count_loop (from to : Z) (j : list chunk) (acc : list hash) (n : N) : list hash * N :=
    match j with
    | [] => (acc, n)
    | c :: j' => if skipped from to c then count_loop from to j' acc n
                 else count_loop from to j' (sk_merge acc (c_sk c)) (n + 1)%N
    end.
  (* (Sum, ChunkIncluded) *)
  Definition count (from to : Z) (j : list chunk) : N * N :=
    let r := count_loop from to j [] 0%N in (N.of_nat (length (fst r)), snd r).
End Journal.

Arguments c_start {hash}. Arguments c_end {hash}. Arguments c_sk {hash}. Arguments Build_chunk {hash}.
Arguments w_last {hash}. Arguments w_int {hash}. Arguments w_cur {hash}. Arguments w_out {hash}.
Arguments new_writer {hash}. Arguments Add {addr}. Arguments Flush {addr}.
