(* Journal.v — model of the distinct-IP journal: common/ipsetsink/sink.go (IPSetSink),
   common/ipsetsink/sinkcluster/writer.go (ClusterWriter) and reader.go (ClusterCounter.Count).
   Executable definitions only.

   Boundary: the HyperLogLog++ sketch (github.com/clarkduvall/hyperloglog, precision 18) is abstracted as the
   finite SET of masked values it has absorbed; its Count() is exact only while the sketch is in its sparse
   representation (small sets), otherwise an estimate with about 0.2 % standard error.  [mask] is the keyed
   HMAC-SHA3-256 of the address string (truncated to 64 bits by the sketch); it is a Section variable: the
   journal sees addresses only through it.  Times are instants (Z, any unit); time.Time Before/After/Equal
   compare instants.  The writer reads the clock once per AddIPToSet and once per WriteIPSetToDisk; the clock
   value is an explicit argument here. *)
From Coq Require Import List ZArith NArith Bool.
Import ListNotations.
Open Scope Z_scope.

Section Journal.
  Variables addr hash : Type.
  Variable mask : addr -> hash.
  Variable heqb : hash -> hash -> bool.

  Fixpoint hmem (h : hash) (l : list hash) : bool :=
    match l with [] => false | x :: l' => heqb h x || hmem h l' end.
  (* sketch.Add *)
  Definition sk_add (l : list hash) (h : hash) : list hash := if hmem h l then l else l ++ [h].
  (* sketch.Merge *)
  Definition sk_merge (a b : list hash) : list hash := fold_left sk_add b a.
  Definition sk_of (hs : list hash) : list hash := fold_left sk_add hs [].

  Record chunk := { c_start : Z; c_end : Z; c_sk : list hash }.     (* SinkEntry *)
  Record writer := { w_last : Z; w_int : Z; w_cur : list hash; w_out : list chunk }.

  Definition new_writer (now interval : Z) : writer := {| w_last := now; w_int := interval; w_cur := []; w_out := [] |}.

  (* WriteIPSetToDisk *)
  Definition flush (now : Z) (w : writer) : writer :=
    {| w_last := now; w_int := w_int w; w_cur := [];
       w_out := w_out w ++ [{| c_start := w_last w; c_end := now; c_sk := w_cur w |}] |}.

  (* AddIPToSet: if lastWriteTime.Add(writeInterval).Before(now) { WriteIPSetToDisk() }; current.AddIPToSet(ip) *)
  Definition add (now : Z) (ip : addr) (w : writer) : writer :=
    let w' := if w_last w + w_int w <? now then flush now w else w in
    {| w_last := w_last w'; w_int := w_int w'; w_cur := sk_add (w_cur w') (mask ip); w_out := w_out w' |}.

  Inductive jop := Add (now : Z) (ip : addr) | Flush (now : Z).
  Definition japply (w : writer) (o : jop) : writer :=
    match o with Add now ip => add now ip w | Flush now => flush now w end.
  Definition jrun (ops : list jop) (w : writer) : writer := fold_left japply ops w.

  (* reader.go: a chunk is skipped when
       (RecordingStart.Before(from) && !RecordingStart.Equal(from)) || RecordingEnd.After(to) *)
  Definition skipped (from to : Z) (c : chunk) : bool :=
    ((c_start c <? from) && negb (c_start c =? from)) || (to <? c_end c).

  Fixpoint count_loop (from to : Z) (j : list chunk) (acc : list hash) (n : N) : list hash * N :=
    match j with
    | [] => (acc, n)
    | c :: j' => if skipped from to c then count_loop from to j' acc n
                 else count_loop from to j' (sk_merge acc (c_sk c)) (n + 1)%N
    end.
  (* (Sum, ChunkIncluded) *)
  Definition count (from to : Z) (j : list chunk) : N * N :=
    let r := count_loop from to j [] 0%N in (N.of_nat (length (fst r)), snd r).

  (* ---------- a journal line the reader's scanner cannot take (the pinned reader, "v0") ----------
     reader.go reads the journal with a bufio.Scanner and its default buffer: a line of 64 KiB or more makes Scan()
     return false (bufio.ErrTooLong), the loop ends as it does at the end of the file, and Err() is never looked at:
     that chunk and EVERYTHING behind it are left out, no error is returned.  [long c] = the JSON text of chunk c does
     not fit: a sparse sketch of some 21 000 addresses and more (measured: 20 000 addresses give 61 585 bytes, 40 000
     give 107 209), every dense sketch (2^18 registers, about 350 000 bytes).  The repaired reader (larger buffer,
     Err() returned) is [count] above: it reads every line. *)
  Variable long : chunk -> bool.
  Fixpoint scanned (j : list chunk) : list chunk :=
    match j with [] => [] | c :: r => if long c then [] else c :: scanned r end.
  Definition count_v0 (from to : Z) (j : list chunk) : N * N := count from to (scanned j).

  (* ---------- a sink that fails: what WriteIPSetToDisk does on each error path ----------
     WriteIPSetToDisk:  currentTime := now; data := Dump(); line := json(lastWriteTime, currentTime, data) + "\n";
                        _, err = io.Copy(writer, line); if err != nil { log; return }       -- nothing else changes
                        writer.Sync()                                                      -- result DISCARDED
                        lastWriteTime = currentTime; current.Reset()
     io.Copy hands the whole line to one Write call.  A failing Write may have taken a prefix of the line:
       nothing / an incomplete JSON text / the whole JSON text but not the newline / the whole line (and still an error).
     Whatever was taken stays in the file; the writer's own state (lastWriteTime, the sketch) is unchanged on every
     error path, so the next chunk again starts at the time of the last write the writer took for successful.
     The journal file is a sequence of lines; a line is a chunk, or unparsable ([None]): a whole line appended
     behind an unterminated rest forms ONE unparsable line with it.  The reader (ClusterCounter.Count) fails on the
     first unparsable line it meets, before looking at any window. *)
  Inductive wres :=
  | WOk            (* Write and Sync succeed *)
  | WSyncErr       (* Write succeeds, Sync returns an error (ignored by the code) *)
  | WNone          (* Write fails, nothing written *)
  | WTorn          (* Write fails after an incomplete JSON text *)
  | WNoNewline     (* Write fails after the complete JSON text, before the newline *)
  | WWhole.        (* the whole line is written and Write still reports an error *)

  Inductive tail := TEmpty | TTorn | TJson (c : chunk).   (* what follows the last newline of the file *)

  Record fwriter := { f_last : Z; f_int : Z; f_cur : list hash; f_lines : list (option chunk); f_tail : tail;
                      f_plan : list wres (* how the next Write calls behave; WOk when exhausted *) }.

  Definition fnew (now interval : Z) (plan : list wres) : fwriter :=
    {| f_last := now; f_int := interval; f_cur := []; f_lines := []; f_tail := TEmpty; f_plan := plan |}.

  (* a complete line (text + newline) reaches the file *)
  Definition put_line (c : chunk) (w : fwriter) : list (option chunk) :=
    f_lines w ++ [match f_tail w with TEmpty => Some c | _ => None end].

  (* WriteIPSetToDisk against the sink's next behaviour *)
  Definition fflush (now : Z) (w : fwriter) : fwriter :=
    let c := {| c_start := f_last w; c_end := now; c_sk := f_cur w |} in
    let r := match f_plan w with [] => WOk | r :: _ => r end in
    let plan := tl (f_plan w) in
    match r with
    | WOk | WSyncErr =>
        {| f_last := now; f_int := f_int w; f_cur := []; f_lines := put_line c w; f_tail := TEmpty; f_plan := plan |}
    | WNone =>
        {| f_last := f_last w; f_int := f_int w; f_cur := f_cur w; f_lines := f_lines w; f_tail := f_tail w; f_plan := plan |}
    | WTorn =>
        {| f_last := f_last w; f_int := f_int w; f_cur := f_cur w; f_lines := f_lines w; f_tail := TTorn; f_plan := plan |}
    | WNoNewline =>
        {| f_last := f_last w; f_int := f_int w; f_cur := f_cur w; f_lines := f_lines w;
           f_tail := match f_tail w with TEmpty => TJson c | _ => TTorn end; f_plan := plan |}
    | WWhole =>
        {| f_last := f_last w; f_int := f_int w; f_cur := f_cur w; f_lines := put_line c w; f_tail := TEmpty; f_plan := plan |}
    end.

  Definition fadd (now : Z) (ip : addr) (w : fwriter) : fwriter :=
    let w' := if f_last w + f_int w <? now then fflush now w else w in
    {| f_last := f_last w'; f_int := f_int w'; f_cur := sk_add (f_cur w') (mask ip); f_lines := f_lines w';
       f_tail := f_tail w'; f_plan := f_plan w' |}.

  Definition fapply (w : fwriter) (o : jop) : fwriter :=
    match o with Add now ip => fadd now ip w | Flush now => fflush now w end.
  Definition fjrun (ops : list jop) (w : fwriter) : fwriter := fold_left fapply ops w.

  (* the file as the reader's line scanner sees it: an unterminated rest is a last line *)
  Definition file_of (w : fwriter) : list (option chunk) :=
    f_lines w ++ match f_tail w with TEmpty => [] | TTorn => [None] | TJson c => [Some c] end.

  Fixpoint good_lines (f : list (option chunk)) : list chunk :=
    match f with [] => [] | Some c :: r => c :: good_lines r | None :: r => good_lines r end.
  Definition readable (f : list (option chunk)) : bool := forallb (fun l => match l with Some _ => true | None => false end) f.
  (* ClusterCounter.Count over the file: an error as soon as one line does not parse *)
  Definition fcount (from to : Z) (f : list (option chunk)) : option (N * N) :=
    if readable f then Some (count from to (good_lines f)) else None.
End Journal.

Arguments c_start {hash}. Arguments c_end {hash}. Arguments c_sk {hash}. Arguments Build_chunk {hash}.
Arguments w_last {hash}. Arguments w_int {hash}. Arguments w_cur {hash}. Arguments w_out {hash}.
Arguments new_writer {hash}. Arguments Add {addr}. Arguments Flush {addr}.
Arguments f_last {hash}. Arguments f_int {hash}. Arguments f_cur {hash}. Arguments f_lines {hash}. Arguments f_tail {hash}.
Arguments f_plan {hash}. Arguments fnew {hash}. Arguments TEmpty {hash}. Arguments TTorn {hash}. Arguments TJson {hash}.
Arguments file_of {hash}. Arguments good_lines {hash}. Arguments readable {hash}.
