(* SessDescPeer.v — proxy/lib remoteIPFromSDP (webrtcconn.go) at the granularity at which the Go
   code can panic.  Model/SdpStrip.v [remote_ip] returns [option bytes] and so cannot express a
   panic; here every PARTIAL operation the code performs is an explicit step that yields [PPanic]
   when its operand does not allow it:

     m.Attributes         m is a *sdp.MediaDescription taken from desc.MediaDescriptions: nil pointer
     c.Address()          c is the ice.Candidate INTERFACE value returned by ice.UnmarshalCandidate
                          together with err; a method call on a nil interface panics
     m[1]                 m is the []string returned by pattern.FindStringSubmatch: nil when there
                          is no match, else one element per group

   and the input is what the libraries returned, as Go types allow it (a nil media pointer, c == nil
   with err == nil, a submatch slice of any length), not only what they return in practice.  The
   checks the code makes before each step are switchable ([guards]) so that the theorems can say
   which check is the reason a step is safe; [CODE] is the function as written:

     var desc sdp.SessionDescription
     if err := desc.Unmarshal([]byte(str)); err != nil { return nil }
     for _, m := range desc.MediaDescriptions {
        for _, a := range m.Attributes {
           if a.IsICECandidate() {
              c, err := ice.UnmarshalCandidate(a.Value)
              if err == nil {                                              <- g_err
                 ip := net.ParseIP(c.Address())
                 if ip != nil && isRemoteAddress(ip) { return ip } } } } }
     for _, pattern := range remoteIPPatterns {
        m := pattern.FindStringSubmatch(str)
        if m != nil {                                                      <- g_match
           ip := net.ParseIP(m[1])
           if ip != nil && isRemoteAddress(ip) { return ip } } }
     return nil

   isRemoteAddress(ip) = !(IsLocal(ip) || ip.IsUnspecified() || ip.IsLoopback()) = negb (bad_addr ip);
   it is total on every byte string (IpClass.v).  Executable definitions only. *)
From Coq Require Import List NArith Bool.
From Snow Require Import Lib.Wire Model.IpClass Model.SdpStrip.
Import ListNotations.
Open Scope N_scope.

(* (c, err) as returned by ice.UnmarshalCandidate: c = None is a value on which a method call panics:
   the nil interface, or a nil pointer inside the interface (which pion/ice returns, together with an
   error, when a candidate constructor fails); otherwise its type and net.ParseIP(c.Address()) *)
Record ucand := mkUcand { uc_c : option (ctype * option bytes); uc_err : bool }.

Inductive pattr :=
| PCand (u : ucand)     (* a.IsICECandidate() *)
| POther.

(* element of desc.MediaDescriptions: None = nil pointer *)
Definition pmedia := option (list pattr).

(* result of FindStringSubmatch: SNil = nil; SSlice l = the groups, each already run through
   net.ParseIP (None = not an IP literal, incl. the empty string of a group that did not take part) *)
Inductive submatch := SNil | SSlice (l : list (option bytes)).

Inductive pwhy := WNilMedia | WNilCandidate | WIndex.

Inductive pres :=
| PVal (ip : option bytes)     (* returned; None = nil *)
| PPanic (w : pwhy).

Record guards := mkGuards { g_err : bool; g_match : bool }.
Definition CODE : guards := mkGuards true true.

(* None = fell out of the loop *)
Fixpoint scan_attrs (g : guards) (l : list pattr) : option pres :=
  match l with
  | [] => None
  | POther :: l' => scan_attrs g l'
  | PCand u :: l' =>
      if g_err g && uc_err u then scan_attrs g l'                 (* err != nil: the body is skipped *)
      else
        match uc_c u with
        | None => Some (PPanic WNilCandidate)                      (* c.Address() *)
        | Some (_, None) => scan_attrs g l'                        (* ip == nil *)
        | Some (_, Some ip) => if negb (bad_addr ip) then Some (PVal (Some ip)) else scan_attrs g l'
        end
  end.

Fixpoint scan_media (g : guards) (ms : list pmedia) : option pres :=
  match ms with
  | [] => None
  | None :: _ => Some (PPanic WNilMedia)                            (* m.Attributes *)
  | Some attrs :: ms' =>
      match scan_attrs g attrs with
      | Some r => Some r
      | None => scan_media g ms'
      end
  end.

Fixpoint scan_patterns (g : guards) (caps : list submatch) : pres :=
  match caps with
  | [] => PVal None
  | SNil :: caps' => if g_match g then scan_patterns g caps' else PPanic WIndex    (* m[1] of a nil slice *)
  | SSlice l :: caps' =>
      match nth_error l 1 with
      | None => PPanic WIndex                                        (* m[1], len(m) < 2 *)
      | Some None => scan_patterns g caps'
      | Some (Some ip) => if negb (bad_addr ip) then PVal (Some ip) else scan_patterns g caps'
      end
  end.

(* parsed = None: desc.Unmarshal returned an error *)
Definition remote_ip_g (g : guards) (parsed : option (list pmedia)) (caps : list submatch) : pres :=
  match parsed with
  | None => PVal None
  | Some ms =>
      match scan_media g ms with
      | Some r => r
      | None => scan_patterns g caps
      end
  end.

Definition remote_ip_code := remote_ip_g CODE.

(* ---------------------------------------------------------------- what the libraries promise
   (each clause is reported by the driver for every input it runs, see `peerg` in SdpstripRun.v) *)

(* ice.UnmarshalCandidate returns a candidate whenever it returns no error *)
Definition ucand_ok (u : ucand) : bool := uc_err u || match uc_c u with Some _ => true | None => false end.

Definition pattr_ok (a : pattr) : bool := match a with PCand u => ucand_ok u | POther => true end.

(* sdp Unmarshal never stores a nil *MediaDescription *)
Definition pmedia_ok (m : pmedia) : bool := match m with Some l => forallb pattr_ok l | None => false end.

(* FindStringSubmatch returns nil or 1 + NumSubexp() strings; both patterns have two groups *)
Definition submatch_ok (s : submatch) : bool :=
  match s with SNil => true | SSlice l => Nat.eqb (List.length l) 3 end.

Definition lib_contract (parsed : option (list pmedia)) (caps : list submatch) : bool :=
  match parsed with Some ms => forallb pmedia_ok ms | None => true end && forallb submatch_ok caps.

(* ---------------------------------------------------------------- projection onto Model/SdpStrip.v *)

Definition erase_attr (a : pattr) : attr :=
  match a with
  | PCand (mkUcand (Some (t, addr)) false) => mkAttr 0 (Cand t addr)
  | PCand _ => mkAttr 0 BadCand
  | POther => mkAttr 0 Other
  end.

Definition erase_media (m : pmedia) : media := match m with Some l => map erase_attr l | None => [] end.
Definition erase (parsed : option (list pmedia)) : option description := option_map (map erase_media) parsed.

Definition erase_cap (s : submatch) : option bytes :=
  match s with
  | SNil => None
  | SSlice l => match nth_error l 1 with Some r => r | None => None end
  end.

(* ---------------------------------------------------------------- the caller in webrtcconn.go

   func (c *webRTCConn) RemoteAddr() net.Addr {
      clientIP := remoteIPFromSDP(c.pc.RemoteDescription().SDP)       <- nil when no remote description is set
      if clientIP == nil { return nil }
      return &net.IPAddr{IP: clientIP} }

   rd = None: pc.RemoteDescription() == nil.  The only call is in the OnDataChannel callback of
   makePeerConnectionFromOffer, which is installed before and can only fire after
   pc.SetRemoteDescription(offer) succeeded. *)
Inductive ares := AVal (ip : option bytes) | APanicNoRemote | APanic (w : pwhy).

Definition remote_addr (rd : option (option (list pmedia) * list submatch)) : ares :=
  match rd with
  | None => APanicNoRemote
  | Some (parsed, caps) =>
      match remote_ip_code parsed caps with
      | PVal ip => AVal ip
      | PPanic w => APanic w
      end
  end.
