(* B64Url.v — executable model of encoding/base64.RawURLEncoding (alphabet
   A-Z a-z 0-9 - _, no padding, non-strict) as used by common/amp/path.go.
   Self-contained (the std-alphabet model used for C10 lives elsewhere).
   Executable definitions only. *)
From Coq Require Import List NArith Bool Arith.
From Snow Require Import Lib.Wire.
Import ListNotations.
Open Scope N_scope.

(* 6-bit value -> alphabet character *)
Definition u_enc_char (v : N) : N :=
  if v <? 26 then 65 + v            (* A-Z *)
  else if v <? 52 then 71 + v       (* a-z : 97 + (v-26) *)
  else if v <? 62 then v - 4        (* 0-9 : 48 + (v-52) *)
  else if v =? 62 then 45           (* - *)
  else 95.                          (* _ *)

(* alphabet character -> 6-bit value; None = not in the alphabet (decodeMap = 0xff) *)
Definition u_dec_char (c : N) : option N :=
  if (65 <=? c) && (c <=? 90) then Some (c - 65)
  else if (97 <=? c) && (c <=? 122) then Some (c - 71)
  else if (48 <=? c) && (c <=? 57) then Some (c + 4)
  else if c =? 45 then Some 62
  else if c =? 95 then Some 63
  else None.

(* EncodeToString: 3 bytes -> 4 characters; remainders of 1 / 2 bytes -> 2 / 3 characters *)
Fixpoint u_encode (l : bytes) : bytes :=
  match l with
  | a :: b :: c :: r =>
      let n := a * 65536 + b * 256 + c in
      u_enc_char (n / 262144) :: u_enc_char ((n / 4096) mod 64) ::
      u_enc_char ((n / 64) mod 64) :: u_enc_char (n mod 64) :: u_encode r
  | [a; b] =>
      let n := a * 65536 + b * 256 in
      [u_enc_char (n / 262144); u_enc_char ((n / 4096) mod 64); u_enc_char ((n / 64) mod 64)]
  | [a] =>
      let n := a * 65536 in
      [u_enc_char (n / 262144); u_enc_char ((n / 4096) mod 64)]
  | [] => []
  end.

(* the decoder skips '\r' and '\n' wherever they occur *)
Definition is_nl (c : N) : bool := (c =? 10) || (c =? 13).
Definition strip_nl (l : bytes) : bytes := filter (fun c => negb (is_nl c)) l.

(* all characters to 6-bit values; None as soon as one is outside the alphabet *)
Fixpoint u_vals (l : bytes) : option (list N) :=
  match l with
  | [] => Some []
  | c :: r => match u_dec_char c, u_vals r with
              | Some v, Some vs => Some (v :: vs)
              | _, _ => None
              end
  end.

(* quanta of 4 values -> 3 bytes; a final quantum of 2 / 3 values -> 1 / 2 bytes
   (trailing bits are not checked: Go's non-strict mode); a final single value is
   CorruptInputError *)
Fixpoint u_quanta (vs : list N) : option bytes :=
  match vs with
  | v0 :: v1 :: v2 :: v3 :: r =>
      let n := v0 * 262144 + v1 * 4096 + v2 * 64 + v3 in
      match u_quanta r with
      | Some d => Some (n / 65536 :: (n / 256) mod 256 :: n mod 256 :: d)
      | None => None
      end
  | [v0; v1; v2] =>
      let n := v0 * 262144 + v1 * 4096 + v2 * 64 in
      Some [n / 65536; (n / 256) mod 256]
  | [v0; v1] =>
      let n := v0 * 262144 + v1 * 4096 in
      Some [n / 65536]
  | [_] => None
  | [] => Some []
  end.

(* DecodeString projected to (data | error): on error Go also returns the bytes decoded
   so far, which every caller in the repository discards. *)
Definition u_decode (s : bytes) : option bytes :=
  match u_vals (strip_nl s) with
  | Some vs => u_quanta vs
  | None => None
  end.
