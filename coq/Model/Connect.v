(* Connect.v — executable model of client/lib/webrtc.go: NewWebRTCPeerWithEvents, connect,
   preparePeerConnection, Close/cleanup, as a straight-line sequence of library calls whose
   outcomes are given by an oracle (one boolean per call that can fail).

   V0 = pinned code: connect reads c.pc.LocalDescription() even when preparePeerConnection
        failed before c.pc was assigned (api.NewPeerConnection returned nil, err).
   V1 = repaired code (proposed-fixes/C15-nil-pc.diff): LocalDescription is read only when
        c.pc is not nil.

   Library behaviour assumed (not verified): every pion call and BrokerChannel.Negotiate
   returns (ok or error); Close calls return; ICE gathering completes.
   Executable definitions only. *)
From Coq Require Import List Bool.
Import ListNotations.

Inductive cversion := CV0 | CV1.

Record outcomes := mkO {
  o_newpc : bool;       (* api.NewPeerConnection(config) succeeds *)
  o_createdc : bool;    (* pc.CreateDataChannel succeeds *)
  o_offer : bool;       (* pc.CreateOffer succeeds *)
  o_setlocal : bool;    (* pc.SetLocalDescription succeeds *)
  o_negotiate : bool;   (* broker.Negotiate succeeds (false: unreachable, refusing, malformed answer) *)
  o_setremote : bool;   (* pc.SetRemoteDescription succeeds *)
  o_open : bool         (* the data channel opens before DataChannelTimeout *)
}.

Inductive cevent :=
| Ev_offer (failed : bool)        (* EventOnOfferCreated{Error} *)
| Ev_rendezvous (failed : bool)   (* EventOnBrokerRendezvous{Error} *)
| Ev_connected                    (* EventOnSnowflakeConnected (OnOpen callback) *)
| Ev_failed (haserr : bool).      (* EventOnSnowflakeConnectionFailed{Error}; haserr = Error is not nil *)

(* What a listener that renders the event does (client/snowflake.go ptEventLogger: pt.Log(..., e.String())).
   common/event: String() of the offer / rendezvous events tests Error != nil first; String() of the
   connected event has no argument; String() of EventOnSnowflakeConnectionFailed calls e.Error.Error()
   unconditionally - a nil Error is a nil-pointer panic on the goroutine that emitted the event
   (the collecting goroutine of connectLoop: the client process ends). *)
Definition render_ok (e : cevent) : bool :=
  match e with Ev_failed false => false | _ => true end.

(* a resource is None (never acquired) or Some closed? *)
Record cstate := mkC {
  pc : option bool;          (* c.pc *)
  dc : option bool;          (* c.transport *)
  pipe_closed : bool;        (* c.writePipe (always created) *)
  peer_closed : bool;        (* c.closed channel closed *)
  events : list cevent;      (* newest last *)
  rv_calls : nat;            (* calls of Negotiate *)
  stale_checker : bool       (* go c.checkForStaleness started *)
}.

Inductive cresult := Conn_Ok | Conn_Err | Conn_Panic.

Definition cinit : cstate := mkC None None false false [] 0 false.

Definition close_res (r : option bool) : option bool :=
  match r with Some _ => Some true | None => None end.

Definition with_pc (c : cstate) (x : option bool) := mkC x (dc c) (pipe_closed c) (peer_closed c) (events c) (rv_calls c) (stale_checker c).
Definition with_dc (c : cstate) (x : option bool) := mkC (pc c) x (pipe_closed c) (peer_closed c) (events c) (rv_calls c) (stale_checker c).
Definition add_event (c : cstate) (e : cevent) := mkC (pc c) (dc c) (pipe_closed c) (peer_closed c) (events c ++ [e]) (rv_calls c) (stale_checker c).

(* preparePeerConnection: returns (ok?, state) *)
Definition prepare (o : outcomes) (c : cstate) : bool * cstate :=
  if negb (o_newpc o) then (false, c)                         (* c.pc = nil *)
  else
    let c1 := with_pc c (Some false) in
    if negb (o_createdc o) then (false, c1)
    else
      let c2 := with_dc c1 (Some false) in
      if negb (o_offer o) then (false, with_pc c2 (Some true))      (* c.pc.Close() *)
      else if negb (o_setlocal o) then (false, with_pc c2 (Some true))
      else (true, c2).

(* connect: returns (result, state) *)
Definition connect (v : cversion) (o : outcomes) (c : cstate) : cresult * cstate :=
  let '(ok, c1) := prepare o c in
  match v, pc c1 with
  | CV0, None => (Conn_Panic, c1)                              (* nil.LocalDescription() *)
  | _, _ =>
      let c2 := add_event c1 (Ev_offer (negb ok)) in
      if negb ok then (Conn_Err, c2)
      else
        let c3 := mkC (pc c2) (dc c2) (pipe_closed c2) (peer_closed c2) (events c2) (S (rv_calls c2)) (stale_checker c2) in
        let c4 := add_event c3 (Ev_rendezvous (negb (o_negotiate o))) in
        if negb (o_negotiate o) then (Conn_Err, c4)
        else if negb (o_setremote o) then (Conn_Err, c4)
        else if negb (o_open o) then
          (Conn_Err, add_event (with_dc c4 (close_res (dc c4))) (Ev_failed true))   (* c.transport.Close(); err = errors.New(...) *)
        else
          let c5 := add_event c4 Ev_connected in
          (Conn_Ok, mkC (pc c5) (dc c5) (pipe_closed c5) (peer_closed c5) (events c5) (rv_calls c5) true)
  end.

(* WebRTCPeer.Close: close(c.closed); cleanup() *)
Definition peer_close (c : cstate) : cstate :=
  mkC (close_res (pc c)) (close_res (dc c)) true true (events c) (rv_calls c) (stale_checker c).

(* NewWebRTCPeerWithEvents *)
Definition new_peer (v : cversion) (o : outcomes) : cresult * cstate :=
  match connect v o cinit with
  | (Conn_Err, c) => (Conn_Err, peer_close c)
  | r => r
  end.

Definition res_released (r : option bool) : bool :=
  match r with Some false => false | _ => true end.

(* nothing acquired during the attempt is still open *)
Definition all_released (c : cstate) : bool :=
  res_released (pc c) && res_released (dc c) && pipe_closed c && peer_closed c.
