(* BrokerHttp.v — the HTTP layer of the broker (broker/http.go, broker/amp.go) as total functions from
   what a handler sees to the response it writes. The IPC layer and the message codecs are parameters:
   a handler is modelled for EVERY behaviour of IPC.ClientOffers / ProxyPolls / ProxyAnswers.
   V0 = pinned code (legacy shim panics on an unexpected error string), V1 = repaired. Executable. *)
From Coq Require Import List NArith Bool String.
From Snow Require Import Lib.Wire.
Import ListNotations.
Open Scope N_scope.

Inductive hversion := H0 | H1.

(* what a handler writes: a status code and a body, or (V0 only) a panic that makes net/http drop the connection *)
Inductive hresp :=
| HResp (status : N) (body : bytes)
| HPanic.

(* result of ioutil.ReadAll(http.MaxBytesReader(w, r.Body, 100000)) *)
Inductive readres := ReadOk (body : bytes) | ReadTooLarge.

(* IPC return values *)
Inductive ipcres := IpcOk (response : bytes) | IpcBadRequest | IpcInternal | IpcOtherErr.

(* a decoded ClientPollResponse; None = DecodeClientPollResponse failed *)
Record cpresp := { r_answer : bytes; r_error : bytes }.

Definition STR_NO_PROXIES : bytes := bs "no snowflake proxies currently available".
Definition STR_TIMED_OUT : bytes := bs "timed out waiting for answer!".

Section Handlers.
  (* codecs (library/common boundary; modelled and proved in Model/Messages.v for C12) *)
  Variable encode_client_poll_request : bytes -> bytes -> bytes.   (* offer, NAT header -> versioned body *)
  Variable decode_client_poll_response : bytes -> option cpresp.
  Variable encode_client_error : bytes -> bytes.                    (* ClientPollResponse{Error: e}.Encode *)
  Variable amp_decode_path : bytes -> option bytes.
  Variable amp_armor : bytes -> bytes.
  (* the IPC layer, any behaviour *)
  Variable ipc_client : bytes -> ipcres.
  Variable ipc_proxy : bytes -> ipcres.
  Variable ipc_answer : bytes -> ipcres.

  Definition is_legacy (body : bytes) : bool :=
    match body with b :: _ => b =? 123 | [] => false end.   (* '{' *)

  (* the tail of clientOffers for a legacy request, given the IPC response bytes *)
  Definition legacy_map (v : hversion) (response : bytes) : hresp :=
    match decode_client_poll_response response with
    | None => HResp 500 []
    | Some r =>
        match r_error r with
        | [] => HResp 200 (r_answer r)
        | e => if beq e STR_NO_PROXIES then HResp 503 []
               else if beq e STR_TIMED_OUT then HResp 504 []
               else match v with H0 => HPanic | H1 => HResp 400 [] end
        end
    end.

  Definition client_offers (v : hversion) (rd : readres) (nat_header : bytes) : hresp :=
    match rd with
    | ReadTooLarge => HResp 400 []
    | ReadOk body =>
        let legacy := is_legacy body in
        let body' := if legacy then encode_client_poll_request body nat_header else body in
        match ipc_client body' with
        | IpcOk response => if legacy then legacy_map v response else HResp 200 response
        | _ => HResp 500 []
        end
    end.

  Definition ipc_status (r : ipcres) : hresp :=
    match r with
    | IpcOk response => HResp 200 response
    | IpcBadRequest => HResp 400 []
    | IpcInternal | IpcOtherErr => HResp 500 []
    end.

  Definition proxy_polls (rd : readres) : hresp :=
    match rd with ReadTooLarge => HResp 400 [] | ReadOk body => ipc_status (ipc_proxy body) end.

  Definition proxy_answers (rd : readres) : hresp :=
    match rd with ReadTooLarge => HResp 400 [] | ReadOk body => ipc_status (ipc_answer body) end.

  (* /amp/client/<path>; prefix_ok = the URL path started with /amp/client/ *)
  Definition amp_client_offers (prefix_ok : bool) (path : bytes) : hresp :=
    if negb prefix_ok then HResp 500 []
    else match amp_decode_path path with
         | Some body =>
             match ipc_client body with
             | IpcOk response => HResp 200 (amp_armor response)
             | _ => HResp 500 []
             end
         | None => HResp 200 (amp_armor (encode_client_error (bs "cannot decode URL path")))
         end.

  (* the versioned POST a legacy request is shimmed into *)
  Definition versioned_twin (offer nat_header : bytes) : readres :=
    ReadOk (encode_client_poll_request offer nat_header).
End Handlers.

(* SnowflakeHandler.ServeHTTP: CORS preflight returns early with an empty 200 *)
Definition serve (is_options : bool) (h : hresp) : hresp := if is_options then HResp 200 [] else h.
