(* BrokerHttp.v — the HTTP layer of the broker (broker/http.go, broker/amp.go) as total functions from
   what a handler sees to the response it writes. The IPC layer and the message codecs are parameters:
   a handler is modelled for EVERY behaviour of IPC.ClientOffers / ProxyPolls / ProxyAnswers.
   V0 = pinned code (legacy shim panics on an unexpected error string), V1 = repaired. Executable. *)
From Coq Require Import List NArith Bool String Arith.
From Snow Require Import Lib.Wire.
Import ListNotations.
Open Scope N_scope.

Inductive hversion := H0 | H1.

(* what a handler writes: a status code and a body, or (V0 only) a panic that makes net/http drop the connection *)
Inductive hresp :=
| HResp (status : N) (body : bytes)
| HPanic.

(* result of ioutil.ReadAll(http.MaxBytesReader(w, r.Body, 100000)) *)
Inductive readres := ReadOk (body : bytes) | ReadTooLarge.

(* IPC return values *)
Inductive ipcres := IpcOk (response : bytes) | IpcBadRequest | IpcInternal | IpcOtherErr.

(* a decoded ClientPollResponse; None = DecodeClientPollResponse failed *)
Record cpresp := { r_answer : bytes; r_error : bytes }.

Definition STR_NO_PROXIES : bytes := bs "no snowflake proxies currently available".
Definition STR_TIMED_OUT : bytes := bs "timed out waiting for answer!".

Definition READ_LIMIT_N : N := 100000.
(* ioutil.ReadAll(http.MaxBytesReader(w, r.Body, readLimit)) *)
Definition read_body (sent : bytes) : readres :=
  if READ_LIMIT_N <? N.of_nat (List.length sent) then ReadTooLarge else ReadOk sent.

Section Handlers.
  (* codecs (library/common boundary; modelled and proved in Model/Messages.v for C12) *)
  Variable encode_client_poll_request : bytes -> bytes -> bytes.   (* offer, NAT header -> versioned body *)
  Variable decode_client_poll_response : bytes -> option cpresp.
  Variable encode_client_error : bytes -> bytes.                    (* ClientPollResponse{Error: e}.Encode *)
  Variable amp_decode_path : bytes -> option bytes.
  Variable amp_armor : bytes -> bytes.
  (* the IPC layer, any behaviour *)
  Variable ipc_client : bytes -> ipcres.
  Variable ipc_proxy : bytes -> ipcres.
  Variable ipc_answer : bytes -> ipcres.

  Definition is_legacy (body : bytes) : bool :=
    match body with b :: _ => b =? 123 | [] => false end.   (* '{' *)

  (* the tail of clientOffers for a legacy request, given the IPC response bytes *)
  Definition legacy_map (v : hversion) (response : bytes) : hresp :=
    match decode_client_poll_response response with
    | None => HResp 500 []
    | Some r =>
        match r_error r with
        | [] => HResp 200 (r_answer r)
        | e => if beq e STR_NO_PROXIES then HResp 503 []
               else if beq e STR_TIMED_OUT then HResp 504 []
               else match v with H0 => HPanic | H1 => HResp 400 [] end
        end
    end.

  Definition client_offers (v : hversion) (rd : readres) (nat_header : bytes) : hresp :=
    match rd with
    | ReadTooLarge => HResp 400 []
    | ReadOk body =>
        let legacy := is_legacy body in
        let body' := if legacy then encode_client_poll_request body nat_header else body in
        match ipc_client body' with
        | IpcOk response => if legacy then legacy_map v response else HResp 200 response
        | _ => HResp 500 []
        end
    end.

  Definition ipc_status (r : ipcres) : hresp :=
    match r with
    | IpcOk response => HResp 200 response
    | IpcBadRequest => HResp 400 []
    | IpcInternal | IpcOtherErr => HResp 500 []
    end.

  Definition proxy_polls (rd : readres) : hresp :=
    match rd with ReadTooLarge => HResp 400 [] | ReadOk body => ipc_status (ipc_proxy body) end.

  Definition proxy_answers (rd : readres) : hresp :=
    match rd with ReadTooLarge => HResp 400 [] | ReadOk body => ipc_status (ipc_answer body) end.

  (* /amp/client/<path>; prefix_ok = the URL path started with /amp/client/ *)
  Definition amp_client_offers (prefix_ok : bool) (path : bytes) : hresp :=
    if negb prefix_ok then HResp 500 []
    else match amp_decode_path path with
         | Some body =>
             match ipc_client body with
             | IpcOk response => HResp 200 (amp_armor response)
             | _ => HResp 500 []
             end
         | None => HResp 200 (amp_armor (encode_client_error (bs "cannot decode URL path")))
         end.

  (* the versioned POST a legacy request is shimmed into, as the handler reads it when it is sent directly: through the
     same read limit as every POSTed body. The shim itself hands the encoded body to IPC without that limit: a legacy
     body within the limit whose encoding (JSON escaping of the offer, the NAT type, the default fingerprint) exceeds
     it is served on the legacy route while its twin is a 400 (Properties/C14.v, C14_legacy_shim_diverges_over_limit). *)
  Definition versioned_twin (offer nat_header : bytes) : readres :=
    read_body (encode_client_poll_request offer nat_header).
End Handlers.

(* SnowflakeHandler.ServeHTTP: CORS preflight returns early with an empty 200 *)
Definition serve (is_options : bool) (h : hresp) : hresp := if is_options then HResp 200 [] else h.

(* ===================================================================================================
   Refinement (C14 gaps 1-3): the handlers at the granularity of the Go statements that can fail.
   A request as the server hands it to the mux, the http.ResponseWriter as the handlers use it, every
   partial operation (indexing, slicing, WriteHeader's code check) as a step that may panic, the routes of
   main() including /debug, /metrics, /prometheus, /robots.txt and the mux's own answers, and the broker
   state threaded through the IPC calls only.
   Library boundary: net/http request parsing (the request arrives parsed: method, URL.Path, header
   lines), response framing, ServeMux path cleaning (the model's route function is for clean paths).
   =================================================================================================== *)

Inductive outc (A : Type) : Type := Ret (a : A) | Panicked.
Arguments Ret {A} a.
Arguments Panicked {A}.

(* l[i]: index out of range panics *)
Definition index_at (l : bytes) (i : nat) : outc N :=
  match nth_error l i with Some b => Ret b | None => Panicked end.
(* l[n:]: slice bounds out of range panics *)
Definition slice_from (l : bytes) (n : nat) : outc bytes :=
  if (n <=? List.length l)%nat then Ret (skipn n l) else Panicked.

(* ---- the response writer ---- *)
Record rw := { w_code : option N; w_body : bytes; w_cors : bool }.
Definition rw_new : rw := {| w_code := None; w_body := []; w_cors := false |}.

(* w.WriteHeader(code): net/http panics on a code outside 100..999 (checkWriteHeaderCode); a second call
   is logged ("superfluous") and ignored *)
Definition write_header (code : N) (w : rw) : outc rw :=
  if (code <? 100) || (999 <? code) then Panicked
  else Ret (match w_code w with
            | Some _ => w
            | None => {| w_code := Some code; w_body := w_body w; w_cors := w_cors w |}
            end).
(* w.Write(b): WriteHeader(200) first when no status was written; never panics *)
Definition write (b : bytes) (w : rw) : rw :=
  {| w_code := Some (match w_code w with Some c => c | None => 200 end); w_body := w_body w ++ b; w_cors := w_cors w |}.
Definition set_cors (w : rw) : rw := {| w_code := w_code w; w_body := w_body w; w_cors := true |}.

(* what the client receives once the handler returned: 200 when nothing was written; no body for HEAD *)
Record resp := { p_status : N; p_body : bytes; p_cors : bool }.
Definition finish (head : bool) (w : rw) : resp :=
  {| p_status := match w_code w with Some c => c | None => 200 end;
     p_body := if head then [] else w_body w; p_cors := w_cors w |}.

(* ---- request headers: textproto canonicalisation and Header.Get ---- *)
Definition is_lower (c : N) : bool := (97 <=? c) && (c <=? 122).
Definition is_upper (c : N) : bool := (65 <=? c) && (c <=? 90).
Definition is_digit (c : N) : bool := (48 <=? c) && (c <=? 57).
(* validHeaderFieldByte: RFC 7230 token characters *)
Definition token_byte (c : N) : bool :=
  is_lower c || is_upper c || is_digit c ||
  existsb (fun d => c =? d) [33; 35; 36; 37; 38; 39; 42; 43; 45; 46; 94; 95; 96; 124; 126].
Fixpoint canon_aux (upper : bool) (l : bytes) : bytes :=
  match l with
  | [] => []
  | c :: r => let c' := if upper && is_lower c then c - 32
                        else if negb upper && is_upper c then c + 32 else c in
              c' :: canon_aux (c' =? 45) r
  end.
(* textproto.CanonicalMIMEHeaderKey: a key with a non-token byte is left alone *)
Definition canon_key (k : bytes) : bytes := if forallb token_byte k then canon_aux true k else k.
Definition is_ows (c : N) : bool := (c =? 32) || (c =? 9).
Fixpoint trim_left (l : bytes) : bytes :=
  match l with c :: r => if is_ows c then trim_left r else l | [] => [] end.
Definition trim_ows (l : bytes) : bytes := rev (trim_left (rev (trim_left l))).
(* r.Header.Get(key) on the header lines in the order received: the first value stored under the canonical key *)
Definition header_get (lines : list (bytes * bytes)) (key : bytes) : bytes :=
  match find (fun kv => beq (canon_key (fst kv)) (canon_key key)) lines with
  | Some kv => trim_ows (snd kv)
  | None => []
  end.
Definition NAT_HEADER : bytes := bs "Snowflake-NAT-Type".

(* ---- requests ---- *)
Record hreq := {
  q_method : bytes;
  q_path : bytes;                      (* r.URL.Path *)
  q_hdrs : list (bytes * bytes);       (* header lines, in order *)
  q_sent : bytes }.                    (* the request body as sent *)

(* ---- what /debug, /metrics and /prometheus show of the broker state ---- *)
Record bview := {
  v_snowflakes : list (bytes * bytes);   (* (proxyType, natType) of every entry of idToSnowflake *)
  v_metrics : option bytes;              (* contents of the metrics log; None: no file name or unreadable *)
  v_prom : bytes }.                      (* text exposition of the prometheus registry *)

Definition KNOWN_TYPES : list bytes := [bs "standalone"; bs "badge"; bs "webext"; bs "iptproxy"].
Definition count_if {A} (f : A -> bool) (l : list A) : N := N.of_nat (List.length (filter f l)).
Definition TAB : N := 9.
Definition NL : N := 10.
(* IPC.Debug. The per-type lines come out of a Go map iteration (any order): here in the order of KNOWN_TYPES *)
Definition debug_body (sf : list (bytes * bytes)) : bytes :=
  bs "current snowflakes available: " ++ dec_print (N.of_nat (List.length sf)) ++ [NL]
  ++ flat_map (fun t => let n := count_if (fun s => beq (fst s) t) sf in
                        if n =? 0 then [] else TAB :: t ++ bs " proxies: " ++ dec_print n ++ [NL]) KNOWN_TYPES
  ++ TAB :: bs "unknown proxies: " ++ dec_print (count_if (fun s => negb (existsb (beq (fst s)) KNOWN_TYPES)) sf)
  ++ NL :: bs "NAT Types available:"
  ++ NL :: TAB :: bs "restricted: " ++ dec_print (count_if (fun s => beq (snd s) (bs "restricted")) sf)
  ++ NL :: TAB :: bs "unrestricted: " ++ dec_print (count_if (fun s => beq (snd s) (bs "unrestricted")) sf)
  ++ NL :: TAB :: bs "unknown: " ++ dec_print (count_if (fun s => negb (beq (snd s) (bs "restricted")) && negb (beq (snd s) (bs "unrestricted"))) sf).

Definition NOT_FOUND_BODY : bytes := bs "404 page not found" ++ [NL].
Definition ROBOTS_BODY : bytes := bs "User-agent: *" ++ [NL] ++ bs "Disallow: /" ++ [NL].

(* ---- routes of main() on a clean path ---- *)
Inductive route := RRobots | RProxy | RClient | RAnswer | RDebug | RMetrics | RProm | RAmp | RAmpRedirect | RNotFound.
Definition AMP_ROUTE_B : bytes := bs "/amp/client/".
Fixpoint has_prefix (pre s : bytes) : bool :=
  match pre, s with
  | [], _ => true
  | a :: pre', b :: s' => (a =? b) && has_prefix pre' s'
  | _ :: _, [] => false
  end.
Definition route_of (path : bytes) : route :=
  if beq path (bs "/robots.txt") then RRobots
  else if beq path (bs "/proxy") then RProxy
  else if beq path (bs "/client") then RClient
  else if beq path (bs "/answer") then RAnswer
  else if beq path (bs "/debug") then RDebug
  else if beq path (bs "/metrics") then RMetrics
  else if beq path (bs "/prometheus") then RProm
  else if has_prefix AMP_ROUTE_B path then RAmp
  else if beq path (bs "/amp/client") then RAmpRedirect      (* subtree pattern: 301 to /amp/client/ *)
  else RNotFound.

Section Serve.
  Variable St : Type.                                         (* the broker state (BrokerContext) *)
  Variable view : St -> bview.
  Variable encode_client_poll_request : bytes -> bytes -> bytes.
  Variable decode_client_poll_response : bytes -> option cpresp.
  Variable encode_client_error : bytes -> bytes.
  Variable amp_decode_path : bytes -> option bytes.
  Variable amp_armor : bytes -> bytes.
  (* the IPC layer: the ONLY way a handler touches the broker state *)
  Variable ipc_client ipc_proxy ipc_answer : St -> bytes -> ipcres * St.

  Definition wstatus (code : N) (w : rw) (s : St) : outc rw * St := (write_header code w, s).

  (* tail of clientOffers for a legacy request *)
  Definition legacy_w (v : hversion) (response : bytes) (w : rw) : outc rw :=
    match decode_client_poll_response response with
    | None => write_header 500 w
    | Some r =>
        match r_error r with
        | [] => Ret (write (r_answer r) w)
        | e => if beq e STR_NO_PROXIES then write_header 503 w
               else if beq e STR_TIMED_OUT then write_header 504 w
               else match v with H0 => Panicked (* panic("unknown error") *) | H1 => write_header 400 w end
        end
    end.

  Definition client_offers_w (v : hversion) (s : St) (q : hreq) (w : rw) : outc rw * St :=
    match read_body (q_sent q) with
    | ReadTooLarge => wstatus 400 w s
    | ReadOk body =>
        (* len(body) > 0 && body[0] == '{' *)
        let first := if (0 <? List.length body)%nat then index_at body 0 else Ret 0 in
        match first with
        | Panicked => (Panicked, s)
        | Ret b0 =>
            let legacy := (0 <? List.length body)%nat && (b0 =? 123) in
            let body' := if legacy then encode_client_poll_request body (header_get (q_hdrs q) NAT_HEADER) else body in
            let (r, s') := ipc_client s body' in
            match r with
            | IpcOk response => ((if legacy then legacy_w v response w else Ret (write response w)), s')
            | _ => wstatus 500 w s'
            end
        end
    end.

  Definition ipc_status_w (r : ipcres) (w : rw) : outc rw :=
    match r with
    | IpcOk response => Ret (write response w)
    | IpcBadRequest => write_header 400 w
    | IpcInternal | IpcOtherErr => write_header 500 w
    end.

  Definition post_w (ipc : St -> bytes -> ipcres * St) (s : St) (q : hreq) (w : rw) : outc rw * St :=
    match read_body (q_sent q) with
    | ReadTooLarge => wstatus 400 w s
    | ReadOk body => let (r, s') := ipc s body in (ipc_status_w r w, s')
    end.

  (* ampClientOffers: strings.TrimPrefix = HasPrefix then path[len(prefix):] *)
  Definition amp_w (s : St) (q : hreq) (w : rw) : outc rw * St :=
    let path := q_path q in
    let trimmed := if has_prefix AMP_ROUTE_B path then slice_from path (List.length AMP_ROUTE_B) else Ret path in
    match trimmed with
    | Panicked => (Panicked, s)
    | Ret p =>
        if beq p path then wstatus 500 w s
        else match amp_decode_path p with
             | Some body =>
                 let (r, s') := ipc_client s body in
                 match r with
                 | IpcOk response =>
                     (match write_header 200 w with Ret w' => Ret (write (amp_armor response) w') | Panicked => Panicked end, s')
                 | _ => wstatus 500 w s'
                 end
             | None =>
                 (match write_header 200 w with
                  | Ret w' => Ret (write (amp_armor (encode_client_error (bs "cannot decode URL path"))) w')
                  | Panicked => Panicked end, s)
             end
    end.

  Definition debug_w (s : St) (w : rw) : outc rw := Ret (write (debug_body (v_snowflakes (view s))) w).
  (* http.NotFound = http.Error(w, "404 page not found", 404): WriteHeader then the text and a newline *)
  Definition not_found_w (w : rw) : outc rw :=
    match write_header 404 w with Ret w' => Ret (write NOT_FOUND_BODY w') | Panicked => Panicked end.
  Definition metrics_w (s : St) (w : rw) : outc rw :=
    match v_metrics (view s) with
    | None => not_found_w w
    | Some content => Ret (match content with [] => w | _ => write content w end)   (* io.Copy of an empty file writes nothing *)
    end.

  (* SnowflakeHandler.ServeHTTP / MetricsHandler.ServeHTTP *)
  Definition OPTIONS : bytes := bs "OPTIONS".
  Definition cors_wrap (q : hreq) (h : rw -> outc rw * St) (s : St) : outc rw * St :=
    let w := set_cors rw_new in
    if beq (q_method q) OPTIONS then (Ret w, s) else h w.

  Definition handle (v : hversion) (r : route) (s : St) (q : hreq) : outc rw * St :=
    match r with
    | RRobots => (Ret (write ROBOTS_BODY rw_new), s)
    | RProxy => cors_wrap q (post_w ipc_proxy s q) s
    | RClient => cors_wrap q (client_offers_w v s q) s
    | RAnswer => cors_wrap q (post_w ipc_answer s q) s
    | RDebug => cors_wrap q (fun w => (debug_w s w, s)) s
    | RMetrics => cors_wrap q (fun w => (metrics_w s w, s)) s
    | RProm => (Ret (write (v_prom (view s)) rw_new), s)
    | RAmp => cors_wrap q (amp_w s q) s
    | RAmpRedirect => (write_header 301 rw_new, s)
    | RNotFound => (not_found_w rw_new, s)
    end.

  Definition HEAD : bytes := bs "HEAD".
  Definition respond (q : hreq) (o : outc rw) : outc resp :=
    match o with Ret w => Ret (finish (beq (q_method q) HEAD) w) | Panicked => Panicked end.

  (* one request against the server *)
  Definition serve_req (v : hversion) (s : St) (q : hreq) : outc resp * St :=
    let (o, s') := handle v (route_of (q_path q)) s q in (respond q o, s').

  (* a history of requests, one after the other *)
  Fixpoint run_reqs (v : hversion) (s : St) (qs : list hreq) : list (hreq * outc resp) :=
    match qs with
    | [] => []
    | q :: r => let (o, s') := serve_req v s q in (q, o) :: run_reqs v s' r
    end.

  (* requests that get as far as an IPC call (syntactic: route, method, size, AMP path) *)
  Definition within_limit (q : hreq) : bool := match read_body (q_sent q) with ReadOk _ => true | ReadTooLarge => false end.
  Definition reaches_ipc (q : hreq) : bool :=
    negb (beq (q_method q) OPTIONS) &&
    match route_of (q_path q) with
    | RProxy | RClient | RAnswer => within_limit q
    | RAmp => match amp_decode_path (skipn (List.length AMP_ROUTE_B) (q_path q)) with Some _ => true | None => false end
    | _ => false
    end.
End Serve.
