(* PeerLife.v — the life cycle of a WebRTCPeer (client/lib/webrtc.go: Close, Closed, cleanup, lastReceive) on top
   of the Peers interleaving machine (Model/Peers.v), at the granularity Pop and Count/purgeClosedPeers need.

     func (c *WebRTCPeer) Closed() bool { select { case <-c.closed: return true; default: }; return false }
     func (c *WebRTCPeer) Close() error {
         c.once.Do(func() {
             close(c.closed)      // LL_CloseBegin: from here on Closed() answers true ...
             c.cleanup()          // ... while the pipe, the DataChannel and the PeerConnection are torn down (takes time)
         })                       // LL_CloseEnd: the teardown is over
         return nil
     }

   In Model/Peers.v a peer closing is ONE step (Peer_closes p sets the flag Closed() reads).  Here Close is TWO steps:
   between LL_CloseBegin p and LL_CloseEnd p the peer is being torn down (`begun p = true`, `torn p = false`).  What
   Closed() answers is still the flag `closedf` of the Peers machine; the ORDER in which Close sets that flag is the
   parameter `close_order`:
     FlagFirst  the code: close(c.closed) before cleanup()  - the flag is set by LL_CloseBegin;
     FlagLast   kept only to show that the theorems depend on the order: cleanup() before close(c.closed) - the
                flag is set by LL_CloseEnd, so Closed() still answers false during the teardown.
   `quiet p` = the peer's lastReceive is older than SnowflakeTimeout (LL_Quiet p: time passes without a message;
   LL_Recv p: OnMessage sets lastReceive = now).  Closed() does not read it: a quiet peer is closed by its staleness
   checker calling Close (LL_CloseBegin, like every other Close), never by Count()/Pop() looking at it.

   End (End_closepeers): Count() purges the peers whose Closed() is true - End does not wait for a teardown in
   progress - and calls Close on every other active peer, one after the other (begin and end of each inside the
   step; under FlagLast the step also absorbs the end of a teardown in progress, which once.Do would wait for).
   sync.Once: a second Close of the same peer does nothing (LL_CloseBegin is enabled once per peer).
   Executable definitions only. *)
From Coq Require Import List Arith Bool.
From Snow Require Import Model.Peers.
Import ListNotations.

Inductive close_order := FlagFirst | FlagLast.

Record lstate := mkLS {
  lp : state;               (* the collection (Model/Peers.v); closedf (lp s) is what Closed() answers *)
  begun : peer -> bool;     (* Close has entered once.Do: the teardown has begun *)
  torn : peer -> bool;      (* cleanup() has returned *)
  quiet : peer -> bool      (* lastReceive is older than SnowflakeTimeout *)
}.

Inductive llabel :=
| LL_P (l : label)            (* a step of the Peers machine other than Peer_closes *)
| LL_CloseBegin (p : peer)    (* somebody (OnClose of the data channel, the staleness checker, the data path) calls Close *)
| LL_CloseEnd (p : peer)      (* that Close call returns *)
| LL_Quiet (p : peer)
| LL_Recv (p : peer).

Definition linit (max : nat) : lstate := mkLS (init max) (fun _ => false) (fun _ => false) (fun _ => false).

Definition unmark (f : peer -> bool) (p : peer) : peer -> bool := fun q => if Nat.eqb q p then false else f q.

(* the peers End calls Close on: active and Closed() false *)
Definition end_closes (s : lstate) : list peer := filter (live (lp s)) (active (lp s)).

Definition lstep (v : version) (o : close_order) (s : lstate) (l : llabel) : option lstate :=
  match l with
  | LL_P (Peer_closes _) => None
  | LL_P (End_closepeers i) =>
      match step v (lp s) (End_closepeers i) with
      | Some s' => Some (mkLS s' (close_all (begun s) (end_closes s)) (close_all (torn s) (end_closes s)) (quiet s))
      | None => None
      end
  | LL_P pl =>
      match step v (lp s) pl with
      | Some s' => Some (mkLS s' (begun s) (torn s) (quiet s))
      | None => None
      end
  | LL_CloseBegin p =>
      if begun s p then None else
      match o with
      | FlagFirst =>
          match step v (lp s) (Peer_closes p) with
          | Some s' => Some (mkLS s' (close_peer (begun s) p) (torn s) (quiet s))
          | None => None
          end
      | FlagLast =>
          if panicked (lp s) then None else
          if p <? next_peer (lp s) then Some (mkLS (lp s) (close_peer (begun s) p) (torn s) (quiet s)) else None
      end
  | LL_CloseEnd p =>
      if begun s p && negb (torn s p) then
        match o with
        | FlagFirst => Some (mkLS (lp s) (begun s) (close_peer (torn s) p) (quiet s))
        | FlagLast =>
            match step v (lp s) (Peer_closes p) with
            | Some s' => Some (mkLS s' (begun s) (close_peer (torn s) p) (quiet s))
            | None => None
            end
        end
      else None
  | LL_Quiet p =>
      if p <? next_peer (lp s) then Some (mkLS (lp s) (begun s) (torn s) (close_peer (quiet s) p)) else None
  | LL_Recv p =>
      if p <? next_peer (lp s) then Some (mkLS (lp s) (begun s) (torn s) (unmark (quiet s) p)) else None
  end.

Fixpoint lrun (v : version) (o : close_order) (s : lstate) (tr : list llabel) : option lstate :=
  match tr with
  | [] => Some s
  | l :: tr' => match lstep v o s l with Some s' => lrun v o s' tr' | None => None end
  end.

(* a peer the data path may be given: nobody has begun to close it *)
Definition untouched (s : lstate) (p : peer) : bool := negb (begun s p).

(* ---- settling (big-step use by the correspondence, Run/PeersRun.v): every thread of the Peers machine runs until it
   has returned or is blocked; Close calls in progress stay in progress until the script ends them *)

Definition ltry (v : version) (o : close_order) (s : lstate) (ol : option label) : option lstate :=
  match ol with Some l => lstep v o s (LL_P l) | None => None end.

Definition lsettle_once (v : version) (o : close_order) (s : lstate) : option lstate :=
  match ltry v o s (col_next v (lp s)) with
  | Some s' => Some s'
  | None =>
      match first_some (fun i => ltry v o s (end_next (lp s) i)) (length (ends (lp s))) 0 with
      | Some s' => Some s'
      | None => first_some (fun i => ltry v o s (pop_next (lp s) i)) (length (pops (lp s))) 0
      end
  end.

Fixpoint lsettle (v : version) (o : close_order) (fuel : nat) (s : lstate) : lstate :=
  match fuel with
  | O => s
  | S k => match lsettle_once v o s with Some s' => lsettle v o k s' | None => s end
  end.
