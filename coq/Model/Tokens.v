(* Tokens.v — executable model of proxy/lib/tokens.go (tokens_t).

   Go:
     get():  atomic.AddInt64(&clients, 1);  if capacity != 0 { ch <- struct{}{} }   (blocks when ch is full)
     ret():  atomic.AddInt64(&clients, -1); if capacity != 0 { <-ch }              (blocks when ch is empty)
     count(): atomic.LoadInt64(&clients)
   ch is a buffered channel of size capacity; capacity 0 means "no channel": nothing ever blocks
   (unlimited number of clients).  get and ret are therefore TWO atomic steps each; the counter is
   changed BEFORE the channel operation.  The load figure of a poll (snowflake.go pollOffer) is
     int((tokens.count() / 8) * 8)       -- Go integer division truncates toward zero: Z.quot.

   Definitions only (no proofs). *)
From Coq Require Import ZArith Arith Bool.
Local Open Scope Z_scope.

Record tokens := mkTok { cap : nat; clients : Z; chlen : nat }.

Definition new_tokens (c : nat) : tokens := mkTok c 0 0.

(* first half of get / ret: the atomic counter *)
Definition tok_inc (t : tokens) : tokens := mkTok (cap t) (clients t + 1) (chlen t).
Definition tok_dec (t : tokens) : tokens := mkTok (cap t) (clients t - 1) (chlen t).

(* second half of get: channel send; enabled iff there is room (or there is no channel) *)
Definition send_ready (t : tokens) : bool := (cap t =? 0)%nat || (chlen t <? cap t)%nat.
Definition tok_send (t : tokens) : tokens :=
  if (cap t =? 0)%nat then t else mkTok (cap t) (clients t) (S (chlen t)).

(* second half of ret: channel receive; enabled iff the channel holds an element (or no channel) *)
Definition recv_ready (t : tokens) : bool := (cap t =? 0)%nat || (0 <? chlen t)%nat.
Definition tok_recv (t : tokens) : tokens :=
  if (cap t =? 0)%nat then t else mkTok (cap t) (clients t) (pred (chlen t)).

Definition count (t : tokens) : Z := clients t.

(* numClients := int((tokens.count() / 8) * 8) *)
Definition reported (t : tokens) : Z := Z.quot (count t) 8 * 8.
