(* NameMatcher.v — model of /repo/common/namematcher/matcher.go, exactly as written.
   Executable definitions only (proofs: Proofs/NameMatcherProofs.v).

   Go strings are byte strings: [bytes] = [list N].  The four [strings] functions used by
   the package are modelled from their Go definitions:
     HasPrefix(s, p)  = len(s) >= len(p) && s[:len(p)] == p
     HasSuffix(s, x)  = len(s) >= len(x) && s[len(s)-len(x):] == x
     TrimPrefix(s, p) = if HasPrefix(s, p) { s[len(p):] } else { s }
     TrimSuffix(s, x) = if HasSuffix(s, x) { s[:len(s)-len(x)] } else { s }            *)
From Coq Require Import List NArith Bool Arith.
From Snow Require Import Lib.Wire.
Import ListNotations.
Open Scope N_scope.

Definition DOLLAR : N := 36.
Definition CARET : N := 94.

Definition has_prefix (s p : bytes) : bool :=
  (length p <=? length s)%nat && beq (firstn (length p) s) p.

Definition has_suffix (s x : bytes) : bool :=
  (length x <=? length s)%nat && beq (skipn (length s - length x) s) x.

Definition trim_prefix (s p : bytes) : bytes :=
  if has_prefix s p then skipn (length p) s else s.

Definition trim_suffix (s x : bytes) : bytes :=
  if has_suffix s x then firstn (length s - length x) s else s.

(* type NameMatcher struct { exact bool; suffix string } *)
Record matcher := mk_matcher { m_exact : bool; m_suffix : bytes }.

(* func NewNameMatcher(rule string) NameMatcher {
       rule = strings.TrimSuffix(rule, "$")
       return NameMatcher{suffix: strings.TrimPrefix(rule, "^"), exact: strings.HasPrefix(rule, "^")} } *)
Definition new_matcher (rule : bytes) : matcher :=
  let rule := trim_suffix rule [DOLLAR] in
  mk_matcher (has_prefix rule [CARET]) (trim_prefix rule [CARET]).

(* func IsValidRule(rule string) bool { return strings.HasSuffix(rule, "$") } *)
Definition is_valid_rule (rule : bytes) : bool := has_suffix rule [DOLLAR].

(* func (m *NameMatcher) IsSupersetOf(matcher NameMatcher) bool {
       if m.exact { return matcher.exact && m.suffix == matcher.suffix }
       return strings.HasSuffix(matcher.suffix, m.suffix) } *)
Definition is_superset_of (m o : matcher) : bool :=
  if m_exact m then m_exact o && beq (m_suffix m) (m_suffix o)
  else has_suffix (m_suffix o) (m_suffix m).

(* func (m *NameMatcher) IsMember(s string) bool {
       if m.exact { return s == m.suffix }
       return strings.HasSuffix(s, m.suffix) } *)
Definition is_member (m : matcher) (s : bytes) : bool :=
  if m_exact m then beq s (m_suffix m) else has_suffix s (m_suffix m).

(* ---- small-scope enumeration shared with the Go driver (same order) ---- *)
Definition ALPHA : list N := [97; 46; CARET; DOLLAR].          (* a . ^ $ *)

Fixpoint words (n : nat) : list bytes :=
  match n with
  | O => [[]]
  | S k => flat_map (fun w => map (fun c => c :: w) ALPHA) (words k)
  end.

(* all 85 strings of length <= 3 over ALPHA *)
Definition small_words : list bytes := words 0 ++ words 1 ++ words 2 ++ words 3.
