(* BrokerJournal.v — the broker's metrics and its distinct-IP journal together (composition of Model/Metrics.v and
   Model/Journal.v along the call site in broker/ipc.go).  Executable definitions only.

   What the code does (IPC.ProxyPolls, after the relay-pattern check has passed and RemoteAddr has split):
       metrics.lock.Lock()
       metrics.UpdateCountryStats(remoteIP, proxyType, natType)     -- per-period, per-type de-duplication lives here
       metrics.RecordIPAddress(remoteIP)                            -- distinctIPWriter.AddIPToSet(remoteIP), when attached
       metrics.lock.Unlock()
   so EVERY accepted poll hands its address to the journal writer, at the writer's clock reading of that moment,
   whatever the de-duplication sets of the metrics period contain.  Rejected polls (relay pattern) return before,
   polls whose RemoteAddr does not split skip both calls, undecodable polls return at the top.
   zeroMetrics does not touch the writer.  Both calls run under metrics.lock: a poll is one atomic step here. *)
From Coq Require Import List ZArith NArith Bool.
From Snow Require Import Lib.Wire Model.Metrics Model.Journal.
Import ListNotations.
Open Scope Z_scope.

(* the address ProxyPolls hands to RecordIPAddress *)
Definition recorded (o : op) : option bytes :=
  match o with
  | ProxyPoll (Some (ad, _)) _ _ _ out => match out with Rejected => None | _ => Some ad end
  | _ => None
  end.

(* an IPC/metrics op at the writer's clock reading [now]; an explicit WriteIPSetToDisk *)
Inductive bop := At (now : Z) (o : op) | FlushAt (now : Z).

(* projections of a broker history: what the metrics see, what the journal writer sees *)
Definition mop_of (o : bop) : list op := match o with At _ o => [o] | FlushAt _ => [] end.
Definition jop_of (o : bop) : list (jop bytes) :=
  match o with
  | At now o => match recorded o with Some ad => [Add now ad] | None => [] end
  | FlushAt now => [Flush now]
  end.
(* specification side: the accepted polls with their instants *)
Definition accepted (o : bop) : list (Z * bytes) :=
  match o with
  | At now o => match recorded o with Some ad => [(now, ad)] | None => [] end
  | FlushAt _ => []
  end.
Definition bop_time (o : bop) : Z := match o with At t _ => t | FlushAt t => t end.

Section BrokerJournal.
  Variable hash : Type.
  Variable mask : bytes -> hash.
  Variable heqb : hash -> hash -> bool.

  Record bstate := { b_m : mstate; b_w : writer hash }.

  Definition bapply (s : bstate) (o : bop) : bstate :=
    match o with
    | At now o =>
        {| b_m := apply_op (b_m s) o;
           b_w := match recorded o with Some ad => add bytes hash mask heqb now ad (b_w s) | None => b_w s end |}
    | FlushAt now => {| b_m := b_m s; b_w := flush hash now (b_w s) |}
    end.
  Definition brun (ops : list bop) (s : bstate) : bstate := fold_left bapply ops s.
  Definition binit (g : bool) (t0 interval : Z) : bstate := {| b_m := minit g; b_w := new_writer t0 interval |}.

  (* the same with a journal sink that may fail (Model/Journal.v, fwriter) *)
  Record bfstate := { bf_m : mstate; bf_w : fwriter hash }.
  Definition bfapply (s : bfstate) (o : bop) : bfstate :=
    match o with
    | At now o =>
        {| bf_m := apply_op (bf_m s) o;
           bf_w := match recorded o with Some ad => fadd bytes hash mask heqb now ad (bf_w s) | None => bf_w s end |}
    | FlushAt now => {| bf_m := bf_m s; bf_w := fflush hash now (bf_w s) |}
    end.
  Definition bfrun (ops : list bop) (s : bfstate) : bfstate := fold_left bfapply ops s.
  Definition bfinit (g : bool) (t0 interval : Z) (plan : list wres) : bfstate :=
    {| bf_m := minit g; bf_w := fnew t0 interval plan |}.
End BrokerJournal.

Arguments b_m {hash}. Arguments b_w {hash}. Arguments Build_bstate {hash}.
Arguments bf_m {hash}. Arguments bf_w {hash}. Arguments Build_bfstate {hash}.
