(* ClientMap.v — common/turbotunnel/clientmap.go: clientMapInner with an explicit clock.

   byAge  : the slice of records, a container/heap ordered by LastSeen (GoHeap.v);
   byAddr : Go map addr -> index into byAge, modelled as an association list kept sorted by
            address (canonical observation); written by Swap/Push/Pop exactly where the Go
            methods write it.
   Each record owns its send queue (a buffered channel of capacity queueSize); a queue has an
   identity [c_qid] (allocation order) so that "the same queue is kept" / "a new queue was
   made" can be stated.  Pop closes the channel: the record's queue moves to [dead]
   (a closed Go channel still hands out what was buffered, then reports closed).

   Times are Z (the driver uses small offsets from a fixed instant, so time.Time/Duration
   arithmetic does not saturate); Less is LastSeen.Before, expiry is
   now.Sub(LastSeen) >= timeout, both as in the code.

   Executable definitions only. *)
From Coq Require Import List NArith ZArith Bool Arith.
From Snow Require Import Model.GoHeap.
Import ListNotations.

Definition payload := list N.

Record crec := mkrec { c_addr : N; c_seen : Z; c_qid : nat; c_q : list payload }.

Record cmap := mkcm {
  byAge : list crec;
  byAddr : list (N * nat);
  next_qid : nat;
  dead : list (nat * list payload)     (* closed queues, oldest first, with what was left in them *)
}.

Definition cm_empty : cmap := mkcm [] [] 0 [].

(* ---- Go map as association list (sorted insert; lookups do not rely on sortedness) *)
Fixpoint amap_get (a : N) (m : list (N * nat)) : option nat :=
  match m with
  | [] => None
  | (b, i) :: t => if N.eqb a b then Some i else amap_get a t
  end.

Fixpoint amap_set (a : N) (i : nat) (m : list (N * nat)) : list (N * nat) :=
  match m with
  | [] => [(a, i)]
  | (b, j) :: t =>
      if N.eqb a b then (a, i) :: t
      else if N.ltb a b then (a, i) :: m
      else (b, j) :: amap_set a i t
  end.

Definition amap_del (a : N) (m : list (N * nat)) : list (N * nat) :=
  filter (fun e => negb (N.eqb a (fst e))) m.

(* ---- heap.Interface for clientMapInner *)
Definition rec_less (a b : crec) : bool := Z.ltb (c_seen a) (c_seen b).     (* LastSeen.Before *)

Definition set_byAge (s : cmap) (l : list crec) : cmap := mkcm l (byAddr s) (next_qid s) (dead s).
Definition set_byAddr (s : cmap) (m : list (N * nat)) : cmap := mkcm (byAge s) m (next_qid s) (dead s).

Definition cm_len (s : cmap) : nat := length (byAge s).
Definition cm_less (s : cmap) (i j : nat) : bool := lless rec_less (byAge s) i j.

(* func (inner) Swap(i, j) { byAge[i], byAge[j] = byAge[j], byAge[i]
                             byAddr[byAge[i].Addr] = i; byAddr[byAge[j].Addr] = j }
   (an index out of range would be a Go panic; the heap functions never produce one, see
   Proofs/ClientMapProofs.v; the model leaves the state alone in that case) *)
Definition cm_swap (s : cmap) (i j : nat) : cmap :=
  let l := lswap (byAge s) i j in
  match nth_error l i, nth_error l j with
  | Some ri, Some rj =>
      mkcm l (amap_set (c_addr rj) j (amap_set (c_addr ri) i (byAddr s))) (next_qid s) (dead s)
  | _, _ => s
  end.

(* func (inner) Push(x) { byAddr[record.Addr] = len(byAge); byAge = append(byAge, record) } *)
Definition cm_push_method (r : crec) (s : cmap) : cmap :=
  mkcm (byAge s ++ [r]) (amap_set (c_addr r) (length (byAge s)) (byAddr s)) (next_qid s) (dead s).

(* func (inner) Pop() { n := len(byAddr); record := byAge[n-1]; byAge = byAge[:n-1]
                        delete(byAddr, record.Addr); close(record.SendQueue); return record } *)
Definition cm_pop_method (s : cmap) : cmap * option crec :=
  let n := length (byAddr s) in
  match nth_error (byAge s) (n - 1) with
  | Some r =>
      (mkcm (firstn (n - 1) (byAge s)) (amap_del (c_addr r) (byAddr s)) (next_qid s)
            (dead s ++ [(c_qid r, c_q r)]), Some r)
  | None => (s, None)
  end.

Definition cm_heap_push (r : crec) (s : cmap) : cmap :=
  heap_push cmap cm_len cm_less cm_swap (cm_push_method r) s.
Definition cm_heap_pop (s : cmap) : cmap * option crec :=
  heap_pop cmap cm_len cm_less cm_swap cm_pop_method s.
Definition cm_heap_fix (s : cmap) (i : nat) : cmap :=
  heap_fix cmap cm_len cm_less cm_swap s i.

(* ---- clientMapInner.SendQueue(addr, now): returns the identity of the queue *)
Definition set_seen (r : crec) (now : Z) : crec := mkrec (c_addr r) now (c_qid r) (c_q r).

Definition send_queue (a : N) (now : Z) (s : cmap) : cmap * nat :=
  match amap_get a (byAddr s) with
  | Some i =>
      match nth_error (byAge s) i with
      | Some r =>
          let s1 := set_byAge s (set_nth i (set_seen r now) (byAge s)) in
          (cm_heap_fix s1 i, c_qid r)
      | None => (s, 0)       (* Go: index out of range panic; unreachable (invariant) *)
      end
  | None =>
      let r := mkrec a now (next_qid s) [] in
      let s1 := mkcm (byAge s) (byAddr s) (S (next_qid s)) (dead s) in
      (cm_heap_push r s1, c_qid r)
  end.

(* ---- removeExpired(now, timeout):
        for len(byAge) > 0 && now.Sub(byAge[0].LastSeen) >= timeout { heap.Pop(inner) }
   every iteration removes one record, so fuel = len(byAge) is never exhausted *)
Definition expired (now timeout : Z) (r : crec) : bool := Z.geb (now - c_seen r) timeout.

Fixpoint remove_expired_aux (fuel : nat) (now timeout : Z) (s : cmap) : cmap :=
  match fuel with
  | O => s
  | S f =>
      match byAge s with
      | [] => s
      | r0 :: _ =>
          if expired now timeout r0 then remove_expired_aux f now timeout (fst (cm_heap_pop s))
          else s
      end
  end.
Definition remove_expired (now timeout : Z) (s : cmap) : cmap :=
  remove_expired_aux (length (byAge s)) now timeout s.

(* ---- the channels: non-blocking send to / receive from a record's queue *)
Fixpoint find_qid (k : nat) (l : list crec) : option nat :=
  match l with
  | [] => None
  | r :: t => if Nat.eqb (c_qid r) k then Some 0 else option_map S (find_qid k t)
  end.

Definition set_q (r : crec) (q : list payload) : crec := mkrec (c_addr r) (c_seen r) (c_qid r) q.

(* select { case ch <- p: ; default: }  on the live queue k; true = accepted *)
Definition q_send (cap : nat) (k : nat) (p : payload) (s : cmap) : cmap * bool :=
  match find_qid k (byAge s) with
  | Some i =>
      match nth_error (byAge s) i with
      | Some r =>
          if length (c_q r) <? cap
          then (set_byAge s (set_nth i (set_q r (c_q r ++ [p])) (byAge s)), true)
          else (s, false)
      | None => (s, false)
      end
  | None => (s, false)
  end.

Inductive rcv := RcvPkt (p : payload) | RcvEmpty | RcvClosed.

Fixpoint dead_take (k : nat) (d : list (nat * list payload)) : list (nat * list payload) * rcv :=
  match d with
  | [] => ([], RcvEmpty)       (* not a queue that was ever closed *)
  | (k', q) :: t =>
      if Nat.eqb k' k then
        match q with
        | [] => (d, RcvClosed)
        | p :: q' => ((k', q') :: t, RcvPkt p)
        end
      else let '(t', r) := dead_take k t in ((k', q) :: t', r)
  end.

(* select { case p, ok := <-ch: ; default: }  on queue k (live or closed) *)
Definition q_recv (k : nat) (s : cmap) : cmap * rcv :=
  match find_qid k (byAge s) with
  | Some i =>
      match nth_error (byAge s) i with
      | Some r =>
          match c_q r with
          | [] => (s, RcvEmpty)
          | p :: q' => (set_byAge s (set_nth i (set_q r q') (byAge s)), RcvPkt p)
          end
      | None => (s, RcvEmpty)
      end
  | None =>
      let '(d, r) := dead_take k (dead s) in
      (mkcm (byAge s) (byAddr s) (next_qid s) d, r)
  end.

(* ---- operations of the explicit-clock driver *)
Inductive cm_op :=
| CSend (a : N) (now : Z)               (* inner.SendQueue(addr, now) *)
| CExpire (now : Z) (timeout : Z).      (* inner.removeExpired(now, timeout) *)

Definition cm_step (s : cmap) (o : cm_op) : cmap :=
  match o with
  | CSend a now => fst (send_queue a now s)
  | CExpire now timeout => remove_expired now timeout s
  end.

Definition cm_run (ops : list cm_op) (s : cmap) : cmap := fold_left cm_step ops s.
