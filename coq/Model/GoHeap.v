(* GoHeap.v — Go's container/heap (go1.23 src/container/heap/heap.go), executable model.

   The Go package works on a `heap.Interface` (Len, Less(i,j), Swap(i,j), Push(x), Pop()).
   The model is generic in the same way: a state type [St] with [len], [less], [swap];
   [up] and [down] are the two unexported loops, written as in the Go source, and
   [heap_push], [heap_pop], [heap_remove], [heap_fix], [heap_init] are the exported functions
   (the client's own Push/Pop methods are passed as functions, as in Go).

   Any side effect the client performs in Swap (e.g. turbotunnel's clientMapInner writes the
   new positions into byAddr; the broker's SnowflakeHeap writes `index` into the elements) is
   part of the client's [swap] and therefore happens exactly where Go performs it.

   [ListHeap] is the instance for a plain [list A] with an element order [lessA]; it is the
   form the proofs (Proofs/GoHeapProofs.v) reason about, and the form clients are related
   to by a simulation lemma.

   Self-contained: depends on the Coq standard library only.  Executable definitions only. *)
From Coq Require Import List Arith Bool.
Import ListNotations.

Section Generic.
  Variable St : Type.
  Variable len : St -> nat.
  Variable less : St -> nat -> nat -> bool.
  Variable swap : St -> nat -> nat -> St.

  (* func up(h Interface, j int) {
       for { i := (j - 1) / 2 // parent
             if i == j || !h.Less(j, i) { break }
             h.Swap(i, j); j = i } }
     (for j = 0 Go computes (-1)/2 = 0 = j; on nat (0-1)/2 = 0 as well).
     The loop runs at most j times (j strictly decreases), so fuel j+1 is never exhausted. *)
  Fixpoint up_aux (fuel : nat) (s : St) (j : nat) : St :=
    match fuel with
    | O => s
    | S f =>
        let i := (j - 1) / 2 in
        if (i =? j) || negb (less s j i) then s
        else up_aux f (swap s i j) i
    end.
  Definition up (s : St) (j : nat) : St := up_aux (S j) s j.

  (* func down(h Interface, i0, n int) bool {
       i := i0
       for { j1 := 2*i + 1
             if j1 >= n || j1 < 0 { break }
             j := j1
             if j2 := j1 + 1; j2 < n && h.Less(j2, j1) { j = j2 }
             if !h.Less(j, i) { break }
             h.Swap(i, j); i = j }
       return i > i0 }
     Returns the new state and the final position i (Go's result is [i0 <? i]).
     i strictly increases and stays below n, so fuel n is never exhausted. *)
  Fixpoint down_aux (fuel : nat) (s : St) (i n : nat) : St * nat :=
    match fuel with
    | O => (s, i)
    | S f =>
        let j1 := 2 * i + 1 in
        if n <=? j1 then (s, i)
        else
          let j2 := j1 + 1 in
          let j := if (j2 <? n) && less s j2 j1 then j2 else j1 in
          if negb (less s j i) then (s, i)
          else down_aux f (swap s i j) j n
    end.
  Definition down (s : St) (i0 n : nat) : St * nat := down_aux n s i0 n.

  (* func Init(h Interface) { n := h.Len(); for i := n/2 - 1; i >= 0; i-- { down(h, i, n) } } *)
  Fixpoint init_aux (k : nat) (s : St) (n : nat) : St :=
    match k with
    | O => s
    | S k' => init_aux k' (fst (down s k' n)) n
    end.
  Definition heap_init (s : St) : St := let n := len s in init_aux (n / 2) s n.

  (* func Push(h Interface, x any) { h.Push(x); up(h, h.Len()-1) } *)
  Definition heap_push (push_x : St -> St) (s : St) : St :=
    let s1 := push_x s in up s1 (len s1 - 1).

  (* func Pop(h Interface) any { n := h.Len() - 1; h.Swap(0, n); down(h, 0, n); return h.Pop() } *)
  Definition heap_pop {X : Type} (pop : St -> St * X) (s : St) : St * X :=
    let n := len s - 1 in
    let s1 := swap s 0 n in
    let s2 := fst (down s1 0 n) in
    pop s2.

  (* func Remove(h Interface, i int) any {
       n := h.Len() - 1
       if n != i { h.Swap(i, n); if !down(h, i, n) { up(h, i) } }
       return h.Pop() } *)
  Definition heap_remove {X : Type} (pop : St -> St * X) (s : St) (i : nat) : St * X :=
    let n := len s - 1 in
    if n =? i then pop s
    else
      let s1 := swap s i n in
      let '(s2, i') := down s1 i n in
      let s3 := if i <? i' then s2 else up s2 i in
      pop s3.

  (* func Fix(h Interface, i int) { if !down(h, i, h.Len()) { up(h, i) } } *)
  Definition heap_fix (s : St) (i : nat) : St :=
    let '(s1, i') := down s i (len s) in
    if i <? i' then s1 else up s1 i.
End Generic.


(* ---------------------------------------------------------------- lists *)

Section ListHeap.
  Variable A : Type.
  Variable lessA : A -> A -> bool.

  Fixpoint set_nth (i : nat) (x : A) (l : list A) : list A :=
    match l, i with
    | [], _ => []
    | _ :: t, O => x :: t
    | h :: t, S k => h :: set_nth k x t
    end.

  (* Less(i,j) on a slice; indices out of range (never produced by the heap functions on
     a valid call) give false. *)
  Definition lless (l : list A) (i j : nat) : bool :=
    match nth_error l i, nth_error l j with
    | Some a, Some b => lessA a b
    | _, _ => false
    end.

  (* l[i], l[j] = l[j], l[i]; out of range (never happens on a valid call) leaves l alone *)
  Definition lswap (l : list A) (i j : nat) : list A :=
    match nth_error l i, nth_error l j with
    | Some a, Some b => set_nth j a (set_nth i b l)
    | _, _ => l
    end.

  Definition lup := up (list A) lless lswap.
  Definition ldown := down (list A) lless lswap.
  Definition lfix := heap_fix (list A) (@length A) lless lswap.
  Definition linit := heap_init (list A) (@length A) lless lswap.

  (* the usual slice Push/Pop methods: append / remove last *)
  Definition lpush_method (x : A) (l : list A) : list A := l ++ [x].
  Definition lpop_method (l : list A) : list A * option A := (removelast l, nth_error l (length l - 1)).

  Definition lpush (x : A) (l : list A) : list A :=
    heap_push (list A) (@length A) lless lswap (lpush_method x) l.
  Definition lpop (l : list A) : list A * option A :=
    heap_pop (list A) (@length A) lless lswap lpop_method l.
  Definition lremove (l : list A) (i : nat) : list A * option A :=
    heap_remove (list A) (@length A) lless lswap lpop_method l i.
End ListHeap.

Arguments set_nth {A}.
Arguments lless {A}.
Arguments lswap {A}.
Arguments lup {A}.
Arguments ldown {A}.
Arguments lfix {A}.
Arguments linit {A}.
Arguments lpush {A}.
Arguments lpop {A}.
Arguments lremove {A}.
Arguments lpush_method {A}.
Arguments lpop_method {A}.
