(* RedialQueue.v — the two packet queues of RedialPacketConn with their contents
   (common/turbotunnel/redialpacketconn.go: sendQueue, recvQueue = make(chan []byte, queueSize)).
   Executable definitions only.

   Model/Redial.v keeps only the NUMBER of queued packets (r_sendq, r_recvq); that is all the control
   flow depends on.  Here the same queue carries values, to state "what comes out is, in order, what
   was accepted":
     enqueue   select { case q <- p: default: }     accepted iff len(q) < cap, else dropped silently
     dequeue   p := <-q                             the oldest packet
   ghost_send / ghost_recv say how each label of the machine of Model/Redial.v acts on the contents;
   Proofs/RedialCapacityProofs.v shows that their lengths are the machine's counters. *)
From Coq Require Import List Arith Bool.
From Snow Require Import Model.Redial.
Import ListNotations.

Section BQ.
  Variable A : Type.

  Definition bq_accepts (cap : nat) (q : list A) : bool := length q <? cap.
  Definition bq_push (cap : nat) (q : list A) (x : A) : list A := if bq_accepts cap q then q ++ [x] else q.
  Definition bq_pop (q : list A) : option A * list A :=
    match q with [] => (None, []) | x :: t => (Some x, t) end.

  Inductive bop := BPush (x : A) | BPop.

  (* (packets taken out, packets accepted, queue) after the operations; acc/out are in order *)
  Fixpoint bq_exec (cap : nat) (ops : list bop) (q : list A) : list A * list A * list A :=
    match ops with
    | [] => ([], [], q)
    | BPush x :: ops' =>
        let '(out, acc, q') := bq_exec cap ops' (bq_push cap q x) in
        (out, (if bq_accepts cap q then x :: acc else acc), q')
    | BPop :: ops' =>
        let '(out, acc, q') := bq_exec cap ops' (snd (bq_pop q)) in
        ((match fst (bq_pop q) with Some x => x :: out | None => out end), acc, q')
    end.

  (* the contents of sendQueue / recvQueue along a step of the machine; x = the packet involved *)
  Definition ghost_send (qcap : nat) (s : rstate) (l : label) (q : list A) (x : A) : list A :=
    match l with
    | LUWrite => if r_closed s then q else bq_push qcap q x
    | LWSelPkt _ => snd (bq_pop q)
    | _ => q
    end.

  Definition ghost_recv (qcap : nat) (s : rstate) (l : label) (q : list A) (x : A) : list A :=
    match l with
    | LReadOk _ => bq_push qcap q x
    | LURead => if r_closed s then q else snd (bq_pop q)
    | _ => q
    end.
End BQ.
