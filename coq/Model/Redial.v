(* Redial.v — common/turbotunnel/redialpacketconn.go as a small-step interleaving machine.

   Threads: the dial loop D; per dialed carrier k a reader R k and a writer W k (the two
   goroutines started by exchange).  Channels per carrier: rerr k (readErrCh), werr k
   (writeErrCh), of capacity [ecap]: 0 is the pinned code (make(chan error)), 1 the repaired
   code (make(chan error, 1)).  Only the number of buffered values matters (each thread sends at
   most once).  `defer close(ch)` is merged with the thread's last step.

   The carrier (a net.PacketConn supplied by dialContext) is the environment: a pending
   ReadFrom / WriteTo may return success or an error at any time (labels LReadOk/LReadFail/
   LWriteOk/LWriteFail — all "scripts" are covered by quantifying over traces); once the
   adapter has called Close on the carrier they can only fail.  dialContext returns a new
   carrier or an error (LDialOk / LDialFail).  The user calls WriteTo / ReadFrom / Close
   (LUWrite / LURead / LUClose); ReadFrom is the non-blocking view.

   A Go `select` may take any ready case; `default` only when none is ready; a receive case is
   ready when a value is buffered, the channel is closed, or (capacity 0) a sender is parked on
   it — that rendezvous is a joint step of the two threads (LRSendToD, LRSendToW, LWSendToD,
   LWSendToR).

   Executable definitions only. *)
From Coq Require Import List Arith Bool.
Import ListNotations.

Inductive dpc := DTop | DDial | DExch (k : nat) | DClose (k : nat) | DDone.
Inductive rpc := RTop | RRead | RSend | RDone.
Inductive wpc := WSel | WWrite | WSend | WDone.

Record echan := mkch { ch_buf : nat; ch_closed : bool }.

Record carrier := mkcar {
  c_r : rpc; c_w : wpc;
  c_rerr : echan; c_werr : echan;
  c_nclose : nat                    (* how often the adapter called Close() on it *)
}.

Inductive cerr := ENone | EClosedConn | EDialFailed.

Record rstate := mkrs {
  r_closed : bool;                  (* c.closed is closed *)
  r_err : cerr;                     (* c.err *)
  r_d : dpc;
  r_cs : list carrier;
  r_sendq : nat;                    (* len(c.sendQueue) *)
  r_recvq : nat;                    (* len(c.recvQueue) *)
  g_close_called : bool;            (* ghost: the user called Close *)
  g_dial_failed : bool              (* ghost: dialContext returned an error *)
}.

Definition rs_init : rstate := mkrs false ENone DTop [] 0 0 false false.

Inductive label :=
| LDTop                 (* dialLoop: select { case <-c.closed: return; default: } *)
| LDialOk | LDialFail   (* dialContext returns *)
| LDRecvR | LDRecvW     (* exchange's select receives from readErrCh / writeErrCh (value or closed) *)
| LDCloseCarrier        (* conn.Close() after exchange *)
| LRTopClosed (k : nat) | LRTopWerr (k : nat) | LRTopDefault (k : nat)
| LReadOk (k : nat) | LReadFail (k : nat)
| LRSendBuf (k : nat) | LRSendToD (k : nat) | LRSendToW (k : nat)
| LWSelClosed (k : nat) | LWSelRerr (k : nat) | LWSelPkt (k : nat)
| LWriteOk (k : nat) | LWriteFail (k : nat)
| LWSendBuf (k : nat) | LWSendToD (k : nat) | LWSendToR (k : nat)
| LUWrite | LURead | LUClose.

Definition c_closed (c : carrier) : bool := negb (c_nclose c =? 0).
Definition ch_ready (c : echan) : bool := negb (ch_buf c =? 0) || ch_closed c.
Definition ch_take (c : echan) : echan := mkch (ch_buf c - 1) (ch_closed c).
Definition ch_close (c : echan) : echan := mkch (ch_buf c) true.
Definition ch_put (c : echan) : echan := mkch (S (ch_buf c)) (ch_closed c).
Definition ch_new : echan := mkch 0 false.

Fixpoint upd {A} (l : list A) (k : nat) (x : A) : list A :=
  match l, k with
  | [], _ => []
  | _ :: t, O => x :: t
  | h :: t, S k' => h :: upd t k' x
  end.

Definition set_cs (s : rstate) (cs : list carrier) : rstate :=
  mkrs (r_closed s) (r_err s) (r_d s) cs (r_sendq s) (r_recvq s) (g_close_called s) (g_dial_failed s).
Definition set_d (s : rstate) (d : dpc) : rstate :=
  mkrs (r_closed s) (r_err s) d (r_cs s) (r_sendq s) (r_recvq s) (g_close_called s) (g_dial_failed s).
Definition set_car (s : rstate) (k : nat) (c : carrier) : rstate := set_cs s (upd (r_cs s) k c).

Definition r_exit (c : carrier) : carrier :=       (* reader returns: defer close(readErrCh) *)
  mkcar RDone (c_w c) (ch_close (c_rerr c)) (c_werr c) (c_nclose c).
Definition w_exit (c : carrier) : carrier :=       (* writer returns: defer close(writeErrCh) *)
  mkcar (c_r c) WDone (c_rerr c) (ch_close (c_werr c)) (c_nclose c).
Definition set_r (c : carrier) (p : rpc) : carrier := mkcar p (c_w c) (c_rerr c) (c_werr c) (c_nclose c).
Definition set_w (c : carrier) (p : wpc) : carrier := mkcar (c_r c) p (c_rerr c) (c_werr c) (c_nclose c).
Definition set_rerr (c : carrier) (e : echan) : carrier := mkcar (c_r c) (c_w c) e (c_werr c) (c_nclose c).
Definition set_werr (c : carrier) (e : echan) : carrier := mkcar (c_r c) (c_w c) (c_rerr c) e (c_nclose c).

Definition is_rpc (a b : rpc) : bool :=
  match a, b with RTop, RTop | RRead, RRead | RSend, RSend | RDone, RDone => true | _, _ => false end.
Definition is_wpc (a b : wpc) : bool :=
  match a, b with WSel, WSel | WWrite, WWrite | WSend, WSend | WDone, WDone => true | _, _ => false end.
Definition at_exch (s : rstate) (k : nat) : bool :=
  match r_d s with DExch k' => k' =? k | _ => false end.

Section Step.
  Variable ecap : nat.     (* capacity of the two error channels: 0 (pinned code) or 1 (repaired) *)
  Variable qcap : nat.     (* queueSize *)

  (* on carrier k, guarded by a condition on it *)
  Definition on_car (s : rstate) (k : nat) (f : carrier -> option rstate) : option rstate :=
    match nth_error (r_cs s) k with
    | Some c => f c
    | None => None
    end.

  Definition step (s : rstate) (l : label) : option rstate :=
    match l with
    | LDTop =>
        match r_d s with
        | DTop => Some (set_d s (if r_closed s then DDone else DDial))
        | _ => None
        end
    | LDialOk =>
        match r_d s with
        | DDial =>
            (* exchange(conn): make the channels, start the two goroutines, wait in select *)
            let k := length (r_cs s) in
            Some (set_d (set_cs s (r_cs s ++ [mkcar RTop WSel ch_new ch_new 0])) (DExch k))
        | _ => None
        end
    | LDialFail =>
        match r_d s with
        | DDial =>
            (* closeWithError(err): the Once stores the error and closes c.closed only the first time *)
            let s1 := if r_closed s then s
                      else mkrs true EDialFailed (r_d s) (r_cs s) (r_sendq s) (r_recvq s) (g_close_called s) (g_dial_failed s) in
            Some (mkrs (r_closed s1) (r_err s1) DDone (r_cs s1) (r_sendq s1) (r_recvq s1) (g_close_called s1) true)
        | _ => None
        end
    | LDRecvR =>
        match r_d s with
        | DExch k => on_car s k (fun c =>
            if ch_ready (c_rerr c)
            then Some (set_d (set_car s k (set_rerr c (ch_take (c_rerr c)))) (DClose k))
            else None)
        | _ => None
        end
    | LDRecvW =>
        match r_d s with
        | DExch k => on_car s k (fun c =>
            if ch_ready (c_werr c)
            then Some (set_d (set_car s k (set_werr c (ch_take (c_werr c)))) (DClose k))
            else None)
        | _ => None
        end
    | LDCloseCarrier =>
        match r_d s with
        | DClose k => on_car s k (fun c =>
            Some (set_d (set_car s k (mkcar (c_r c) (c_w c) (c_rerr c) (c_werr c) (S (c_nclose c)))) DTop))
        | _ => None
        end
    (* ---- reader k *)
    | LRTopClosed k => on_car s k (fun c =>
        if is_rpc (c_r c) RTop && r_closed s then Some (set_car s k (r_exit c)) else None)
    | LRTopWerr k => on_car s k (fun c =>
        if is_rpc (c_r c) RTop && ch_ready (c_werr c)
        then Some (set_car s k (r_exit (set_werr c (ch_take (c_werr c))))) else None)
    | LRTopDefault k => on_car s k (fun c =>
        (* default: only when no case is ready; a writer parked on an unbuffered werr makes
           the receive case ready *)
        if is_rpc (c_r c) RTop && negb (r_closed s) && negb (ch_ready (c_werr c))
           && negb ((ecap =? 0) && is_wpc (c_w c) WSend)
        then Some (set_car s k (set_r c RRead)) else None)
    | LReadOk k => on_car s k (fun c =>
        if is_rpc (c_r c) RRead && negb (c_closed c)
        then Some (mkrs (r_closed s) (r_err s) (r_d s) (upd (r_cs s) k (set_r c RTop)) (r_sendq s)
                        (if r_recvq s <? qcap then S (r_recvq s) else r_recvq s)     (* OK to drop *)
                        (g_close_called s) (g_dial_failed s))
        else None)
    | LReadFail k => on_car s k (fun c =>
        if is_rpc (c_r c) RRead then Some (set_car s k (set_r c RSend)) else None)
    | LRSendBuf k => on_car s k (fun c =>
        if is_rpc (c_r c) RSend && (ch_buf (c_rerr c) <? ecap)
        then Some (set_car s k (r_exit (set_rerr c (ch_put (c_rerr c))))) else None)
    | LRSendToD k => on_car s k (fun c =>
        if is_rpc (c_r c) RSend && (ecap =? 0) && at_exch s k
        then Some (set_d (set_car s k (r_exit c)) (DClose k)) else None)
    | LRSendToW k => on_car s k (fun c =>
        if is_rpc (c_r c) RSend && (ecap =? 0) && is_wpc (c_w c) WSel
        then Some (set_car s k (w_exit (r_exit c))) else None)
    (* ---- writer k *)
    | LWSelClosed k => on_car s k (fun c =>
        if is_wpc (c_w c) WSel && r_closed s then Some (set_car s k (w_exit c)) else None)
    | LWSelRerr k => on_car s k (fun c =>
        if is_wpc (c_w c) WSel && ch_ready (c_rerr c)
        then Some (set_car s k (w_exit (set_rerr c (ch_take (c_rerr c))))) else None)
    | LWSelPkt k => on_car s k (fun c =>
        if is_wpc (c_w c) WSel && negb (r_sendq s =? 0)
        then Some (mkrs (r_closed s) (r_err s) (r_d s) (upd (r_cs s) k (set_w c WWrite)) (r_sendq s - 1)
                        (r_recvq s) (g_close_called s) (g_dial_failed s))
        else None)
    | LWriteOk k => on_car s k (fun c =>
        if is_wpc (c_w c) WWrite && negb (c_closed c) then Some (set_car s k (set_w c WSel)) else None)
    | LWriteFail k => on_car s k (fun c =>
        if is_wpc (c_w c) WWrite then Some (set_car s k (set_w c WSend)) else None)
    | LWSendBuf k => on_car s k (fun c =>
        if is_wpc (c_w c) WSend && (ch_buf (c_werr c) <? ecap)
        then Some (set_car s k (w_exit (set_werr c (ch_put (c_werr c))))) else None)
    | LWSendToD k => on_car s k (fun c =>
        if is_wpc (c_w c) WSend && (ecap =? 0) && at_exch s k
        then Some (set_d (set_car s k (w_exit c)) (DClose k)) else None)
    | LWSendToR k => on_car s k (fun c =>
        if is_wpc (c_w c) WSend && (ecap =? 0) && is_rpc (c_r c) RTop
        then Some (set_car s k (r_exit (w_exit c))) else None)
    (* ---- user *)
    | LUWrite =>
        if r_closed s then Some s        (* returns the stored error; nothing queued *)
        else Some (mkrs (r_closed s) (r_err s) (r_d s) (r_cs s)
                        (if r_sendq s <? qcap then S (r_sendq s) else r_sendq s)   (* drop when full *)
                        (r_recvq s) (g_close_called s) (g_dial_failed s))
    | LURead =>
        if r_closed s then Some s
        else Some (mkrs (r_closed s) (r_err s) (r_d s) (r_cs s) (r_sendq s) (r_recvq s - 1)
                        (g_close_called s) (g_dial_failed s))
    | LUClose =>
        if r_closed s
        then Some (mkrs (r_closed s) (r_err s) (r_d s) (r_cs s) (r_sendq s) (r_recvq s) true (g_dial_failed s))
        else Some (mkrs true EClosedConn (r_d s) (r_cs s) (r_sendq s) (r_recvq s) true (g_dial_failed s))
    end.

  (* what the user's call returns in state s (before the step) *)
  Inductive ures := UOk | UPacket | UWouldBlock | UErr (e : cerr).
  Definition user_result (s : rstate) (l : label) : ures :=
    match l with
    | LUWrite => if r_closed s then UErr (r_err s) else UOk
    | LURead => if r_closed s then UErr (r_err s) else if r_recvq s =? 0 then UWouldBlock else UPacket
    | LUClose => if r_closed s then UErr (r_err s) else UOk
    | _ => UOk
    end.

  Fixpoint run_trace (tr : list label) (s : rstate) : option rstate :=
    match tr with
    | [] => Some s
    | l :: tr' => match step s l with Some s' => run_trace tr' s' | None => None end
    end.

  (* ---- labels by owner, for scheduling / enabledness *)
  Definition d_labels : list label := [LDTop; LDRecvR; LDRecvW; LDCloseCarrier].
  Definition r_labels (k : nat) : list label :=
    [LRTopClosed k; LRTopWerr k; LRTopDefault k; LRSendBuf k; LRSendToD k; LRSendToW k].
  Definition w_labels (k : nat) : list label :=
    [LWSelClosed k; LWSelRerr k; LWSelPkt k; LWSendBuf k; LWSendToD k; LWSendToR k].
  (* what the environment owes: calls on a carrier the adapter has closed fail *)
  Definition forced_labels (s : rstate) (k : nat) : list label :=
    match nth_error (r_cs s) k with
    | Some c => if c_closed c then [LReadFail k; LWriteFail k] else []
    | None => []
    end.

  (* all steps that need neither the user, nor dialContext, nor an open carrier to act *)
  Definition internal_labels (s : rstate) : list label :=
    d_labels ++ flat_map (fun k => r_labels k ++ w_labels k ++ forced_labels s k) (seq 0 (length (r_cs s))).

  Definition enabled (s : rstate) (l : label) : bool :=
    match step s l with Some _ => true | None => false end.

  Definition quiescent (s : rstate) : bool :=
    forallb (fun l => negb (enabled s l)) (internal_labels s).

  (* number of goroutines of the adapter that have not terminated *)
  Definition threads_left (s : rstate) : nat :=
    (match r_d s with DDone => 0 | _ => 1 end) +
    fold_right (fun c n => (if is_rpc (c_r c) RDone then 0 else 1) + (if is_wpc (c_w c) WDone then 0 else 1) + n)
               0 (r_cs s).
End Step.
