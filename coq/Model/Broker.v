(* Broker.v — executable interleaving model of the broker's matching core:
   broker/broker.go (Broker, AddSnowflake, RequestOffer), broker/ipc.go (ProxyPolls,
   ClientOffers, matchSnowflake, ProxyAnswers), broker/snowflake-heap.go.

   Granularity: every critical section under ctx.snowflakeLock is one atomic step (none of them
   contains a blocking operation); channel rendezvous are joint steps; a timer may fire at any
   moment after it was armed; a `select` with several ready cases may take any of them.
   The matching heaps are modelled relationally: an entry is "in the heap" when [e_inheap] is set,
   and a pop may return ANY waiting entry of the eligible pool with the smallest client count
   (which one container/heap returns among equals is not part of the property).

   The bridge list (broker/bridge-list.go) can be replaced at any moment (L_Install = LoadBridgeInfo swapping the
   map under its own lock); a client's fingerprint is checked against the list current at its request
   (ClientOffers), the relay URL is looked up in the list current when the proxy handler replies (ProxyPolls,
   after RequestOffer returned); a client naming no fingerprint names the default bridge
   (messages.DecodeClientPollRequest). Ghost fields (never read by a step's guard or a response) record which
   list a client was checked against.

   Version V0 = the pinned code; V1 = the repaired protocol (see DESIGN.md C04):
     - the waiter's timeout branch, when the entry was already claimed by a client, goes on to
       receive that client's offer and forwards it (V0: returns and leaves both blocked);
     - the answer channel has capacity 1 and ProxyAnswers sends without blocking, reporting
       failure when the slot is taken (V0: blocks until the client receives).
   Executable definitions only. *)
From Coq Require Import List NArith ZArith Bool Arith.
Import ListNotations.
Open Scope N_scope.

Inductive version := V0 | V1.

Inductive natty := NatUnrestricted | NatRestricted | NatUnknown.
Definition natty_eqb (a b : natty) : bool :=
  match a, b with
  | NatUnrestricted, NatUnrestricted | NatRestricted, NatRestricted | NatUnknown, NatUnknown => true
  | _, _ => false
  end.
Definition is_unrestricted (n : natty) : bool := natty_eqb n NatUnrestricted.

(* opaque tags *)
Definition sid := N.
Definition offer := N.
Definition answer := N.
Definition fpr := N.
Definition url := N.

(* messages.defaultBridgeFingerprint and the WebSocket address of the built-in bridge line of NewBrokerContext
   (opaque tags, like every other string) *)
Definition default_fp : fpr := 0.
Definition default_url : url := 0.
Definition builtin_bridges : list (fpr * url) := [(default_fp, default_url)].
(* DecodeClientPollRequest: if message.Fingerprint == "" { message.Fingerprint = defaultBridgeFingerprint } *)
Definition fp_of (ofp : option fpr) : fpr := match ofp with Some f => f | None => default_fp end.

(* what a matched proxy poll returns: the client's offer, the client's NAT type, the relay URL *)
Record match_info := { m_offer : offer; m_nat : natty; m_url : url }.
(* what travels over the offer channels: ClientOffer{natType, sdp, fingerprint} *)
Record fwd_info := { f_offer : offer; f_nat : natty; f_fp : fpr }.

(* PError: GetBridgeInfo failed when the proxy handler built its reply (HTTP 500) *)
Inductive presp := PNoMatch | PMatch (m : match_info) | PError.
Inductive cresp := CAnswer (a : answer) | CNoProxies | CTimedOut | CBadFingerprint.

(* waiter goroutine + proxy-poll handler of one registered poll *)
Inductive wpc :=
| W_Select            (* waiter in its select; handler blocked on request.offerChannel *)
| W_TimedOut          (* waiter took the timer case, waits for the lock *)
| W_Late              (* V1: entry was already claimed; waiter receives the client's offer next *)
| W_Stuck             (* V0: waiter returned without forwarding; handler blocked forever *)
| W_Forward (f : fwd_info)   (* waiter holds the offer, forwards it to the handler next *)
| W_Done (r : presp). (* handler returned r *)

Inductive cpc :=
| C_Send              (* blocked sending the offer on the entry's offer channel *)
| C_Wait              (* select: answer channel / 10 s timer *)
| C_Cleanup (r : cresp) (* response chosen; final critical section pending *)
| C_Done (r : cresp).

Record clrec := { c_id : nat; c_nat : natty; c_fp : fpr; c_offer : offer; c_pc : cpc; c_fired : bool;
                   c_url : url;     (* ghost: what GetBridgeInfo returned (and ClientOffers discarded) at its request *)
                   c_epoch : nat    (* ghost: number of bridge lists installed up to its request *) }.

Record entry := {
  e_sid : sid; e_nat : natty; e_ptype : N; e_clients : N;
  e_w : wpc; e_wfired : bool;
  e_inheap : bool;                 (* snowflake.index <> -1 *)
  e_live : bool;                   (* registered and not yet cleaned up (counts in the gauge) *)
  e_cl : option clrec;             (* the client that popped this entry *)
  e_buf : option answer;           (* V1: content of the 1-buffered answer channel *)
  e_senders : list (nat * answer); (* answer requests blocked (V0) / about to send (V1) on this entry *)
  e_posted : list answer           (* ghost: every answer whose lookup resolved to this entry *)
}.

Record state := {
  entries : list entry;
  idmap : list (sid * nat);        (* idToSnowflake: sid -> entry index; at most one binding per sid *)
  gauge : Z;                       (* sum of the AvailableProxies gauge *)
  bridges : list (fpr * url);
  br_hist : list (list (fpr * url)); (* ghost: every list installed so far, newest first *)
  next_cid : nat;
  next_aid : nat;
  done_clients : list (nat * natty * fpr * offer * cresp);  (* clients that never got an entry *)
  done_answers : list (nat * sid * answer * bool);          (* finished answer requests *)
  answer_log : list (nat * sid * answer)                    (* ghost: every answer request made *)
}.

Definition init (br : list (fpr * url)) : state :=
  {| entries := []; idmap := []; gauge := 0%Z; bridges := br; br_hist := [br]; next_cid := 0; next_aid := 0;
     done_clients := []; done_answers := []; answer_log := [] |}.

(* ---------- small helpers ---------- *)

Fixpoint lookup {A} (k : N) (l : list (N * A)) : option A :=
  match l with
  | [] => None
  | (k', v) :: l' => if k =? k' then Some v else lookup k l'
  end.
Fixpoint remove_key {A} (k : N) (l : list (N * A)) : list (N * A) :=
  match l with
  | [] => []
  | (k', v) :: l' => if k =? k' then remove_key k l' else (k', v) :: remove_key k l'
  end.
Definition set_key {A} (k : N) (v : A) (l : list (N * A)) : list (N * A) := (k, v) :: remove_key k l.

Fixpoint upd {A} (i : nat) (f : A -> A) (l : list A) : list A :=
  match l, i with
  | [], _ => []
  | x :: l', O => f x :: l'
  | x :: l', S i' => x :: upd i' f l'
  end.

Definition set_w (w : wpc) (e : entry) : entry :=
  {| e_sid := e_sid e; e_nat := e_nat e; e_ptype := e_ptype e; e_clients := e_clients e;
     e_w := w; e_wfired := e_wfired e; e_inheap := e_inheap e; e_live := e_live e; e_cl := e_cl e;
     e_buf := e_buf e; e_senders := e_senders e; e_posted := e_posted e |}.
Definition set_wfired (e : entry) : entry :=
  {| e_sid := e_sid e; e_nat := e_nat e; e_ptype := e_ptype e; e_clients := e_clients e;
     e_w := e_w e; e_wfired := true; e_inheap := e_inheap e; e_live := e_live e; e_cl := e_cl e;
     e_buf := e_buf e; e_senders := e_senders e; e_posted := e_posted e |}.
Definition set_heap_live (h l : bool) (e : entry) : entry :=
  {| e_sid := e_sid e; e_nat := e_nat e; e_ptype := e_ptype e; e_clients := e_clients e;
     e_w := e_w e; e_wfired := e_wfired e; e_inheap := h; e_live := l; e_cl := e_cl e;
     e_buf := e_buf e; e_senders := e_senders e; e_posted := e_posted e |}.
Definition set_cl (c : option clrec) (e : entry) : entry :=
  {| e_sid := e_sid e; e_nat := e_nat e; e_ptype := e_ptype e; e_clients := e_clients e;
     e_w := e_w e; e_wfired := e_wfired e; e_inheap := e_inheap e; e_live := e_live e; e_cl := c;
     e_buf := e_buf e; e_senders := e_senders e; e_posted := e_posted e |}.
Definition set_buf (b : option answer) (e : entry) : entry :=
  {| e_sid := e_sid e; e_nat := e_nat e; e_ptype := e_ptype e; e_clients := e_clients e;
     e_w := e_w e; e_wfired := e_wfired e; e_inheap := e_inheap e; e_live := e_live e; e_cl := e_cl e;
     e_buf := b; e_senders := e_senders e; e_posted := e_posted e |}.
Definition set_senders (l : list (nat * answer)) (e : entry) : entry :=
  {| e_sid := e_sid e; e_nat := e_nat e; e_ptype := e_ptype e; e_clients := e_clients e;
     e_w := e_w e; e_wfired := e_wfired e; e_inheap := e_inheap e; e_live := e_live e; e_cl := e_cl e;
     e_buf := e_buf e; e_senders := l; e_posted := e_posted e |}.
Definition add_posted (a : answer) (e : entry) : entry :=
  {| e_sid := e_sid e; e_nat := e_nat e; e_ptype := e_ptype e; e_clients := e_clients e;
     e_w := e_w e; e_wfired := e_wfired e; e_inheap := e_inheap e; e_live := e_live e; e_cl := e_cl e;
     e_buf := e_buf e; e_senders := e_senders e; e_posted := a :: e_posted e |}.

Definition set_cpc (pc : cpc) (c : clrec) : clrec :=
  {| c_id := c_id c; c_nat := c_nat c; c_fp := c_fp c; c_offer := c_offer c; c_pc := pc; c_fired := c_fired c;
     c_url := c_url c; c_epoch := c_epoch c |}.
Definition set_cfired (c : clrec) : clrec :=
  {| c_id := c_id c; c_nat := c_nat c; c_fp := c_fp c; c_offer := c_offer c; c_pc := c_pc c; c_fired := true;
     c_url := c_url c; c_epoch := c_epoch c |}.

Definition with_entries (es : list entry) (s : state) : state :=
  {| entries := es; idmap := idmap s; gauge := gauge s; bridges := bridges s; br_hist := br_hist s; next_cid := next_cid s;
     next_aid := next_aid s; done_clients := done_clients s; done_answers := done_answers s;
     answer_log := answer_log s |}.

(* the pool a client of NAT type n is served from: unrestricted clients get the
   restricted/unknown proxies, everybody else the unrestricted ones *)
Definition eligible (cn : natty) (e : entry) : bool :=
  e_inheap e && (if is_unrestricted cn then negb (is_unrestricted (e_nat e)) else is_unrestricted (e_nat e)).

Definition pool_empty (cn : natty) (es : list entry) : bool := negb (existsb (eligible cn) es).

Definition is_min (cn : natty) (es : list entry) (e : entry) : bool :=
  forallb (fun e' => negb (eligible cn e') || (e_clients e <=? e_clients e')) es.

(* ---------- labels ---------- *)

Inductive label :=
| L_Poll (s : sid) (n : natty) (pt cl : N)   (* proxy poll passes the relay-pattern check and is registered *)
| L_FireW (p : nat)                          (* the waiter's 10 s timer fires *)
| L_WTake (p : nat)                          (* the waiter's select commits to the timer case *)
| L_WTimeoutCS (p : nat)                     (* the waiter's critical section *)
| L_Client (n : natty) (ofp : option fpr) (o : offer) (choice : option nat)
                                             (* client poll decoded (fingerprint field possibly empty); bridge
                                                looked up; matchSnowflake *)
| L_RvOffer (p : nat)                        (* client sends its offer, waiter receives *)
| L_RvForward (p : nat)                      (* waiter forwards, handler receives and returns *)
| L_FireC (p : nat)                          (* the client's 10 s timer fires *)
| L_CTake (p : nat)                          (* the client's select commits to the timer case *)
| L_CCleanup (p : nat)                       (* the client's final critical section *)
| L_Answer (s : sid) (a : answer)            (* answer request decoded and looked up under the lock *)
| L_RvAnswer (p : nat)                       (* V0: first blocked sender hands its answer to the waiting client *)
| L_AnswerPut (p : nat)                      (* V1: first sender does its non-blocking send *)
| L_CTakeAnswer (p : nat)                    (* V1: the client's select receives the buffered answer *)
| L_Install (br : list (fpr * url)).         (* LoadBridgeInfo replaces the bridge list *)

Definition new_entry (s : sid) (n : natty) (pt cl : N) : entry :=
  {| e_sid := s; e_nat := n; e_ptype := pt; e_clients := cl; e_w := W_Select; e_wfired := false;
     e_inheap := true; e_live := true; e_cl := None; e_buf := None; e_senders := []; e_posted := [] |}.

Definition step (v : version) (s : state) (l : label) : option state :=
  match l with
  | L_Poll sd n pt cl =>
      Some {| entries := entries s ++ [new_entry sd n pt cl];
              idmap := set_key sd (length (entries s)) (idmap s);
              gauge := (gauge s + 1)%Z; bridges := bridges s; br_hist := br_hist s; next_cid := next_cid s; next_aid := next_aid s;
              done_clients := done_clients s; done_answers := done_answers s; answer_log := answer_log s |}
  | L_FireW p =>
      match nth_error (entries s) p with
      | Some e => match e_w e, e_wfired e with
                  | W_Select, false => Some (with_entries (upd p set_wfired (entries s)) s)
                  | _, _ => None
                  end
      | None => None
      end
  | L_WTake p =>
      match nth_error (entries s) p with
      | Some e => match e_w e, e_wfired e with
                  | W_Select, true => Some (with_entries (upd p (set_w W_TimedOut) (entries s)) s)
                  | _, _ => None
                  end
      | None => None
      end
  | L_WTimeoutCS p =>
      match nth_error (entries s) p with
      | Some e =>
          match e_w e with
          | W_TimedOut =>
              if e_inheap e then
                Some {| entries := upd p (fun e => set_w (W_Done PNoMatch) (set_heap_live false false e)) (entries s);
                        idmap := remove_key (e_sid e) (idmap s);
                        gauge := (gauge s - 1)%Z; bridges := bridges s; br_hist := br_hist s; next_cid := next_cid s; next_aid := next_aid s;
                        done_clients := done_clients s; done_answers := done_answers s; answer_log := answer_log s |}
              else
                Some (with_entries (upd p (set_w (match v with V0 => W_Stuck | V1 => W_Late end)) (entries s)) s)
          | _ => None
          end
      | None => None
      end
  | L_Client n ofp o choice =>
      let fp := fp_of ofp in
      let cid := next_cid s in
      let fin (r : cresp) :=
        Some {| entries := entries s; idmap := idmap s; gauge := gauge s; bridges := bridges s; br_hist := br_hist s;
                next_cid := S cid; next_aid := next_aid s;
                done_clients := (cid, n, fp, o, r) :: done_clients s; done_answers := done_answers s;
                answer_log := answer_log s |} in
      match lookup fp (bridges s) with
      | None => match choice with None => fin CBadFingerprint | Some _ => None end
      | Some u0 =>
          match choice with
          | None => if pool_empty n (entries s) then fin CNoProxies else None
          | Some p =>
              match nth_error (entries s) p with
              | Some e =>
                  if eligible n e && is_min n (entries s) e then
                    let c := {| c_id := cid; c_nat := n; c_fp := fp; c_offer := o; c_pc := C_Send; c_fired := false;
                                c_url := u0; c_epoch := length (br_hist s) |} in
                    Some {| entries := upd p (fun e => set_cl (Some c) (set_heap_live false (e_live e) e)) (entries s);
                            idmap := idmap s; gauge := gauge s; bridges := bridges s; br_hist := br_hist s;
                            next_cid := S cid; next_aid := next_aid s;
                            done_clients := done_clients s; done_answers := done_answers s;
                            answer_log := answer_log s |}
                  else None
              | None => None
              end
          end
      end
  | L_RvOffer p =>
      match nth_error (entries s) p with
      | Some e =>
          match e_cl e with
          | Some c =>
              match c_pc c, (match e_w e with W_Select | W_Late => true | _ => false end) with
              | C_Send, true =>
                  let f := {| f_offer := c_offer c; f_nat := c_nat c; f_fp := c_fp c |} in
                  Some (with_entries (upd p (fun e => set_w (W_Forward f) (set_cl (Some (set_cpc C_Wait c)) e)) (entries s)) s)
              | _, _ => None
              end
          | None => None
          end
      | None => None
      end
  | L_RvForward p =>
      match nth_error (entries s) p with
      | Some e => match e_w e with
                  | W_Forward f =>
                      (* the handler receives the offer, then: GetBridgeInfo(offer.fingerprint) *)
                      let r := match lookup (f_fp f) (bridges s) with
                               | Some u => PMatch {| m_offer := f_offer f; m_nat := f_nat f; m_url := u |}
                               | None => PError
                               end in
                      Some (with_entries (upd p (set_w (W_Done r)) (entries s)) s)
                  | _ => None
                  end
      | None => None
      end
  | L_FireC p =>
      match nth_error (entries s) p with
      | Some e => match e_cl e with
                  | Some c => match c_pc c, c_fired c with
                              | C_Wait, false => Some (with_entries (upd p (set_cl (Some (set_cfired c))) (entries s)) s)
                              | _, _ => None
                              end
                  | None => None
                  end
      | None => None
      end
  | L_CTake p =>
      match nth_error (entries s) p with
      | Some e => match e_cl e with
                  | Some c => match c_pc c, c_fired c with
                              | C_Wait, true => Some (with_entries (upd p (set_cl (Some (set_cpc (C_Cleanup CTimedOut) c))) (entries s)) s)
                              | _, _ => None
                              end
                  | None => None
                  end
      | None => None
      end
  | L_CCleanup p =>
      match nth_error (entries s) p with
      | Some e => match e_cl e with
                  | Some c => match c_pc c with
                              | C_Cleanup r =>
                                  Some {| entries := upd p (fun e => set_cl (Some (set_cpc (C_Done r) c)) (set_heap_live (e_inheap e) false e)) (entries s);
                                          idmap := remove_key (e_sid e) (idmap s);
                                          gauge := (gauge s - 1)%Z; bridges := bridges s; br_hist := br_hist s; next_cid := next_cid s;
                                          next_aid := next_aid s; done_clients := done_clients s;
                                          done_answers := done_answers s; answer_log := answer_log s |}
                              | _ => None
                              end
                  | None => None
                  end
      | None => None
      end
  | L_Answer sd a =>
      let aid := next_aid s in
      match lookup sd (idmap s) with
      | None =>
          Some {| entries := entries s; idmap := idmap s; gauge := gauge s; bridges := bridges s; br_hist := br_hist s;
                  next_cid := next_cid s; next_aid := S aid; done_clients := done_clients s;
                  done_answers := (aid, sd, a, false) :: done_answers s;
                  answer_log := (aid, sd, a) :: answer_log s |}
      | Some p =>
          Some {| entries := upd p (fun e => add_posted a (set_senders (e_senders e ++ [(aid, a)]) e)) (entries s);
                  idmap := idmap s; gauge := gauge s; bridges := bridges s; br_hist := br_hist s;
                  next_cid := next_cid s; next_aid := S aid; done_clients := done_clients s;
                  done_answers := done_answers s; answer_log := (aid, sd, a) :: answer_log s |}
      end
  | L_RvAnswer p =>
      match v, nth_error (entries s) p with
      | V0, Some e =>
          match e_senders e, e_cl e with
          | (aid, a) :: rest, Some c =>
              match c_pc c with
              | C_Wait =>
                  Some {| entries := upd p (fun e => set_senders rest (set_cl (Some (set_cpc (C_Cleanup (CAnswer a)) c)) e)) (entries s);
                          idmap := idmap s; gauge := gauge s; bridges := bridges s; br_hist := br_hist s; next_cid := next_cid s;
                          next_aid := next_aid s; done_clients := done_clients s;
                          done_answers := (aid, e_sid e, a, true) :: done_answers s; answer_log := answer_log s |}
              | _ => None
              end
          | _, _ => None
          end
      | _, _ => None
      end
  | L_AnswerPut p =>
      match v, nth_error (entries s) p with
      | V1, Some e =>
          match e_senders e with
          | (aid, a) :: rest =>
              let ok := match e_buf e with None => true | Some _ => false end in
              Some {| entries := upd p (fun e => set_senders rest (if ok then set_buf (Some a) e else e)) (entries s);
                      idmap := idmap s; gauge := gauge s; bridges := bridges s; br_hist := br_hist s; next_cid := next_cid s;
                      next_aid := next_aid s; done_clients := done_clients s;
                      done_answers := (aid, e_sid e, a, ok) :: done_answers s; answer_log := answer_log s |}
          | [] => None
          end
      | _, _ => None
      end
  | L_CTakeAnswer p =>
      match v, nth_error (entries s) p with
      | V1, Some e =>
          match e_buf e, e_cl e with
          | Some a, Some c =>
              match c_pc c with
              | C_Wait => Some (with_entries (upd p (fun e => set_buf None (set_cl (Some (set_cpc (C_Cleanup (CAnswer a)) c)) e)) (entries s)) s)
              | _ => None
              end
          | _, _ => None
          end
      | _, _ => None
      end
  | L_Install br =>
      Some {| entries := entries s; idmap := idmap s; gauge := gauge s; bridges := br; br_hist := br :: br_hist s;
              next_cid := next_cid s; next_aid := next_aid s; done_clients := done_clients s;
              done_answers := done_answers s; answer_log := answer_log s |}
  end.

Fixpoint run (v : version) (s : state) (ls : list label) : option state :=
  match ls with
  | [] => Some s
  | l :: ls' => match step v s l with Some s' => run v s' ls' | None => None end
  end.

(* like run, but reports the index of the first label that is not enabled *)
Fixpoint run_idx (v : version) (s : state) (ls : list label) (i : nat) : state + nat :=
  match ls with
  | [] => inl s
  | l :: ls' => match step v s l with Some s' => run_idx v s' ls' (S i) | None => inr i end
  end.

(* ---------- observations ---------- *)

Definition entry_pending (e : entry) : bool :=
  (match e_w e with W_Done _ => false | _ => true end)
  || (match e_cl e with Some c => match c_pc c with C_Done _ => false | _ => true end | None => false end)
  || (match e_senders e with [] => false | _ => true end).

Definition quiescent (s : state) : bool := negb (existsb entry_pending (entries s)).

Definition count_inheap (s : state) : nat := length (filter e_inheap (entries s)).
