(* CacheURL.v — executable model of common/amp/cache.go (domainPrefixBasic,
   domainPrefixFallback, domainPrefix, CacheURL).

   Library boundary (Section variables, their values are supplied per case by the Go
   driver): idna.ToUnicode, idna.ToASCII, sha256.Sum256.  url.Parse is outside the model:
   URLs enter as records of the accessor values CacheURL reads.  url.PathEscape, path.Join,
   path.Clean, net.JoinHostPort, base32 and Go's UTF-8 rune decoding are modelled here
   (validated by the correspondence check).

   Two versions of the "hyphens at positions 3 and 4" test of the basic algorithm:
     h34_bytes — byte positions, the code at the pinned commit (prefix[2], prefix[3]);
     h34_runes — character positions ([]rune(prefix)[2], [3]), the AMP specification's
                 reading and the proposed repair.
   Executable definitions only. *)
From Coq Require Import List NArith Bool Arith String.
From Snow Require Import Lib.Wire.
Import ListNotations.
Open Scope N_scope.
Notation length := List.length.

Definition HYPHEN : N := 45.
Definition DOTC : N := 46.
Definition SLASHC : N := 47.

(* strings.Replace(s, <one byte>, <new>, -1) *)
Definition replace_byte (old : N) (new : bytes) (s : bytes) : bytes :=
  flat_map (fun c => if c =? old then new else [c]) s.

(* ---------- UTF-8 as Go decodes it ([]rune(s), utf8.DecodeRuneInString) ---------- *)

Definition is_cont (c : N) : bool := (128 <=? c) && (c <=? 191).
Definition in_rng (lo hi c : N) : bool := (lo <=? c) && (c <=? hi).

(* number of bytes of the first rune of a non-empty string; an invalid or truncated
   sequence is one U+FFFD of width 1 *)
Definition rune_len (l : bytes) : nat :=
  match l with
  | [] => 0%nat
  | b0 :: r =>
      if b0 <? 128 then 1%nat
      else if in_rng 194 223 b0 then
        match r with c1 :: _ => if is_cont c1 then 2%nat else 1%nat | _ => 1%nat end
      else if in_rng 224 239 b0 then
        match r with
        | c1 :: c2 :: _ =>
            let lo := if b0 =? 224 then 160 else 128 in
            let hi := if b0 =? 237 then 159 else 191 in
            if in_rng lo hi c1 && is_cont c2 then 3%nat else 1%nat
        | _ => 1%nat
        end
      else if in_rng 240 244 b0 then
        match r with
        | c1 :: c2 :: c3 :: _ =>
            let lo := if b0 =? 240 then 144 else 128 in
            let hi := if b0 =? 244 then 143 else 191 in
            if in_rng lo hi c1 && is_cont c2 && is_cont c3 then 4%nat else 1%nat
        | _ => 1%nat
        end
      else 1%nat
  end.

Definition drop_rune (l : bytes) : bytes := skipn (rune_len l) l.

(* utf8 encoding of one scalar value (utf8.EncodeRune for valid runes) *)
Definition utf8_cp (c : N) : bytes :=
  if c <? 128 then [c]
  else if c <? 2048 then [192 + c / 64; 128 + c mod 64]
  else if c <? 65536 then [224 + c / 4096; 128 + (c / 64) mod 64; 128 + c mod 64]
  else [240 + c / 262144; 128 + (c / 4096) mod 64; 128 + (c / 64) mod 64; 128 + c mod 64].
Definition utf8_encode (cps : list N) : bytes := flat_map utf8_cp cps.
(* Unicode scalar values *)
Definition valid_cp (c : N) : bool := (c <? 55296) || ((57343 <? c) && (c <? 1114112)).

(* ---------- the hyphen test of step 4 ---------- *)

(* len(prefix) >= 4 && prefix[2] == '-' && prefix[3] == '-' *)
Definition h34_bytes (p : bytes) : bool :=
  match p with
  | _ :: _ :: c2 :: c3 :: _ => (c2 =? HYPHEN) && (c3 =? HYPHEN)
  | _ => false
  end.

(* r := []rune(prefix); len(r) >= 4 && r[2] == '-' && r[3] == '-'.
   A byte 0x2D at a rune boundary is always the one-byte rune '-'. *)
Definition h34_runes (p : bytes) : bool :=
  match drop_rune (drop_rune p) with
  | c2 :: c3 :: _ => (c2 =? HYPHEN) && (c3 =? HYPHEN)
  | _ => false
  end.

(* the specification's test on a string of characters (code points) *)
Definition h34_spec (cps : list N) : bool :=
  match cps with
  | _ :: _ :: c2 :: c3 :: _ => (c2 =? HYPHEN) && (c3 =? HYPHEN)
  | _ => false
  end.

(* steps 2-4 of the basic algorithm on the output of step 1 *)
Definition steps234 (h34 : bytes -> bool) (u : bytes) : bytes :=
  let p := replace_byte DOTC [HYPHEN] (replace_byte HYPHEN [HYPHEN; HYPHEN] u) in
  if h34 p then [48; HYPHEN] ++ p ++ [HYPHEN; 48] else p.

(* the same steps as the AMP specification words them, on characters *)
Definition steps234_spec (cps : list N) : list N :=
  let p := replace_byte DOTC [HYPHEN] (replace_byte HYPHEN [HYPHEN; HYPHEN] cps) in
  if h34_spec p then [48; HYPHEN] ++ p ++ [HYPHEN; 48] else p.

(* ---------- base32, lower case, no padding (fallbackBase32Encoding) ---------- *)

Definition b32_char (v : N) : N := let v := v mod 32 in if v <? 26 then 97 + v else 24 + v.

Fixpoint b32_encode (l : bytes) : bytes :=
  match l with
  | a :: b :: c :: d :: e :: r =>
      b32_char (a / 8) :: b32_char ((a mod 8) * 4 + b / 64) :: b32_char (b / 2) ::
      b32_char ((b mod 2) * 16 + c / 16) :: b32_char ((c mod 16) * 2 + d / 128) ::
      b32_char (d / 4) :: b32_char ((d mod 4) * 8 + e / 32) :: b32_char e :: b32_encode r
  | [a; b; c; d] =>
      [b32_char (a / 8); b32_char ((a mod 8) * 4 + b / 64); b32_char (b / 2);
       b32_char ((b mod 2) * 16 + c / 16); b32_char ((c mod 16) * 2 + d / 128);
       b32_char (d / 4); b32_char ((d mod 4) * 8)]
  | [a; b; c] =>
      [b32_char (a / 8); b32_char ((a mod 8) * 4 + b / 64); b32_char (b / 2);
       b32_char ((b mod 2) * 16 + c / 16); b32_char ((c mod 16) * 2)]
  | [a; b] =>
      [b32_char (a / 8); b32_char ((a mod 8) * 4 + b / 64); b32_char (b / 2);
       b32_char ((b mod 2) * 16)]
  | [a] => [b32_char (a / 8); b32_char ((a mod 8) * 4)]
  | [] => []
  end.

(* ---------- url.PathEscape ---------- *)

Definition is_alnum (c : N) : bool := in_rng 97 122 c || in_rng 65 90 c || in_rng 48 57 c.
(* shouldEscape(c, encodePathSegment) = false *)
Definition seg_unescaped (c : N) : bool :=
  is_alnum c || (c =? 45) || (c =? 95) || (c =? 46) || (c =? 126)      (* - _ . ~ *)
  || (c =? 36) || (c =? 38) || (c =? 43) || (c =? 61) || (c =? 58) || (c =? 64).  (* $ & + = : @ *)
Definition upper_hex (n : N) : N := if n <? 10 then 48 + n else 55 + n.
Definition path_escape (s : bytes) : bytes :=
  flat_map (fun c => if seg_unescaped c then [c] else [37; upper_hex (c / 16); upper_hex (c mod 16)]) s.

(* url.PathUnescape fails exactly on a '%' that is not followed by two hex digits *)
Definition is_hex (c : N) : bool := match hexval c with Some _ => true | None => false end.
Fixpoint valid_escapes (s : bytes) : bool :=
  match s with
  | [] => true
  | c :: r =>
      if c =? 37 then
        match r with
        | a :: b :: _ => is_hex a && is_hex b && valid_escapes r
        | _ => false
        end
      else valid_escapes r
  end.

(* ---------- path.Clean / path.Join ---------- *)

Definition is_dot (s : bytes) : bool := beq s [DOTC].
Definition is_dotdot (s : bytes) : bool := beq s [DOTC; DOTC].

(* out is the reversed stack of kept elements *)
Fixpoint clean_segs (rooted : bool) (segs out : list bytes) : list bytes :=
  match segs with
  | [] => rev out
  | s :: r =>
      if beq s [] || is_dot s then clean_segs rooted r out
      else if is_dotdot s then
        match out with
        | top :: out' =>
            if is_dotdot top then clean_segs rooted r (s :: out)
            else clean_segs rooted r out'
        | [] => if rooted then clean_segs rooted r [] else clean_segs rooted r [s]
        end
      else clean_segs rooted r (s :: out)
  end.

Definition path_clean (p : bytes) : bytes :=
  match p with
  | [] => [DOTC]
  | c :: _ =>
      let rooted := c =? SLASHC in
      let out := clean_segs rooted (split_on SLASHC p) [] in
      if rooted then SLASHC :: join [SLASHC] out
      else match out with [] => [DOTC] | _ => join [SLASHC] out end
  end.

(* the loop of path.Join: leading empty elements are skipped, later ones still add "/" *)
Fixpoint join_buf (elems : list bytes) (buf : bytes) : bytes :=
  match elems with
  | [] => buf
  | e :: r =>
      match buf, e with
      | [], [] => join_buf r buf
      | [], _ => join_buf r e
      | _, _ => join_buf r (buf ++ SLASHC :: e)
      end
  end.
Definition path_join (elems : list bytes) : bytes :=
  if forallb (fun e => beq e []) elems then [] else path_clean (join_buf elems []).

(* net.JoinHostPort *)
Definition COLONC : N := 58.
Definition join_host_port (h p : bytes) : bytes :=
  if existsb (fun c => c =? COLONC) h then [91] ++ h ++ [93; COLONC] ++ p else h ++ COLONC :: p.

(* ---------- URLs as CacheURL sees them ---------- *)

Record pub_url := {
  p_scheme : bytes; p_user : bool (* User != nil *); p_hostname : bytes; p_port : bytes;
  p_epath : bytes (* EscapedPath() *); p_rawquery : bytes; p_fragment : bytes }.
Record cache_url_t := {
  c_scheme : bytes; c_user : option bytes (* User.String(), None = nil *); c_hostname : bytes;
  c_port : bytes; c_epath : bytes; c_rawquery : bytes; c_fragment : bytes }.
Record res_url := {
  r_scheme : bytes; r_user : option bytes; r_host : bytes; r_rawpath : bytes;
  r_rawquery : bytes; r_fragment : bytes }.

Definition S_HTTP : bytes := bs "http"%string.
Definition S_HTTPS : bytes := bs "https"%string.

Section WithLibraries.
  Variable to_unicode : bytes -> option bytes.   (* idna.ToUnicode, None = error *)
  Variable to_ascii : bytes -> option bytes.     (* idna.ToASCII, None = error *)
  Variable sha256 : bytes -> bytes.              (* sha256.Sum256 *)
  Variable h34 : bytes -> bool.                  (* h34_bytes (pinned code) or h34_runes *)

  Definition domain_prefix_basic (d : bytes) : option bytes :=
    match to_unicode d with
    | None => None
    | Some u => to_ascii (steps234 h34 u)
    end.

  Definition domain_prefix_fallback (d : bytes) : bytes := b32_encode (sha256 d).

  Definition domain_prefix (d : bytes) : bytes :=
    match domain_prefix_basic d with
    | Some p => if (length p <=? 63)%nat then p else domain_prefix_fallback d
    | None => domain_prefix_fallback d
    end.

  Definition port_ok (pu : pub_url) : bool :=
    beq (p_port pu) [] ||
    (beq (p_scheme pu) S_HTTP && beq (p_port pu) (bs "80"%string)) ||
    (beq (p_scheme pu) S_HTTPS && beq (p_port pu) (bs "443"%string)).

  Definition path_components (pu : pub_url) (cu : cache_url_t) (ct : bytes) : list bytes :=
    [c_epath cu; path_escape ct] ++ (if beq (p_scheme pu) S_HTTPS then [bs "s"%string] else [])
    ++ [path_escape (p_hostname pu); p_epath pu].

  (* None = error return *)
  Definition cache_url (pu : pub_url) (cu : cache_url_t) (ct : bytes) : option res_url :=
    let h := domain_prefix (p_hostname pu) ++ DOTC :: c_hostname cu in
    let result_host := if beq (c_port cu) [] then h else join_host_port h (c_port cu) in
    if beq ct [] then None
    else if negb (beq (p_scheme pu) S_HTTP || beq (p_scheme pu) S_HTTPS) then None
    else if p_user pu then None
    else if negb (port_ok pu) then None
    else if beq (p_hostname pu) [] then None
    else
      let raw := path_join (path_components pu cu ct) in
      if negb (valid_escapes raw) then None
      else if negb (beq (c_rawquery cu) []) then None
      else if negb (beq (c_fragment cu) []) then None
      else Some {| r_scheme := c_scheme cu; r_user := c_user cu; r_host := result_host;
                   r_rawpath := raw; r_rawquery := p_rawquery pu; r_fragment := p_fragment pu |}.
End WithLibraries.
