(* ServerAccept.v — the accept loop of the server as an interleaving machine
   (server/lib/snowflake.go acceptSessions / acceptStreams).  Executable definitions only.

     func (l *SnowflakeListener) acceptSessions(ln *kcp.Listener) error {
         for {
             conn, err := ln.AcceptKCP()            // LAccept cid   (session index = number of earlier accepts)
             ...
             go func() {                            // the goroutine is scheduled some time later: LStart i
                 defer conn.Close()
                 err := l.acceptStreams(conn)       //   addr, ok := clientIDAddrMap.Get(conn.RemoteAddr()...)
                 ...                                //   for { stream := sess.AcceptStream()      LStream i
             }()                                    //         l.queueConn(&SnowflakeClientConn{stream, addr}) }
         }
     }

   Model/ServerCarrier.v treats "session established + first stream accepted" as one atomic event.  Here the
   three moments are separate labels, so a schedule may put any number of further LAccept (and carriers,
   and steps of other sessions) between the LAccept of a session and the LStart of its goroutine, and
   start the goroutines in any order.  Carriers (turbotunnelMode's clientIDAddrMap.Set) are the fourth
   label.  Set/Get are atomic (mutex), every other step touches only its session's own variables or - in
   the third shape below - one shared variable written by the accept loop and read by the goroutines.

   Three shapes of "where the session's address is bound":
     InGoroutine     the pinned code: acceptStreams looks the ClientID of ITS conn up when the
                     goroutine runs (conn is a per-iteration variable of the loop);
     AtAcceptOwn     the lookup is done in the accept loop and handed to the goroutine by value
                     (a per-iteration variable / an argument evaluated in the loop);
     AtAcceptShared  NOT the code: the lookup is done in the accept loop into a variable declared
                     OUTSIDE the loop, which the goroutine reads when it is scheduled.  Kept only as
                     the witness of what the theorems exclude (C18_shared_variable_refuted). *)
From Coq Require Import List NArith Bool Arith.
From Snow Require Import Lib.Wire Model.ClientIdRing Model.ClientAddr Model.ServerCarrier.
Import ListNotations.
Open Scope nat_scope.

Inductive alabel :=
| LCarrier (cid : N) (p : param)   (* a carrier presenting cid starts: Set(cid, clientAddr(client_ip)) *)
| LAccept (cid : N)                (* AcceptKCP returned a new session of cid; the loop spawns its goroutine *)
| LStart (i : nat)                 (* the goroutine of session i is scheduled (no effect unless it exists and has not started) *)
| LStream (i : nat).               (* session i's AcceptStream returned: a connection is handed out (none before LStart i) *)

Inductive shape := InGoroutine | AtAcceptOwn | AtAcceptShared.

Record asess := mksess {
  s_cid : N;                       (* conn.RemoteAddr() of the session *)
  s_bound : option addr;           (* AtAcceptOwn: the value handed to the goroutine *)
  s_local : option addr            (* addr inside acceptStreams, once the goroutine has started *)
}.

Record astate := mkast {
  a_ring : sring;                  (* clientIDAddrMap *)
  a_shared : addr;                 (* AtAcceptShared: `var addr net.Addr` outside the loop (nil at first) *)
  a_sess : list asess
}.

Definition ainit (cap : nat) : astate := mkast (new addr ANil cap) ANil [].

Fixpoint supd (l : list asess) (k : nat) (x : asess) : list asess :=
  match l, k with
  | [], _ => []
  | _ :: t, O => x :: t
  | h :: t, S k' => h :: supd t k' x
  end.

Definition sess_start (sh : shape) (st : astate) (s : asess) : asess :=
  match s_local s with
  | Some _ => s
  | None =>
      mksess (s_cid s) (s_bound s)
        (match sh with
         | InGoroutine => Some (accept (a_ring st) (s_cid s))
         | AtAcceptOwn => s_bound s
         | AtAcceptShared => Some (a_shared st)
         end)
  end.

Definition astep (sh : shape) (st : astate) (l : alabel) : astate :=
  match l with
  | LCarrier cid p => mkast (carrier_step (a_ring st) cid p) (a_shared st) (a_sess st)
  | LAccept cid =>
      let a := accept (a_ring st) cid in
      match sh with
      | InGoroutine => mkast (a_ring st) (a_shared st) (a_sess st ++ [mksess cid None None])
      | AtAcceptOwn => mkast (a_ring st) (a_shared st) (a_sess st ++ [mksess cid (Some a) None])
      | AtAcceptShared => mkast (a_ring st) a (a_sess st ++ [mksess cid None None])
      end
  | LStart i =>
      match nth_error (a_sess st) i with
      | Some s => mkast (a_ring st) (a_shared st) (supd (a_sess st) i (sess_start sh st s))
      | None => st
      end
  | LStream _ => st
  end.

(* the connection handed out by a step, if any: (session index, RemoteAddr()) *)
Definition aout (st : astate) (l : alabel) : option (nat * addr) :=
  match l with
  | LStream i =>
      match nth_error (a_sess st) i with
      | Some s => match s_local s with Some a => Some (i, a) | None => None end
      | None => None
      end
  | _ => None
  end.

Definition afinal (sh : shape) (st : astate) (evs : list alabel) : astate := fold_left (astep sh) evs st.

Fixpoint aconns (sh : shape) (st : astate) (evs : list alabel) : list (nat * addr) :=
  match evs with
  | [] => []
  | l :: evs' =>
      match aout st l with
      | Some c => c :: aconns sh (astep sh st l) evs'
      | None => aconns sh (astep sh st l) evs'
      end
  end.

Definition sched_conns (sh : shape) (cap : nat) (evs : list alabel) : list (nat * addr) := aconns sh (ainit cap) evs.

(* ---- what a schedule contains *)
Fixpoint accepted (evs : list alabel) : list N :=          (* ClientIDs of the sessions, by session index *)
  match evs with
  | [] => []
  | LAccept cid :: t => cid :: accepted t
  | _ :: t => accepted t
  end.

Fixpoint carriers_of (evs : list alabel) : list event :=   (* the carriers, as events of Model/ServerCarrier.v *)
  match evs with
  | [] => []
  | LCarrier cid p :: t => Carrier cid p :: carriers_of t
  | _ :: t => carriers_of t
  end.

Definition no_carrier (l : alabel) : bool := match l with LCarrier _ _ => false | _ => true end.

(* ---- the sequential histories of Model/ServerCarrier.v are the schedules in which every goroutine
   starts, and hands out its first connection, right after its session was accepted *)
Fixpoint expand (n : nat) (evs : list event) : list alabel :=
  match evs with
  | [] => []
  | Carrier cid p :: t => LCarrier cid p :: expand n t
  | Accept cid :: t => LAccept cid :: LStart n :: LStream n :: expand (S n) t
  | Stream k :: t => LStream k :: expand n t
  end.

(* ---- bursts (what the `clientid burst` cases run): k sessions are accepted back to back, then their
   goroutines start in an order given by `ranks`, each handing out its first connection at once; then
   the remaining streams of the sessions, round robin.  item = (ClientID, number of streams, rank). *)
Definition bitem := (N * nat * nat)%type.
Definition bi_cid (x : bitem) : N := fst (fst x).
Definition bi_n (x : bitem) : nat := snd (fst x).
Definition bi_rank (x : bitem) : nat := snd x.

Fixpoint indexed {A} (n : nat) (l : list A) : list (nat * A) :=
  match l with [] => [] | x :: t => (n, x) :: indexed (S n) t end.

Definition burst_labels (base : nat) (items : list bitem) : list alabel :=
  let ix := indexed base items in
  let k := List.length items in
  let maxn := fold_right (fun x m => Nat.max (bi_n x) m) 0 items in
  map (fun x => LAccept (bi_cid x)) items
  ++ flat_map (fun r => flat_map (fun jx => if Nat.eqb (bi_rank (snd jx)) r
                                             then LStart (fst jx) :: (if Nat.ltb 0 (bi_n (snd jx)) then [LStream (fst jx)] else [])
                                             else []) ix) (seq 0 (S k))
  ++ flat_map (fun jx => if Nat.ltb k (bi_rank (snd jx))        (* a rank beyond the burst: started last *)
                         then LStart (fst jx) :: (if Nat.ltb 0 (bi_n (snd jx)) then [LStream (fst jx)] else [])
                         else []) ix
  ++ flat_map (fun s => flat_map (fun jx => if Nat.ltb s (bi_n (snd jx)) then [LStream (fst jx)] else []) ix) (seq 1 (maxn - 1)).

(* the connections of a burst in canonical order: per item, in the order its streams were handed out *)
Definition burst_project (base : nat) (items : list bitem) (outs : list (nat * addr)) : list addr :=
  flat_map (fun jx => map snd (filter (fun c => Nat.eqb (fst c) (fst jx)) outs)) (indexed base items).

Inductive btok := BEv (e : event) | BBurst (items : list bitem).

Definition btok_labels (n : nat) (t : btok) : list alabel :=
  match t with
  | BEv e => expand n [e]
  | BBurst items => burst_labels n items
  end.

Definition btok_sessions (t : btok) : nat :=
  match t with
  | BEv (Accept _) => 1
  | BEv _ => 0
  | BBurst items => List.length items
  end.

Fixpoint brun (sh : shape) (st : astate) (n : nat) (toks : list btok) : list addr :=
  match toks with
  | [] => []
  | t :: toks' =>
      let ls := btok_labels n t in
      let outs := aconns sh st ls in
      (match t with BEv _ => map snd outs | BBurst items => burst_project n items outs end)
      ++ brun sh (afinal sh st ls) (n + btok_sessions t) toks'
  end.

(* the whole schedule a token list stands for *)
Fixpoint btoks_labels (n : nat) (toks : list btok) : list alabel :=
  match toks with
  | [] => []
  | t :: toks' => btok_labels n t ++ btoks_labels (n + btok_sessions t) toks'
  end.
