(* Armor.v — AMP armor (common/amp/armor_encoder.go, armor_decoder.go).  Executable
   definitions only.

   Encoder: base64.NewEncoder | elementEncoder | w, with the boilerplate around it.
     armor_stream parts  = the bytes written to w after NewArmorEncoder, one Write per
                           element of [parts], Close.
     armor_encode p      = the whole-input form (boilerplate ++ pre elements ++ trailer).
   Decoder: golang.org/x/net/html's tokenizer (library) driven by decodeToWriter, the
     io.Pipe, the version byte, base64.NewDecoder.  The tokenizer and decodeToWriter are
     modelled together as ONE byte-at-a-time automaton [step]/[finish] (so that
     [scan (a ++ b)] is [scan] of [b] continued from the state after [a]).
     The automaton follows Tokenizer.Next / readTag / readComment / readRawOrRCDATA byte for
     byte, including the SetMaxBuf accounting of readByte (raw length of the current token,
     look-ahead included).  NOT modelled (outside the "simple grammar" on which the model is
     claimed equal to the library): character references ('&') and NUL replacement inside
     the text that reaches the decoder, the escape states of <script> (content containing
     "<!--"), CDATA.  base64.NewDecoder + io.Pipe are modelled by their in-order meaning:
     quanta are decoded in order, the first corrupt quantum wins, then the tokenizer's
     terminal error, then an incomplete last quantum.  (The library's read-chunk dependent
     leniency for data that FOLLOWS a padded quantum is not modelled: the model is strict.) *)
From Coq Require Import List NArith Bool Arith String.
From Snow Require Import Lib.Wire Model.Base64.
Import ListNotations.
Open Scope N_scope.

(* ------------------------------------------------------------------ constants *)
Definition boilerplate_start_str : string :=
"<!doctype html>
<html amp>
<head>
<meta charset=""utf-8"">
<script async src=""https://cdn.ampproject.org/v0.js""></script>
<link rel=""canonical"" href=""#"">
<meta name=""viewport"" content=""width=device-width"">
<style amp-boilerplate>body{-webkit-animation:-amp-start 8s steps(1,end) 0s 1 normal both;-moz-animation:-amp-start 8s steps(1,end) 0s 1 normal both;-ms-animation:-amp-start 8s steps(1,end) 0s 1 normal both;animation:-amp-start 8s steps(1,end) 0s 1 normal both}@-webkit-keyframes -amp-start{from{visibility:hidden}to{visibility:visible}}@-moz-keyframes -amp-start{from{visibility:hidden}to{visibility:visible}}@-ms-keyframes -amp-start{from{visibility:hidden}to{visibility:visible}}@-o-keyframes -amp-start{from{visibility:hidden}to{visibility:visible}}@keyframes -amp-start{from{visibility:hidden}to{visibility:visible}}</style><noscript><style amp-boilerplate>body{-webkit-animation:none;-moz-animation:none;-ms-animation:none;animation:none}</style></noscript>
</head>
<body>
".
Definition boilerplate_end_str : string :=
"</body>
</html>".

Definition boilerplate_start : bytes := bs boilerplate_start_str.
Definition boilerplate_end : bytes := bs boilerplate_end_str.

Definition MAXBUF : N := 32768.            (* elementSizeLimit = 32*1024 *)
Definition bytesPerChunk : nat := 32.
Definition chunksPerElement : nat := 992.  (* (elementSizeLimit - 1) / (bytesPerChunk + 1) *)

Definition LF : N := 10.
Definition VERSION : N := 48. (* '0' *)
Definition PRE_OPEN : bytes := bs "<pre>" ++ [LF].
Definition PRE_CLOSE : bytes := bs "</pre>" ++ [LF].

(* ------------------------------------------------------------------ elementEncoder *)
Record eenc := { cc : nat (* chunkCounter *); ec : nat (* elementCounter *) }.

(* one byte through elementEncoder.Write (the loop body handles runs of bytes up to the
   end of a chunk; byte-wise it is: header when both counters are 0, the byte, newline when
   the chunk is full, "</pre>\n" when the element is full) *)
Definition eenc_byte (e : eenc) (b : N) : eenc * bytes :=
  let hdr := if (Nat.eqb (ec e) 0 && Nat.eqb (cc e) 0)%bool then PRE_OPEN else [] in
  let c1 := S (cc e) in
  if Nat.leb bytesPerChunk c1 then
    let e1 := S (ec e) in
    if Nat.leb chunksPerElement e1
    then ({| cc := 0; ec := 0 |}, hdr ++ [b] ++ [LF] ++ PRE_CLOSE)
    else ({| cc := 0; ec := e1 |}, hdr ++ [b] ++ [LF])
  else ({| cc := c1; ec := ec e |}, hdr ++ [b]).

Fixpoint eenc_write (e : eenc) (p : bytes) : eenc * bytes :=
  match p with
  | [] => (e, [])
  | b :: p' => let '(e1, o1) := eenc_byte e b in
               let '(e2, o2) := eenc_write e1 p' in (e2, o1 ++ o2)
  end.

Definition eenc_close (e : eenc) : bytes :=
  if (Nat.eqb (ec e) 0 && Nat.eqb (cc e) 0)%bool then []
  else if Nat.eqb (cc e) 0 then PRE_CLOSE else [LF] ++ PRE_CLOSE.

(* ------------------------------------------------------------------ armorEncoder *)
Record aenc := { a_pend : bytes (* base64 encoder's 0–2 buffered bytes *); a_el : eenc }.

(* NewArmorEncoder: boilerplate, then the version byte through the element encoder *)
Definition armor_new : aenc * bytes :=
  let '(e, o) := eenc_write {| cc := 0; ec := 0 |} [VERSION] in
  ({| a_pend := [] ; a_el := e |}, boilerplate_start ++ o).

Definition armor_write (a : aenc) (p : bytes) : aenc * bytes :=
  let '(b64out, pend) := b64w_write (a_pend a) p in
  let '(e, o) := eenc_write (a_el a) b64out in
  ({| a_pend := pend; a_el := e |}, o).

Definition armor_close (a : aenc) : bytes :=
  let '(e, o) := eenc_write (a_el a) (b64w_close (a_pend a)) in
  o ++ eenc_close e ++ boilerplate_end.

Fixpoint armor_writes (a : aenc) (parts : list bytes) : aenc * bytes :=
  match parts with
  | [] => (a, [])
  | p :: ps => let '(a1, o1) := armor_write a p in
               let '(a2, o2) := armor_writes a1 ps in (a2, o1 ++ o2)
  end.

Definition armor_stream (parts : list bytes) : bytes :=
  let '(a0, o0) := armor_new in
  let '(a1, o1) := armor_writes a0 parts in
  o0 ++ o1 ++ armor_close a1.

(* whole-input form *)
Fixpoint group_aux {A} (n k : nat) (cur : list A) (l : list A) : list (list A) :=
  match l with
  | [] => match cur with [] => [] | _ => [List.rev cur] end
  | x :: l' => match k with
               | S O | O => List.rev (x :: cur) :: group_aux n n [] l'
               | S k' => group_aux n k' (x :: cur) l'
               end
  end.
(* consecutive groups of n elements (the last one may be shorter); n >= 1 *)
Definition group {A} (n : nat) (l : list A) : list (list A) := group_aux n n [] l.

Definition word_line (w : bytes) : bytes := w ++ [LF].
Definition element (ws : list bytes) : bytes := PRE_OPEN ++ List.concat (map word_line ws) ++ PRE_CLOSE.

Definition armor_words (p : bytes) : list bytes := group bytesPerChunk (VERSION :: b64_encode p).
Definition armor_elements (p : bytes) : list (list bytes) := group chunksPerElement (armor_words p).

Definition armor_encode (p : bytes) : bytes :=
  boilerplate_start ++ List.concat (map element (armor_elements p)) ++ boilerplate_end.

(* ------------------------------------------------------------------ decoder *)
Inductive derr := EUnknownVersion | EStray | ENested | EUnterminated | EOversize | EBadBase64 | EEmpty.
(* how the token stream ended *)
Inductive tend := TEnd | TErr (e : derr).

Definition isws (c : N) : bool := (c =? 9) || (c =? 10) || (c =? 12) || (c =? 13) || (c =? 32).
Definition is_letter (c : N) : bool := ((97 <=? c) && (c <=? 122)) || ((65 <=? c) && (c <=? 90)).
Definition lower1 (c : N) : N := if (65 <=? c) && (c <=? 90) then c + 32 else c.
Definition lower (l : bytes) : bytes := map lower1 l.
Definition LT : N := 60.
Definition GT : N := 62.
Definition SLASH : N := 47.
Definition BANG : N := 33.
Definition QMARK : N := 63.
Definition DASH : N := 45.
Definition EQS : N := 61.

(* readTag after the first letter of the name: states of readTagName / the attribute loop *)
Inductive tgstate := TgName | TgSkip | TgKey | TgValStart | TgValEq | TgQuote (q : N) | TgUnq.

(* loop head of readTag: c is the byte read by "c := z.readByte(); if c == '>' break" and
   otherwise re-read as the first byte of an attribute key *)
Definition tg_loop (c : N) : option tgstate :=
  if c =? GT then None
  else if isws c || (c =? SLASH) then Some TgValStart
  else if c =? EQS then Some TgValEq
  else Some TgKey.
Definition tg_skip (c : N) : option tgstate := if isws c then Some TgSkip else tg_loop c.

(* None = the closing '>' of the tag was consumed *)
Definition tag_step (ts : tgstate) (c : N) : option tgstate :=
  match ts with
  | TgName => if isws c then Some TgSkip else if c =? SLASH then Some TgValStart
              else if c =? GT then None else Some TgName
  | TgSkip => tg_skip c
  | TgKey => if isws c || (c =? SLASH) then Some TgValStart else if c =? EQS then Some TgValEq
             else if c =? GT then None else Some TgKey
  | TgValStart => if isws c then Some TgValStart else if c =? EQS then Some TgValEq else tg_skip c
  | TgValEq => if isws c then Some TgValEq else if c =? GT then None
               else if (c =? 34) || (c =? 39) then Some (TgQuote c) else Some TgUnq
  | TgQuote q => if c =? q then Some TgSkip else Some (TgQuote q)
  | TgUnq => if isws c then Some TgSkip else if c =? GT then None else Some TgUnq
  end.

Inductive mode :=
| MTxt                              (* Next's main loop, reading text *)
| MLt                               (* ... after '<' *)
| MEndOpen                          (* after "</" at the start of a token *)
| MBang (dashes : nat)              (* after "<!" and 0 or 1 '-' *)
| MGt                               (* readUntilCloseAngle: bogus comment, doctype, <? *)
| MCom (dc : nat)                   (* readComment, dashCount capped at 2 *)
| MComBang                          (* readComment after "--!" *)
| MTag (isend : bool) (ts : tgstate) (name_rev : bytes) (prev : N)
| MRaw (tag : bytes)                (* readRawOrRCDATA main loop *)
| MRawLt (tag : bytes)              (* ... after '<' *)
| MRawM (tag : bytes) (matched_rev : bytes) (todo : bytes)  (* readRawEndTag after "</" *)
| MPlain                            (* rawTag = plaintext *)
| MDead (e : derr).                 (* decodeToWriter has returned an error *)

Record dst := { md : mode; cnt : N (* raw.end - raw.start *); active : bool; out_rev : bytes }.

Definition dinit : dst := {| md := MTxt; cnt := 0; active := false; out_rev := [] |}.

(* the bytes of an active text token reach the pipe with ASCII whitespace removed
   (bufio.Scanner with splitASCIIWhitespace; word boundaries are not observable in the pipe) *)
Definition emit1 (act : bool) (c : N) (o : bytes) : bytes :=
  if act && negb (isws c) then c :: o else o.
Fixpoint emit (act : bool) (l : bytes) (o : bytes) : bytes :=
  match l with [] => o | c :: l' => emit act l' (emit1 act c o) end.

Definition raw_tags : list bytes :=
  map bs ["iframe"; "noembed"; "noframes"; "noscript"; "plaintext"; "script"; "style"; "textarea"; "title"; "xmp"]%string.
Definition is_raw_tag (n : bytes) : bool := existsb (beq n) raw_tags.
Definition PRE : bytes := bs "pre".

Definition set_md (s : dst) (m : mode) (n : N) : dst :=
  {| md := m; cnt := n; active := active s; out_rev := out_rev s |}.
Definition dead (s : dst) (e : derr) (o : bytes) : dst :=
  {| md := MDead e; cnt := 0; active := active s; out_rev := o |}.

(* a complete tag token has been read *)
Definition tag_done (s : dst) (isend : bool) (name_rev : bytes) (prev : N) : dst :=
  let name := lower (List.rev name_rev) in
  if isend then
    if beq name PRE then
      if active s then {| md := MTxt; cnt := 0; active := false; out_rev := out_rev s |}
      else dead s EStray (out_rev s)
    else set_md s MTxt 0
  else
    let next := if is_raw_tag name then (if beq name (bs "plaintext") then MPlain else MRaw name) else MTxt in
    if (prev =? SLASH) then set_md s next 0       (* SelfClosingTagToken: ignored by the decoder *)
    else if beq name PRE then
      if active s then dead s ENested (out_rev s)
      else {| md := next; cnt := 0; active := true; out_rev := out_rev s |}
    else set_md s next 0.

(* inside readTag; n = count including c *)
Definition tag_on (s : dst) (n : N) (isend : bool) (ts : tgstate) (name_rev : bytes) (prev c : N) : dst :=
  match tag_step ts c with
  | None => tag_done s isend name_rev prev
  | Some ts' =>
      let nm := match ts, ts' with TgName, TgName => c :: name_rev | _, _ => name_rev end in
      set_md s (MTag isend ts' nm c) n
  end.

(* text byte in the main loop (count already accounted for) *)
Definition txt_on (s : dst) (n : N) (c : N) : dst :=
  if c =? LT then set_md s MLt n
  else {| md := MTxt; cnt := n; active := active s; out_rev := emit1 (active s) c (out_rev s) |}.

Definition raw_on (s : dst) (tag : bytes) (n : N) (c : N) : dst :=
  if c =? LT then set_md s (MRawLt tag) n
  else {| md := MRaw tag; cnt := n; active := active s; out_rev := emit1 (active s) c (out_rev s) |}.

Definition gt_on (s : dst) (n : N) (c : N) : dst :=
  if c =? GT then set_md s MTxt 0 else set_md s MGt n.

Definition with_out (s : dst) (o : bytes) : dst :=
  {| md := md s; cnt := cnt s; active := active s; out_rev := o |}.

(* the bytes of the current token that are pending as look-ahead (they become text if the
   look-ahead fails, the input ends, or the buffer limit is hit) *)
Definition pending (m : mode) : bytes :=
  match m with
  | MLt => [LT]
  | MEndOpen => [LT; SLASH]
  | MRawLt _ => [LT]
  | MRawM _ mr _ => LT :: SLASH :: List.rev mr
  | _ => []
  end.

Definition is_text_mode (m : mode) : bool :=
  match m with
  | MTxt | MLt | MRaw _ | MRawLt _ | MRawM _ _ _ | MPlain => true
  | MEndOpen => true
  | _ => false
  end.

Definition step (s : dst) (c : N) : dst :=
  match md s with
  | MDead _ => s
  | m =>
    let n := cnt s + 1 in
    if MAXBUF <=? n then
      (* readByte sets ErrBufferExceeded: a text token keeps every byte read so far and is
         handed to the decoder before the error; any other token is dropped *)
      dead s EOversize (if is_text_mode m then emit (active s) (pending m ++ [c]) (out_rev s) else out_rev s)
    else
    match m with
    | MDead _ => s
    | MTxt => txt_on s n c
    | MLt =>
        if is_letter c then set_md s (MTag false TgName [c] c) 2
        else if c =? SLASH then set_md s MEndOpen 2
        else if c =? BANG then set_md s (MBang 0) 2
        else if c =? QMARK then set_md s MGt 2
        else txt_on (with_out s (emit1 (active s) LT (out_rev s))) n c
    | MEndOpen =>
        if c =? GT then set_md s MTxt 0
        else if is_letter c then set_md s (MTag true TgName [c] c) n
        else set_md s MGt n
    | MBang k =>
        if c =? DASH then (match k with O => set_md s (MBang 1) n | _ => set_md s (MCom 2) n end)
        else gt_on s n c
    | MGt => gt_on s n c
    | MCom dc =>
        if c =? DASH then set_md s (MCom (Nat.min 2 (S dc))) n
        else if (c =? GT) && Nat.leb 2 dc then set_md s MTxt 0
        else if (c =? BANG) && Nat.leb 2 dc then set_md s MComBang n
        else set_md s (MCom 0) n
    | MComBang => if c =? GT then set_md s MTxt 0 else set_md s (MCom 0) n
    | MTag isend ts nm prev => tag_on s n isend ts nm prev c
    | MRaw tag => raw_on s tag n c
    | MRawLt tag =>
        if c =? SLASH then set_md s (MRawM tag [] tag) n
        else raw_on (with_out s (emit1 (active s) LT (out_rev s))) tag n c
    | MRawM tag mr todo =>
        match todo with
        | p :: todo' =>
            if (c =? p) || (c + 32 =? p) then set_md s (MRawM tag (c :: mr) todo') n
            else raw_on (with_out s (emit (active s) (pending m) (out_rev s))) tag n c
        | [] =>
            if isws c || (c =? SLASH) || (c =? GT)
            then (* the raw text token ends before "</"; the end tag is then read by Next *)
                 tag_on s (3 + N.of_nat (List.length mr)) true TgName mr (hd 0 mr) c
            else raw_on (with_out s (emit (active s) (pending m) (out_rev s))) tag n c
        end
    | MPlain => {| md := MPlain; cnt := n; active := active s; out_rev := emit1 (active s) c (out_rev s) |}
    end
  end.

Definition run (s : dst) (l : bytes) : dst := fold_left step l s.

(* end of input ([rev_append _ []] is [rev], linear time) *)
Definition finish (s : dst) : bytes * tend :=
  match md s with
  | MDead e => (rev_append (out_rev s) [], TErr e)
  | m => (rev_append (emit (active s) (pending m) (out_rev s)) [],
          if active s then TErr EUnterminated else TEnd)
  end.

Definition armor_scan (doc : bytes) : bytes * tend := finish (run dinit doc).

Inductive dres := DOk (d : bytes) | DErr (e : derr).

(* NewArmorDecoder's version byte, then base64.NewDecoder over the pipe *)
Definition decode_result (r : bytes * tend) : dres :=
  match r with
  | ([], TEnd) => DErr EEmpty
  | ([], TErr e) => DErr e
  | (v :: body, t) =>
      if negb (v =? VERSION) then DErr EUnknownVersion
      else match b64_decode_seq body, t with
           | (_, B64Corrupt), _ => DErr EBadBase64
           | (d, B64Clean), TEnd => DOk d
           | (_, B64Partial), TEnd => DErr EBadBase64
           | (_, _), TErr e => DErr e
           end
  end.

Definition armor_decode (doc : bytes) : dres := decode_result (armor_scan doc).
