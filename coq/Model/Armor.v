(* Armor.v — AMP armor (common/amp/armor_encoder.go, armor_decoder.go).  Executable
   definitions only.

   Encoder: base64.NewEncoder | elementEncoder | w, with the boilerplate around it.
     armor_stream parts  = the bytes written to w after NewArmorEncoder, one Write per
                           element of [parts], Close.
     armor_encode p      = the whole-input form (boilerplate ++ pre elements ++ trailer).
   Decoder, in the layers of the Go code:
     1. golang.org/x/net/html's Tokenizer with SetMaxBuf(32768) — LIBRARY, modelled at the
        granularity decodeToWriter uses it: a byte-incremental automaton [tk_step]/[tk_fin] that
        returns the tokens completed by each input byte ([tok]: text with the unescaping class of
        Tokenizer.Text, start/end tag with lower-cased name, "other" = self-closing tag, comment,
        doctype, and the two ErrorTokens io.EOF / ErrBufferExceeded).  It follows Next / readTag /
        readComment / readMarkupDeclaration / readRawOrRCDATA / readScript byte for byte,
        including the SetMaxBuf accounting of readByte (raw length of the current token,
        look-ahead included) and the script escape states.  The token stream is a function of the
        bytes fed so far, whatever the chunks the source delivers them in: that is the boundary
        assumption (made explicit as the Section variables of Model/ArmorStream.v).
     2. Tokenizer.Text: NUL replacement in raw text/RCDATA, character references
        ([unescape], escape.go, with the full entity table of Model/HtmlEntities.v and the
        int32 wrap-around of numeric references), convertNewlines.
     3. decodeToWriter: pre nesting, bufio.Scanner with splitASCIIWhitespace ([words]; a word
        of >= 65536 bytes is bufio.ErrTooLong), one pipe Write per word.
     [step]/[run]/[finish] = layers 1-3 as one automaton over the document bytes;
     [armor_decode] = the strict whole-document meaning (version byte, then base64 quanta in
     order).  The io.Pipe, NewArmorDecoder and base64.NewDecoder's Read (with its chunking
     dependent treatment of data after padding) are in Model/ArmorStream.v. *)
From Coq Require Import List NArith Bool Arith String.
From Snow Require Import Lib.Wire Model.Base64 Model.HtmlEntities.
Import ListNotations.
Open Scope N_scope.

(* ------------------------------------------------------------------ constants *)
Definition boilerplate_start_str : string :=
"<!doctype html>
<html amp>
<head>
<meta charset=""utf-8"">
<script async src=""https://cdn.ampproject.org/v0.js""></script>
<link rel=""canonical"" href=""#"">
<meta name=""viewport"" content=""width=device-width"">
<style amp-boilerplate>body{-webkit-animation:-amp-start 8s steps(1,end) 0s 1 normal both;-moz-animation:-amp-start 8s steps(1,end) 0s 1 normal both;-ms-animation:-amp-start 8s steps(1,end) 0s 1 normal both;animation:-amp-start 8s steps(1,end) 0s 1 normal both}@-webkit-keyframes -amp-start{from{visibility:hidden}to{visibility:visible}}@-moz-keyframes -amp-start{from{visibility:hidden}to{visibility:visible}}@-ms-keyframes -amp-start{from{visibility:hidden}to{visibility:visible}}@-o-keyframes -amp-start{from{visibility:hidden}to{visibility:visible}}@keyframes -amp-start{from{visibility:hidden}to{visibility:visible}}</style><noscript><style amp-boilerplate>body{-webkit-animation:none;-moz-animation:none;-ms-animation:none;animation:none}</style></noscript>
</head>
<body>
".
Definition boilerplate_end_str : string :=
"</body>
</html>".

Definition boilerplate_start : bytes := bs boilerplate_start_str.
Definition boilerplate_end : bytes := bs boilerplate_end_str.

Definition MAXBUF : N := 32768.            (* elementSizeLimit = 32*1024 *)
Definition bytesPerChunk : nat := 32.
Definition chunksPerElement : nat := 992.  (* (elementSizeLimit - 1) / (bytesPerChunk + 1) *)

Definition LF : N := 10.
Definition VERSION : N := 48. (* '0' *)
Definition PRE_OPEN : bytes := bs "<pre>" ++ [LF].
Definition PRE_CLOSE : bytes := bs "</pre>" ++ [LF].

(* ------------------------------------------------------------------ elementEncoder *)
Record eenc := { cc : nat (* chunkCounter *); ec : nat (* elementCounter *) }.

(* one byte through elementEncoder.Write (the loop body handles runs of bytes up to the
   end of a chunk; byte-wise it is: header when both counters are 0, the byte, newline when
   the chunk is full, "</pre>\n" when the element is full) *)
Definition eenc_byte (e : eenc) (b : N) : eenc * bytes :=
  let hdr := if (Nat.eqb (ec e) 0 && Nat.eqb (cc e) 0)%bool then PRE_OPEN else [] in
  let c1 := S (cc e) in
  if Nat.leb bytesPerChunk c1 then
    let e1 := S (ec e) in
    if Nat.leb chunksPerElement e1
    then ({| cc := 0; ec := 0 |}, hdr ++ [b] ++ [LF] ++ PRE_CLOSE)
    else ({| cc := 0; ec := e1 |}, hdr ++ [b] ++ [LF])
  else ({| cc := c1; ec := ec e |}, hdr ++ [b]).

Fixpoint eenc_write (e : eenc) (p : bytes) : eenc * bytes :=
  match p with
  | [] => (e, [])
  | b :: p' => let '(e1, o1) := eenc_byte e b in
               let '(e2, o2) := eenc_write e1 p' in (e2, o1 ++ o2)
  end.

Definition eenc_close (e : eenc) : bytes :=
  if (Nat.eqb (ec e) 0 && Nat.eqb (cc e) 0)%bool then []
  else if Nat.eqb (cc e) 0 then PRE_CLOSE else [LF] ++ PRE_CLOSE.

(* ------------------------------------------------------------------ armorEncoder *)
Record aenc := { a_pend : bytes (* base64 encoder's 0–2 buffered bytes *); a_el : eenc }.

(* NewArmorEncoder: boilerplate, then the version byte through the element encoder *)
Definition armor_new : aenc * bytes :=
  let '(e, o) := eenc_write {| cc := 0; ec := 0 |} [VERSION] in
  ({| a_pend := [] ; a_el := e |}, boilerplate_start ++ o).

Definition armor_write (a : aenc) (p : bytes) : aenc * bytes :=
  let '(b64out, pend) := b64w_write (a_pend a) p in
  let '(e, o) := eenc_write (a_el a) b64out in
  ({| a_pend := pend; a_el := e |}, o).

Definition armor_close (a : aenc) : bytes :=
  let '(e, o) := eenc_write (a_el a) (b64w_close (a_pend a)) in
  o ++ eenc_close e ++ boilerplate_end.

Fixpoint armor_writes (a : aenc) (parts : list bytes) : aenc * bytes :=
  match parts with
  | [] => (a, [])
  | p :: ps => let '(a1, o1) := armor_write a p in
               let '(a2, o2) := armor_writes a1 ps in (a2, o1 ++ o2)
  end.

Definition armor_stream (parts : list bytes) : bytes :=
  let '(a0, o0) := armor_new in
  let '(a1, o1) := armor_writes a0 parts in
  o0 ++ o1 ++ armor_close a1.

(* whole-input form *)
Fixpoint group_aux {A} (n k : nat) (cur : list A) (l : list A) : list (list A) :=
  match l with
  | [] => match cur with [] => [] | _ => [List.rev cur] end
  | x :: l' => match k with
               | S O | O => List.rev (x :: cur) :: group_aux n n [] l'
               | S k' => group_aux n k' (x :: cur) l'
               end
  end.
(* consecutive groups of n elements (the last one may be shorter); n >= 1 *)
Definition group {A} (n : nat) (l : list A) : list (list A) := group_aux n n [] l.

Definition word_line (w : bytes) : bytes := w ++ [LF].
Definition element (ws : list bytes) : bytes := PRE_OPEN ++ List.concat (map word_line ws) ++ PRE_CLOSE.

Definition armor_words (p : bytes) : list bytes := group bytesPerChunk (VERSION :: b64_encode p).
Definition armor_elements (p : bytes) : list (list bytes) := group chunksPerElement (armor_words p).

Definition armor_encode (p : bytes) : bytes :=
  boilerplate_start ++ List.concat (map element (armor_elements p)) ++ boilerplate_end.

(* ------------------------------------------------------------------ decoder *)
Inductive derr := EUnknownVersion | EStray | ENested | EUnterminated | EOversize | EBadBase64 | EEmpty | ETooLong.
(* how decodeToWriter returned (what pw.CloseWithError gets) *)
Inductive tend := TEnd | TErr (e : derr).

Definition isws (c : N) : bool := (c =? 9) || (c =? 10) || (c =? 12) || (c =? 13) || (c =? 32).
Definition is_letter (c : N) : bool := ((97 <=? c) && (c <=? 122)) || ((65 <=? c) && (c <=? 90)).
Definition is_digit (c : N) : bool := (48 <=? c) && (c <=? 57).
Definition lower1 (c : N) : N := if (65 <=? c) && (c <=? 90) then c + 32 else c.
Definition lower (l : bytes) : bytes := map lower1 l.
Definition LT : N := 60.
Definition GT : N := 62.
Definition SLASH : N := 47.
Definition BANG : N := 33.
Definition QMARK : N := 63.
Definition DASH : N := 45.
Definition EQS : N := 61.
Definition AMP : N := 38.
Definition HASH : N := 35.
Definition SEMIC : N := 59.

(* ================================================================== layer 2: Tokenizer.Text *)
Definition REPL : bytes := [239; 191; 189].   (* U+FFFD in UTF-8 *)

(* bytes.Replace(s, nul, replacement, -1) *)
Fixpoint nul_replace (l : bytes) : bytes :=
  match l with
  | [] => []
  | c :: l' => if c =? 0 then REPL ++ nul_replace l' else c :: nul_replace l'
  end.

(* utf8.EncodeRune of a valid scalar value *)
Definition utf8_encode (x : N) : bytes :=
  if x <? 128 then [x]
  else if x <? 2048 then [192 + x / 64; 128 + x mod 64]
  else if x <? 65536 then [224 + x / 4096; 128 + (x / 64) mod 64; 128 + x mod 64]
  else [240 + x / 262144; 128 + (x / 4096) mod 64; 128 + (x / 64) mod 64; 128 + x mod 64].

(* escape.go replacementTable: numeric references 0x80..0x9F read as Windows-1252 *)
Definition win1252 : list N :=
  [8364; 129; 8218; 402; 8222; 8230; 8224; 8225; 710; 8240; 352; 8249; 338; 141; 381; 143;
   144; 8216; 8217; 8220; 8221; 8226; 8211; 8212; 732; 8482; 353; 8250; 339; 157; 382; 376].

(* [u] is the rune computed by unescapeEntity, an int32, given as its 32-bit pattern: a negative value
   passes the range tests of unescapeEntity and is turned into U+FFFD by utf8.EncodeRune *)
Definition fix_rune (u : N) : N :=
  if 2147483648 <=? u then 65533
  else if (128 <=? u) && (u <=? 159) then nth (N.to_nat (u - 128)) win1252 65533
  else if (u =? 0) || ((55296 <=? u) && (u <=? 57343)) || (1114111 <? u) then 65533
  else u.

Definition digit_val (hex : bool) (c : N) : option N :=
  if is_digit c then Some (c - 48)
  else if hex then
    (if (97 <=? c) && (c <=? 102) then Some (c - 87)
     else if (65 <=? c) && (c <=? 70) then Some (c - 55) else None)
  else None.

(* the digit loop of unescapeEntity: value modulo 2^32 (int32 arithmetic wraps), number of digits, rest *)
Fixpoint scan_digits (hex : bool) (l : bytes) (x : N) (k : nat) : N * nat * bytes :=
  match l with
  | c :: l' =>
      match digit_val hex c with
      | Some d => scan_digits hex l' (((if hex then 16 else 10) * x + d) mod 4294967296) (S k)
      | None => (x, k, l)
      end
  | [] => (x, k, [])
  end.

Definition is_alnum (c : N) : bool := is_letter c || is_digit c.
Fixpoint span_alnum (l : bytes) : bytes * bytes :=
  match l with
  | c :: l' => if is_alnum c then let '(a, r) := span_alnum l' in (c :: a, r) else ([], l)
  | [] => ([], [])
  end.

Definition entity_tab : list (bytes * list N) := map (fun e => (bs (fst e), snd e)) entity_names.
Definition entity_lookup (name : bytes) : option (list N) :=
  match find (fun e => beq (fst e) name) entity_tab with
  | Some e => Some (snd e)
  | None => None
  end.
Definition runes_utf8 (cps : list N) : bytes := List.concat (map utf8_encode cps).

(* "for j := maxLen; j > 1; j--": the longest prefix of 2..j bytes that is an entity without semicolon *)
Fixpoint prefix_lookup (j : nat) (name : bytes) : option (bytes * nat) :=
  match j with
  | O | S O => None
  | S j' => match entity_lookup (firstn j name) with
            | Some cps => Some (runes_utf8 cps, j)
            | None => prefix_lookup j' name
            end
  end.

(* unescapeEntity(b, dst, src, attribute=false) at b[src] = '&'; [s1] = b[src+1:].
   Result: the bytes written, and how many bytes of [s1] were consumed with the '&'. *)
Definition entity_at (s1 : bytes) : bytes * nat :=
  match s1 with
  | [] => ([AMP], O)
  | c1 :: r =>
      if c1 =? HASH then
        match r with
        | [] | [_] => ([AMP], O)                       (* len(s) <= 3 *)
        | c2 :: r2 =>
            let hex := (c2 =? 120) || (c2 =? 88) in
            let '(x, k, rest) := scan_digits hex (if hex then r2 else r) 0 O in
            let semi := match rest with c :: _ => c =? SEMIC | [] => false end in
            let i := (2 + (if hex then 1 else 0) + k + (if semi then 1 else 0))%nat in
            if Nat.leb i 3 then ([AMP], O)              (* "no characters matched" *)
            else (utf8_encode (fix_rune x), (i - 1)%nat)
        end
      else
        let '(nm, rest) := span_alnum s1 in
        let semi := match rest with c :: _ => c =? SEMIC | [] => false end in
        let name := if semi then nm ++ [SEMIC] else nm in
        match name with
        | [] => ([AMP], O)
        | _ =>
            match entity_lookup name with
            | Some cps => (runes_utf8 cps, List.length name)
            | None =>
                match prefix_lookup (Nat.min (List.length name - 1) longestEntityWithoutSemicolon) name with
                | Some r => r
                | None => ([AMP], O)    (* copied literally; the name has no '&' *)
                end
            end
        end
  end.

(* unescape(b, false) *)
Fixpoint unesc (skip : nat) (l : bytes) : bytes :=
  match l with
  | [] => []
  | c :: l' =>
      match skip with
      | S k => unesc k l'
      | O => if c =? AMP then let '(o, k) := entity_at l' in o ++ unesc k l' else c :: unesc O l'
      end
  end.
Definition unescape (l : bytes) : bytes := unesc O l.

(* convertNewlines: "\r" and "\r\n" become "\n" *)
Fixpoint conv_nl (l : bytes) : bytes :=
  match l with
  | [] => []
  | c :: l' =>
      if c =? 13 then
        10 :: match l' with
              | c2 :: l'' => if c2 =? 10 then conv_nl l'' else conv_nl l'
              | [] => []
              end
      else c :: conv_nl l'
  end.

(* which post-processing Tokenizer.Text applies: (convertNUL, textIsRaw) *)
Inductive tkind :=
| KText      (* main-loop text: character references *)
| KRcdata    (* title, textarea: NUL replaced, then character references *)
| KRaw.      (* other raw text elements, script, plaintext: NUL replaced *)

Definition text_data (k : tkind) (d : bytes) : bytes :=
  match k with
  | KText => unescape (conv_nl d)
  | KRcdata => unescape (nul_replace (conv_nl d))
  | KRaw => nul_replace (conv_nl d)
  end.

(* ================================================================== layer 1: the tokenizer *)
Inductive tok :=
| TkText (k : tkind) (data : bytes)   (* TextToken: raw data and how Text() will post-process it *)
| TkStart (name : bytes)              (* StartTagToken, TagName() *)
| TkEnd (name : bytes)                (* EndTagToken *)
| TkOther                             (* SelfClosingTagToken, CommentToken, DoctypeToken *)
| TkEOF                               (* ErrorToken, Err() = io.EOF *)
| TkOver.                             (* ErrorToken, Err() = ErrBufferExceeded *)

(* readTag after the first letter of the name: states of readTagName / the attribute loop *)
Inductive tgstate := TgName | TgSkip | TgKey | TgValStart | TgValEq | TgQuote (q : N) | TgUnq.

(* loop head of readTag: c is the byte read by "c := z.readByte(); if c == '>' break" and
   otherwise re-read as the first byte of an attribute key *)
Definition tg_loop (c : N) : option tgstate :=
  if c =? GT then None
  else if isws c || (c =? SLASH) then Some TgValStart
  else if c =? EQS then Some TgValEq
  else Some TgKey.
Definition tg_skip (c : N) : option tgstate := if isws c then Some TgSkip else tg_loop c.

(* None = the closing '>' of the tag was consumed *)
Definition tag_step (ts : tgstate) (c : N) : option tgstate :=
  match ts with
  | TgName => if isws c then Some TgSkip else if c =? SLASH then Some TgValStart
              else if c =? GT then None else Some TgName
  | TgSkip => tg_skip c
  | TgKey => if isws c || (c =? SLASH) then Some TgValStart else if c =? EQS then Some TgValEq
             else if c =? GT then None else Some TgKey
  | TgValStart => if isws c then Some TgValStart else if c =? EQS then Some TgValEq else tg_skip c
  | TgValEq => if isws c then Some TgValEq else if c =? GT then None
               else if (c =? 34) || (c =? 39) then Some (TgQuote c) else Some TgUnq
  | TgQuote q => if c =? q then Some TgSkip else Some (TgQuote q)
  | TgUnq => if isws c then Some TgSkip else if c =? GT then None else Some TgUnq
  end.

(* readScript's labels *)
Inductive sst :=
| SData | SLt | SEscStart | SEscStartDash
| SEsc | SEscDash | SEscDashDash | SEscLt
| SDblStart (todo : bytes)              (* scriptDataDoubleEscapeStart: rest of "script", then the terminator *)
| SDbl | SDblDash | SDblDashDash | SDblLt.
(* from where readRawEndTag was called *)
Inductive sctx := CData | CEsc | CDbl.

Inductive mode :=
| MTxt                              (* Next's main loop, reading text *)
| MLt                               (* ... after '<' *)
| MEndOpen                          (* after "</" at the start of a token *)
| MBang (dashes : nat)              (* after "<!" and 0 or 1 '-' *)
| MGt                               (* readUntilCloseAngle: bogus comment, doctype, <? *)
| MCom (dc : nat)                   (* readComment, dashCount capped at 2 *)
| MComBang                          (* readComment after "--!" *)
| MTag (isend : bool) (ts : tgstate) (name_rev : bytes) (prev : N)
| MRaw (tag : bytes)                (* readRawOrRCDATA main loop *)
| MRawLt (tag : bytes)              (* ... after '<' *)
| MRawM (tag : bytes) (matched_rev : bytes) (todo : bytes)  (* readRawEndTag after "</" *)
| MPlain                            (* rawTag = plaintext *)
| MScr (st : sst)                   (* readScript *)
| MScrM (cx : sctx) (matched_rev : bytes) (todo : bytes)    (* readRawEndTag called from readScript *)
| MStop.                            (* z.err = ErrBufferExceeded: every further Next is an ErrorToken *)

(* tokenizer state: where Next is, raw.end - raw.start, and the data bytes of the text token being
   read (reversed) *)
Record tks := { tmd : mode; tcnt : N; tbuf : bytes }.
Definition tk (m : mode) (n : N) (tb : bytes) : tks := {| tmd := m; tcnt := n; tbuf := tb |}.
Definition tk_init : tks := tk MTxt 0 [].

Definition raw_tags : list bytes :=
  map bs ["iframe"; "noembed"; "noframes"; "noscript"; "plaintext"; "script"; "style"; "textarea"; "title"; "xmp"]%string.
Definition is_raw_tag (n : bytes) : bool := existsb (beq n) raw_tags.
Definition PRE : bytes := bs "pre".
Definition SCRIPT : bytes := bs "script".
Definition is_rcdata (n : bytes) : bool := beq n (bs "textarea") || beq n (bs "title").

(* the bytes of the current token that were read as look-ahead (they are text if the look-ahead
   fails, the input ends, or the buffer limit is hit) *)
Definition pending (m : mode) : bytes :=
  match m with
  | MLt => [LT]
  | MEndOpen => [LT; SLASH]
  | MRawLt _ => [LT]
  | MRawM _ mr _ => LT :: SLASH :: List.rev mr
  | MScr SLt | MScr SEscLt | MScr SDblLt => [LT]
  | MScrM _ mr _ => LT :: SLASH :: List.rev mr
  | _ => []
  end.

Definition is_text_mode (m : mode) : bool :=
  match m with
  | MTxt | MLt | MEndOpen | MRaw _ | MRawLt _ | MRawM _ _ _ | MPlain | MScr _ | MScrM _ _ _ => true
  | _ => false
  end.
(* modes in which the token under construction is a comment or doctype *)
Definition is_other_mode (m : mode) : bool :=
  match m with MBang _ | MGt | MCom _ | MComBang => true | _ => false end.

Definition kind_of (m : mode) : tkind :=
  match m with
  | MRaw t | MRawLt t | MRawM t _ _ => if is_rcdata t then KRcdata else KRaw
  | MPlain | MScr _ | MScrM _ _ _ => KRaw
  | _ => KText
  end.

(* a text token is only returned when it has data *)
Definition flush (k : tkind) (tb : bytes) : list tok :=
  match tb with [] => [] | _ => [TkText k (rev_append tb [])] end.
(* append bytes (in order) to reversed data *)
Definition push (l : bytes) (tb : bytes) : bytes := rev_append l tb.

(* a complete tag token has been read *)
Definition tk_tag_done (isend : bool) (name_rev : bytes) (prev : N) : tks * list tok :=
  let name := lower (rev_append name_rev []) in
  if isend then (tk MTxt 0 [], [TkEnd name])
  else
    let next := if is_raw_tag name
                then (if beq name (bs "plaintext") then MPlain else if beq name SCRIPT then MScr SData else MRaw name)
                else MTxt in
    (tk next 0 [], [if prev =? SLASH then TkOther else TkStart name]).

(* inside readTag; n = count including c *)
Definition tk_tag_on (n : N) (isend : bool) (ts : tgstate) (name_rev : bytes) (prev c : N) : tks * list tok :=
  match tag_step ts c with
  | None => tk_tag_done isend name_rev prev
  | Some ts' =>
      let nm := match ts, ts' with TgName, TgName => c :: name_rev | _, _ => name_rev end in
      (tk (MTag isend ts' nm c) n [], [])
  end.

(* one byte in the main loop's text state (count already accounted for) *)
Definition txt_on (tb : bytes) (n : N) (c : N) : tks * list tok :=
  if c =? LT then (tk MLt n tb, []) else (tk MTxt n (c :: tb), []).
Definition raw_on (tag : bytes) (tb : bytes) (n : N) (c : N) : tks * list tok :=
  if c =? LT then (tk (MRawLt tag) n tb, []) else (tk (MRaw tag) n (c :: tb), []).
Definition gt_on (n : N) (c : N) : tks * list tok :=
  if c =? GT then (tk MTxt 0 [], [TkOther]) else (tk MGt n [], []).

(* readScript: re-reading c at the labels scriptData / scriptDataEscaped / scriptDataDoubleEscaped *)
Definition sdata_on (tb : bytes) (n c : N) : tks * list tok :=
  if c =? LT then (tk (MScr SLt) n tb, []) else (tk (MScr SData) n (c :: tb), []).
Definition sesc_on (tb : bytes) (n c : N) : tks * list tok :=
  if c =? DASH then (tk (MScr SEscDash) n (c :: tb), [])
  else if c =? LT then (tk (MScr SEscLt) n tb, [])
  else (tk (MScr SEsc) n (c :: tb), []).
Definition sdbl_on (tb : bytes) (n c : N) : tks * list tok :=
  if c =? DASH then (tk (MScr SDblDash) n (c :: tb), [])
  else if c =? LT then (tk (MScr SDblLt) n tb, [])
  else (tk (MScr SDbl) n (c :: tb), []).
Definition is_tag_term (c : N) : bool := isws c || (c =? SLASH) || (c =? GT).
(* the loop of scriptDataDoubleEscapeStart: [todo] = what is left of "script" *)
Definition sdblstart_on (todo : bytes) (tb : bytes) (n c : N) : tks * list tok :=
  match todo with
  | p :: todo' => if (c =? p) || (c + 32 =? p) then (tk (MScr (SDblStart todo')) n (c :: tb), [])
                  else sesc_on tb n c
  | [] => if is_tag_term c then (tk (MScr SDbl) n (c :: tb), []) else sesc_on tb n c
  end.

Definition scr_on (st : sst) (tb : bytes) (n c : N) : tks * list tok :=
  match st with
  | SData => sdata_on tb n c
  | SLt => if c =? SLASH then (tk (MScrM CData [] SCRIPT) n tb, [])
           else if c =? BANG then (tk (MScr SEscStart) n (c :: LT :: tb), [])
           else sdata_on (LT :: tb) n c
  | SEscStart => if c =? DASH then (tk (MScr SEscStartDash) n (c :: tb), []) else sdata_on tb n c
  | SEscStartDash => if c =? DASH then (tk (MScr SEscDashDash) n (c :: tb), []) else sdata_on tb n c
  | SEsc => sesc_on tb n c
  | SEscDash => if c =? DASH then (tk (MScr SEscDashDash) n (c :: tb), []) else sesc_on tb n c
  | SEscDashDash => if c =? DASH then (tk (MScr SEscDashDash) n (c :: tb), [])
                    else if c =? GT then (tk (MScr SData) n (c :: tb), [])
                    else sesc_on tb n c
  | SEscLt => if c =? SLASH then (tk (MScrM CEsc [] SCRIPT) n tb, [])
              else if is_letter c then sdblstart_on SCRIPT (LT :: tb) n c
              else sdata_on (LT :: tb) n c
  | SDblStart todo => sdblstart_on todo tb n c
  | SDbl => sdbl_on tb n c
  | SDblDash => if c =? DASH then (tk (MScr SDblDashDash) n (c :: tb), []) else sdbl_on tb n c
  | SDblDashDash => if c =? DASH then (tk (MScr SDblDashDash) n (c :: tb), [])
                    else if c =? GT then (tk (MScr SData) n (c :: tb), [])
                    else sdbl_on tb n c
  | SDblLt => if c =? SLASH then (tk (MScrM CDbl [] SCRIPT) n tb, []) else sdbl_on (LT :: tb) n c
  end.

Definition scr_fail (cx : sctx) (tb : bytes) (n c : N) : tks * list tok :=
  match cx with CData => sdata_on tb n c | CEsc => sesc_on tb n c | CDbl => sdbl_on tb n c end.

Definition add_toks (pre : list tok) (r : tks * list tok) : tks * list tok := (fst r, pre ++ snd r).

(* readByte + the code that consumes the byte: new state and the tokens Next returns because of it *)
Definition tk_step (s : tks) (c : N) : tks * list tok :=
  let m := tmd s in
  let tb := tbuf s in
  match m with
  | MStop => (s, [])
  | _ =>
    let n := tcnt s + 1 in
    if MAXBUF <=? n then
      (* readByte sets ErrBufferExceeded: a text token keeps every byte read so far and is
         returned before the ErrorToken; a comment/doctype is returned too; a tag is dropped *)
      (tk MStop 0 [],
       (if is_text_mode m then flush (kind_of m) (c :: push (pending m) tb)
        else if is_other_mode m then [TkOther] else []) ++ [TkOver])
    else
    match m with
    | MStop => (s, [])
    | MTxt => txt_on tb n c
    | MLt =>
        if is_letter c then (tk (MTag false TgName [c] c) 2 [], flush KText tb)
        else if c =? SLASH then (tk MEndOpen 2 [], flush KText tb)
        else if c =? BANG then (tk (MBang 0) 2 [], flush KText tb)
        else if c =? QMARK then (tk MGt 2 [], flush KText tb)
        else txt_on (LT :: tb) n c
    | MEndOpen =>
        if c =? GT then (tk MTxt 0 [], [TkOther])
        else if is_letter c then (tk (MTag true TgName [c] c) n [], [])
        else (tk MGt n [], [])
    | MBang k =>
        if c =? DASH then (match k with O => (tk (MBang 1) n [], []) | _ => (tk (MCom 2) n [], []) end)
        else gt_on n c
    | MGt => gt_on n c
    | MCom dc =>
        if c =? DASH then (tk (MCom (Nat.min 2 (S dc))) n [], [])
        else if (c =? GT) && Nat.leb 2 dc then (tk MTxt 0 [], [TkOther])
        else if (c =? BANG) && Nat.leb 2 dc then (tk MComBang n [], [])
        else (tk (MCom 0) n [], [])
    | MComBang => if c =? GT then (tk MTxt 0 [], [TkOther]) else (tk (MCom 0) n [], [])
    | MTag isend ts nm prev => tk_tag_on n isend ts nm prev c
    | MRaw tag => raw_on tag tb n c
    | MRawLt tag =>
        if c =? SLASH then (tk (MRawM tag [] tag) n tb, [])
        else raw_on tag (LT :: tb) n c
    | MRawM tag mr todo =>
        match todo with
        | p :: todo' =>
            if (c =? p) || (c + 32 =? p) then (tk (MRawM tag (c :: mr) todo') n tb, [])
            else raw_on tag (push (pending m) tb) n c
        | [] =>
            if is_tag_term c
            then (* the raw text token ends before "</"; the end tag is then read by Next *)
                 add_toks (flush (kind_of m) tb)
                          (tk_tag_on (3 + N.of_nat (List.length mr)) true TgName mr (hd 0 mr) c)
            else raw_on tag (push (pending m) tb) n c
        end
    | MPlain => (tk MPlain n (c :: tb), [])
    | MScr st => scr_on st tb n c
    | MScrM cx mr todo =>
        match todo with
        | p :: todo' =>
            if (c =? p) || (c + 32 =? p) then (tk (MScrM cx (c :: mr) todo') n tb, [])
            else scr_fail cx (push (pending m) tb) n c
        | [] =>
            if is_tag_term c then
              match cx with
              | CDbl => (* "z.raw.end += len("</script>")", goto scriptDataEscaped *)
                        (tk (MScr SEsc) n (c :: push (pending m) tb), [])
              | _ => add_toks (flush KRaw tb)
                              (tk_tag_on (3 + N.of_nat (List.length mr)) true TgName mr (hd 0 mr) c)
              end
            else scr_fail cx (push (pending m) tb) n c
        end
    end
  end.

(* the source returned io.EOF: what the remaining calls of Next return *)
Definition tk_fin (s : tks) : list tok :=
  let m := tmd s in
  match m with
  | MStop => [TkOver]
  | _ => (if is_text_mode m then flush (kind_of m) (push (pending m) (tbuf s))
          else if is_other_mode m then [TkOther] else []) ++ [TkEOF]
  end.

(* the token stream of a document: a function of its bytes alone *)
Fixpoint tk_run (s : tks) (l : bytes) : list tok :=
  match l with
  | [] => tk_fin s
  | c :: l' => let '(s', ts) := tk_step s c in ts ++ tk_run s' l'
  end.
Definition tokens (doc : bytes) : list tok := tk_run tk_init doc.

(* ================================================================== layer 3: decodeToWriter *)
(* bufio.Scanner with splitASCIIWhitespace: the maximal runs of non-whitespace *)
Fixpoint words_aux (l cur : bytes) : list bytes :=
  match l with
  | [] => match cur with [] => [] | _ => [rev_append cur []] end
  | c :: l' =>
      if isws c then match cur with [] => words_aux l' [] | _ => rev_append cur [] :: words_aux l' [] end
      else words_aux l' (c :: cur)
  end.
Definition words (l : bytes) : list bytes := words_aux l [].

(* bufio.MaxScanTokenSize: a word that fills the scanner's 64 KiB buffer is ErrTooLong; the words
   before it have been written *)
Definition TOOLONG : N := 65536.
Fixpoint cut_long (ws : list bytes) : list bytes * bool :=
  match ws with
  | [] => ([], false)
  | w :: r => if TOOLONG <=? N.of_nat (List.length w) then ([], true)
              else let '(a, b) := cut_long r in (w :: a, b)
  end.

(* what decodeToWriter does with one token: the words it writes to the pipe and whether it returns *)
Record dwr := { w_act : bool; w_words : list bytes; w_end : option tend }.
Definition dw_tok (act : bool) (t : tok) : dwr :=
  match t with
  | TkText k d =>
      if act then let '(ws, long) := cut_long (words (text_data k d)) in
                  {| w_act := act; w_words := ws; w_end := if long then Some (TErr ETooLong) else None |}
      else {| w_act := act; w_words := []; w_end := None |}
  | TkStart nm =>
      if beq nm PRE then
        if act then {| w_act := act; w_words := []; w_end := Some (TErr ENested) |}
        else {| w_act := true; w_words := []; w_end := None |}
      else {| w_act := act; w_words := []; w_end := None |}
  | TkEnd nm =>
      if beq nm PRE then
        if act then {| w_act := false; w_words := []; w_end := None |}
        else {| w_act := act; w_words := []; w_end := Some (TErr EStray) |}
      else {| w_act := act; w_words := []; w_end := None |}
  | TkOther => {| w_act := act; w_words := []; w_end := None |}
  | TkEOF => {| w_act := act; w_words := []; w_end := Some (if act then TErr EUnterminated else TEnd) |}
  | TkOver => {| w_act := act; w_words := []; w_end := Some (TErr EOversize) |}
  end.

(* a run of tokens, until decodeToWriter returns *)
Fixpoint dw_toks (act : bool) (ts : list tok) : dwr :=
  match ts with
  | [] => {| w_act := act; w_words := []; w_end := None |}
  | t :: ts' =>
      let r := dw_tok act t in
      match w_end r with
      | Some _ => r
      | None => let r' := dw_toks (w_act r) ts' in
                {| w_act := w_act r'; w_words := w_words r ++ w_words r'; w_end := w_end r' |}
      end
  end.

(* ================================================================== layers 1-3 as one automaton *)
(* [out_rev]: the words written to the pipe so far, last first; [halt]: decodeToWriter returned *)
Record dst := { tkz : tks; active : bool; out_rev : list bytes; halt : option tend }.
Definition md (s : dst) : mode := tmd (tkz s).
Definition cnt (s : dst) : N := tcnt (tkz s).

Definition dinit : dst := {| tkz := tk_init; active := false; out_rev := []; halt := None |}.

Definition apply_toks (t : tks) (act : bool) (o : list bytes) (ts : list tok) : dst :=
  let r := dw_toks act ts in
  {| tkz := t; active := w_act r; out_rev := rev_append (w_words r) o; halt := w_end r |}.

Definition step (s : dst) (c : N) : dst :=
  match halt s with
  | Some _ => s
  | None => let '(t, ts) := tk_step (tkz s) c in apply_toks t (active s) (out_rev s) ts
  end.

Definition run (s : dst) (l : bytes) : dst := fold_left step l s.

(* end of input: the words in order, and how decodeToWriter returned *)
Definition finish (s : dst) : list bytes * tend :=
  match halt s with
  | Some e => (rev_append (out_rev s) [], e)
  | None =>
      let s' := apply_toks (tkz s) (active s) (out_rev s) (tk_fin (tkz s)) in
      (rev_append (out_rev s') [], match halt s' with Some e => e | None => TErr EOversize end)
  end.

(* the pipe writes of a whole document *)
Definition armor_words_of (doc : bytes) : list bytes * tend := finish (run dinit doc).
(* ... as the byte stream the pipe's reader sees *)
Definition armor_scan (doc : bytes) : bytes * tend :=
  let '(ws, t) := armor_words_of doc in (List.concat ws, t).

Inductive dres := DOk (d : bytes) | DErr (e : derr).

(* NewArmorDecoder's version byte, then base64 over the pipe, read to the end: the strict,
   whole-stream meaning (a padded quantum must be the last one) *)
Definition decode_result (r : bytes * tend) : dres :=
  match r with
  | ([], TEnd) => DErr EEmpty
  | ([], TErr e) => DErr e
  | (v :: body, t) =>
      if negb (v =? VERSION) then DErr EUnknownVersion
      else match b64_decode_seq body, t with
           | (_, B64Corrupt), _ => DErr EBadBase64
           | (d, B64Clean), TEnd => DOk d
           | (_, B64Partial), TEnd => DErr EBadBase64
           | (_, _), TErr e => DErr e
           end
  end.

Definition armor_decode (doc : bytes) : dres := decode_result (armor_scan doc).
