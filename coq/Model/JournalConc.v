(* JournalConc.v — the distinct-IP journal writer under CONCURRENT callers.  Executable definitions only.

   What the code does.  broker/ipc.go ProxyPolls (accepted poll):
       metrics.lock.Lock(); UpdateCountryStats(..); RecordIPAddress(ip); metrics.lock.Unlock()
   RecordIPAddress -> ClusterWriter.AddIPToSet(ip):
       if lastWriteTime.Add(writeInterval).Before(time.Now()) { WriteIPSetToDisk() }         -- step CHECK
       current.AddIPToSet(ip)                                                                 -- step PUT
   WriteIPSetToDisk:
       currentTime := time.Now(); data := current.Dump(); entry{lastWriteTime, currentTime, data};
       io.Copy(writer, line)                                                                  -- step W1 (dump + write)
       writer.Sync(); lastWriteTime = currentTime; current.Reset()                            -- step W2 (reset)
   ClusterWriter and IPSetSink have NO lock of their own.  Between W1 and W2 lies the disk write + fsync: as long
   as a slow disk takes.  The only thing that keeps another caller out of that window is Metrics.lock, held by
   every caller around the whole call.

   The machine: any number of threads; a thread is given a call (RecordIPAddress(ip) or WriteIPSetToDisk), and
   then moves through the steps above, one step per schedule entry, interleaved with the steps of the others in
   ANY order; the clock advances between steps by any amount.  Two variants of one step function:
     lk = true   the code as it is: the call is bracketed by Lock/Unlock of one mutex (a thread that finds it held
                 does not move);
     lk = false  the same steps with no mutex (the call site outside the critical section).
   Ghost: [c_hist] = the completed calls in completion order with the clock readings they used, as ops of the
   sequential writer (Model/Journal.v).  A RecordIPAddress that flushes reads the clock a second time inside
   WriteIPSetToDisk; that second reading is the chunk boundary and the instant attributed to the call. *)
From Coq Require Import List ZArith NArith Bool.
From Snow Require Import Model.Journal Model.Round8.
Import ListNotations.
Open Scope Z_scope.

Section JournalConc.
  Variables addr hash : Type.
  Variable mask : addr -> hash.
  Variable heqb : hash -> hash -> bool.

  Inductive call := CPoll (ip : addr) | CFlush.

  Inductive jpc :=
  | JI                                  (* outside *)
  | JWant (c : call)                    (* called; next: metrics.lock.Lock() *)
  | JCheck (ip : addr)                  (* AddIPToSet; next: time.Now() and the interval test *)
  | JW1 (k : option addr)               (* WriteIPSetToDisk; next: time.Now(), Dump, entry, Write.  k: address to add afterwards *)
  | JW2 (now : Z) (k : option addr)     (* line written; next: Sync returns, lastWriteTime = now, Reset *)
  | JPut (now : Z) (ip : addr)          (* next: current.AddIPToSet(ip) *)
  | JU.                                 (* next: metrics.lock.Unlock(), return *)

  Record cst := { c_w : writer hash; c_clk : Z; c_lock : option nat; c_pc : nat -> jpc; c_hist : list (jop addr) }.

  Definition cinit (t0 interval : Z) : cst :=
    {| c_w := new_writer t0 interval; c_clk := t0; c_lock := None; c_pc := fun _ => JI; c_hist := [] |}.

  Inductive cev := Tick (d : N) | Call (i : nat) (c : call) | Step (i : nat).

  Definition entry (c : call) : jpc := match c with CPoll ip => JCheck ip | CFlush => JW1 None end.

  Definition set_pc (s : cst) (i : nat) (p : jpc) : cst :=
    {| c_w := c_w s; c_clk := c_clk s; c_lock := c_lock s; c_pc := upd (c_pc s) i p; c_hist := c_hist s |}.

  Definition cstep (lk : bool) (s : cst) (e : cev) : cst :=
    match e with
    | Tick d => {| c_w := c_w s; c_clk := c_clk s + Z.of_N d; c_lock := c_lock s; c_pc := c_pc s; c_hist := c_hist s |}
    | Call i c => match c_pc s i with JI => set_pc s i (JWant c) | _ => s end
    | Step i =>
        let w := c_w s in
        match c_pc s i with
        | JI => s
        | JWant c =>
            if lk then
              match c_lock s with
              | None => {| c_w := w; c_clk := c_clk s; c_lock := Some i; c_pc := upd (c_pc s) i (entry c); c_hist := c_hist s |}
              | Some _ => s                                  (* blocked on the mutex *)
              end
            else set_pc s i (entry c)
        | JCheck ip =>
            if w_last w + w_int w <? c_clk s then set_pc s i (JW1 (Some ip)) else set_pc s i (JPut (c_clk s) ip)
        | JW1 k =>
            {| c_w := {| w_last := w_last w; w_int := w_int w; w_cur := w_cur w;
                         w_out := w_out w ++ [{| c_start := w_last w; c_end := c_clk s; c_sk := w_cur w |}] |};
               c_clk := c_clk s; c_lock := c_lock s; c_pc := upd (c_pc s) i (JW2 (c_clk s) k); c_hist := c_hist s |}
        | JW2 now k =>
            {| c_w := {| w_last := now; w_int := w_int w; w_cur := []; w_out := w_out w |};
               c_clk := c_clk s; c_lock := c_lock s;
               c_pc := upd (c_pc s) i (match k with Some ip => JPut now ip | None => JU end);
               c_hist := match k with Some _ => c_hist s | None => c_hist s ++ [Flush now] end |}
        | JPut now ip =>
            {| c_w := {| w_last := w_last w; w_int := w_int w; w_cur := sk_add hash heqb (w_cur w) (mask ip); w_out := w_out w |};
               c_clk := c_clk s; c_lock := c_lock s; c_pc := upd (c_pc s) i JU; c_hist := c_hist s ++ [Add now ip] |}
        | JU =>
            {| c_w := w; c_clk := c_clk s; c_lock := if lk then None else c_lock s; c_pc := upd (c_pc s) i JI; c_hist := c_hist s |}
        end
    end.

  Definition crun (lk : bool) (evs : list cev) (s : cst) : cst := fold_left (cstep lk) evs s.

  Definition is_ji (p : jpc) : bool := match p with JI => true | _ => false end.
  (* the threads 0..k-1 are outside *)
  Definition cquiet (k : nat) (s : cst) : bool := forallb (fun i => is_ji (c_pc s i)) (seq 0 k).
End JournalConc.

Arguments CPoll {addr}. Arguments CFlush {addr}.
Arguments JI {addr}. Arguments JWant {addr}. Arguments JCheck {addr}. Arguments JW1 {addr}. Arguments JW2 {addr}.
Arguments JPut {addr}. Arguments JU {addr}.
Arguments Tick {addr}. Arguments Call {addr}. Arguments Step {addr}.
Arguments c_w {addr hash}. Arguments c_clk {addr hash}. Arguments c_lock {addr hash}. Arguments c_pc {addr hash}.
Arguments c_hist {addr hash}. Arguments cinit {addr hash}.
