(* CloseConn.v — executable model of client/lib/snowflake.go SnowflakeConn.Close on top of the
   Peers interleaving machine (Model/Peers.v).

     func (conn *SnowflakeConn) Close() error {
         conn.Stream.Close()        // result ignored: an error when the smux session has died already,
                                    // when the packet conn is gone, when the stream was closed before
         conn.snowflakes.End()      // unconditionally
         conn.pconn.Close()
         conn.sess.Close()
         return nil
     }

   Threads: any number of Close callers ("closers"), and everything the Peers machine has
   (connectLoop = its collector, the data path = poppers, other End callers such as the cleanup
   of Transport.Dial, peers closing on their own).  The session may die on its own at any moment
   (keep-alive timeout, server gone, packet conn closed): from then on Stream.Close reports an
   error.  connectLoop is the collector of the Peers machine, which is free to call Collect again
   at any time (a superset of "every ReconnectTimeout until Melted()"); a rendezvous attempt is the
   collector being at C_Catching.

   K_pinned is the pinned code.  K_early is a variant kept only to show that the theorems depend on
   End being called unconditionally: Close returns as soon as Stream.Close reports an error.

   Stream.Close, pconn.Close and sess.Close are library calls assumed to return.
   Executable definitions only. *)
From Coq Require Import List Arith Bool.
From Snow Require Import Model.Peers.
Import ListNotations.

Inductive kversion := K_pinned | K_early.

Inductive close_pc :=
| K_Stream              (* about to call conn.Stream.Close() *)
| K_CallEnd             (* about to call conn.snowflakes.End() *)
| K_InEnd (i : nat)     (* inside End, as End caller i of the Peers machine *)
| K_Pconn               (* End has returned; about to call conn.pconn.Close() *)
| K_Sess                (* about to call conn.sess.Close() *)
| K_Done (ended : bool). (* Close has returned; ended = it went through End *)

Record kstate := mkCS {
  ps : state;                 (* the snowflake collection *)
  sess_dead : bool;           (* the smux session is dead (Stream.Close / OpenStream fail) *)
  stream_closed : bool;       (* Stream.Close has been called before *)
  pconn_closed : bool;
  closers : list close_pc
}.

Inductive clabel :=
| L_P (l : label)        (* a step of the Peers machine: collector, poppers, End callers, peers closing *)
| L_SessDies             (* the session dies on its own *)
| L_Close                (* the application calls Close (again) *)
| L_Stream (k : nat)     (* closer k: conn.Stream.Close() returns *)
| L_CallEnd (k : nat)    (* closer k calls End *)
| L_EndRet (k : nat)     (* its End call has returned *)
| L_Pconn (k : nat)
| L_Sess (k : nat)
| L_StreamOnly.          (* somebody closes the embedded smux stream directly (conn.Stream.Close()) *)

Definition kinit (max : nat) : kstate := mkCS (init max) false false false [].

Definition set_closer (c : kstate) (k : nat) (pc : close_pc) : kstate :=
  mkCS (ps c) (sess_dead c) (stream_closed c) (pconn_closed c) (set_nth k pc (closers c)).

(* does conn.Stream.Close() report an error? (smux: io.ErrClosedPipe on a closed stream or a dead
   session, the socket's error when the FIN frame cannot be written) *)
Definition stream_close_fails (c : kstate) : bool := sess_dead c || stream_closed c.

Definition cstep (kv : kversion) (v : version) (c : kstate) (l : clabel) : option kstate :=
  match l with
  | L_P pl =>
      match step v (ps c) pl with
      | Some s' => Some (mkCS s' (sess_dead c) (stream_closed c) (pconn_closed c) (closers c))
      | None => None
      end
  | L_SessDies => Some (mkCS (ps c) true (stream_closed c) (pconn_closed c) (closers c))
  | L_Close => Some (mkCS (ps c) (sess_dead c) (stream_closed c) (pconn_closed c) (closers c ++ [K_Stream]))
  | L_Stream k =>
      match nth_error (closers c) k with
      | Some K_Stream =>
          let next := match kv with
                      | K_pinned => K_CallEnd
                      | K_early => if stream_close_fails c then K_Done false else K_CallEnd
                      end in
          Some (mkCS (ps c) (sess_dead c) true (pconn_closed c) (set_nth k next (closers c)))
      | _ => None
      end
  | L_CallEnd k =>
      match nth_error (closers c) k, step v (ps c) End_call with
      | Some K_CallEnd, Some s' =>
          Some (mkCS s' (sess_dead c) (stream_closed c) (pconn_closed c)
                     (set_nth k (K_InEnd (length (ends (ps c)))) (closers c)))
      | _, _ => None
      end
  | L_EndRet k =>
      match nth_error (closers c) k with
      | Some (K_InEnd i) =>
          match nth_error (ends (ps c)) i with
          | Some E_Done => Some (set_closer c k K_Pconn)
          | _ => None
          end
      | _ => None
      end
  | L_Pconn k =>
      match nth_error (closers c) k with
      | Some K_Pconn => Some (mkCS (ps c) (sess_dead c) (stream_closed c) true (set_nth k K_Sess (closers c)))
      | _ => None
      end
  | L_Sess k =>
      match nth_error (closers c) k with
      | Some K_Sess => Some (mkCS (ps c) true (stream_closed c) (pconn_closed c) (set_nth k (K_Done true) (closers c)))
      | _ => None
      end
  | L_StreamOnly => Some (mkCS (ps c) (sess_dead c) true (pconn_closed c) (closers c))
  end.

Fixpoint crun (kv : kversion) (v : version) (c : kstate) (tr : list clabel) : option kstate :=
  match tr with
  | [] => Some c
  | l :: tr' => match cstep kv v c l with Some c' => crun kv v c' tr' | None => None end
  end.

(* the closer is past its End call *)
Definition after_end (pc : close_pc) : bool :=
  match pc with K_Pconn | K_Sess | K_Done true => true | _ => false end.

Definition returned (pc : close_pc) : bool :=
  match pc with K_Done _ => true | _ => false end.

(* ---- settling (big-step use by the correspondence): every closer and every thread of the Peers
   machine runs until it has returned or is blocked; an in-flight Catch stays in flight *)

Definition closer_next (c : kstate) (k : nat) : option clabel :=
  match nth_error (closers c) k with
  | Some K_Stream => Some (L_Stream k)
  | Some K_CallEnd => Some (L_CallEnd k)
  | Some (K_InEnd _) => Some (L_EndRet k)
  | Some K_Pconn => Some (L_Pconn k)
  | Some K_Sess => Some (L_Sess k)
  | _ => None
  end.

Definition ctry (kv : kversion) (v : version) (c : kstate) (ol : option clabel) : option kstate :=
  match ol with Some l => cstep kv v c l | None => None end.

Definition csettle_once (kv : kversion) (v : version) (c : kstate) : option kstate :=
  match first_some (fun k => ctry kv v c (closer_next c k)) (length (closers c)) 0 with
  | Some c' => Some c'
  | None =>
      match settle_once v (ps c) with
      | Some s' => Some (mkCS s' (sess_dead c) (stream_closed c) (pconn_closed c) (closers c))
      | None => None
      end
  end.

Fixpoint csettle (kv : kversion) (v : version) (fuel : nat) (c : kstate) : kstate :=
  match fuel with
  | O => c
  | S n => match csettle_once kv v c with Some c' => csettle kv v n c' | None => c end
  end.
