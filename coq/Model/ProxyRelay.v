(* ProxyRelay.v — the proxy side of property C06 end to end: from the relay URL string in the broker's poll
   response to the string handed to the websocket dialer, and one SnowflakeProxy over its sessions as a state
   machine.  Executable definitions only (proofs: Proofs/ProxyRelayProofs.v).

   /repo/proxy/lib/snowflake.go

     Start():       if sf.BrokerURL == "" { sf.BrokerURL = DefaultBrokerURL }   (same for RelayURL, STUNURL, NATProbeURL,
                    ProxyType); url.Parse(sf.RelayURL) must succeed; IsValidRule(sf.RelayDomainNamePattern);
                    then for every token: sf.runSession(sid).   Nothing after this point writes a field of sf.

     runSession():  offer, relayURL := broker.pollOffer(sid, sf.ProxyType, sf.RelayDomainNamePattern, sf.shutdown)
                    matcher := namematcher.NewNameMatcher(sf.RelayDomainNamePattern)
                    parsedRelayURL, err := url.Parse(relayURL);  if err != nil { tokens.ret(); return }
                    if relayURL != "" && (!matcher.IsMember(parsedRelayURL.Hostname()) ||
                                          (!sf.AllowNonTLSRelay && parsedRelayURL.Scheme != "wss")) { tokens.ret(); return }
                    dataChannelHandlerWithRelayURL{RelayURL: relayURL, sf: sf}       -- the STRING is kept, not the parse

     datachannelHandler(conn, remoteAddr, relayURL):
                    if relayURL == "" { relayURL = sf.RelayURL }
                    u, err := url.Parse(relayURL);  if err != nil { log.Fatalf(...) }        -- parsed a second time
                    q := u.Query(); q.Set("client_ip", remoteAddr.String()); u.RawQuery = q.Encode()
                    websocket.DefaultDialer.Dial(u.String(), nil)                             -- and a third time, inside gorilla

   gorilla/websocket Dialer.DialContext(urlStr): u, err := url.Parse(urlStr); switch u.Scheme { "ws": plain TCP,
   "wss": TLS, default: errMalformedURL }; connects to u.Host.

   net/url is a library boundary: [urllib] is what the model needs of it.  [ul_parse] is url.Parse followed by
   .Scheme / .Hostname(); [ul_redial raw ip] is u.String() for u = url.Parse(raw) with the client_ip query set. *)
From Coq Require Import List NArith Bool Arith String.
From Snow Require Import Lib.Wire Model.NameMatcher Model.RelayCheck.
Import ListNotations.
Open Scope N_scope.

Record urllib := mk_urllib {
  ul_parse : bytes -> parsed_url;
  ul_redial : bytes -> bytes -> bytes
}.

(* the fields of SnowflakeProxy as Start() leaves them *)
Record proxy_conf := mk_proxy_conf {
  pc_relay_url : bytes;        (* sf.RelayURL (-relay, or DefaultRelayURL) *)
  pc_pattern : bytes;          (* sf.RelayDomainNamePattern *)
  pc_allow_non_tls : bool;     (* sf.AllowNonTLSRelay *)
  pc_broker_url : bytes;       (* sf.BrokerURL *)
  pc_probe_url : bytes;        (* sf.NATProbeURL *)
  pc_stun_url : bytes;         (* sf.STUNURL *)
  pc_proxy_type : bytes        (* sf.ProxyType *)
}.

(* what the relay URL test of runSession reads of the configuration *)
Definition check_cfg (c : proxy_conf) : proxy_cfg := mk_proxy_cfg (pc_pattern c) (pc_allow_non_tls c).

Inductive session_outcome :=
| SRefused                  (* runSession returned the token before a peer connection was made: nothing is dialled *)
| SFatal                    (* datachannelHandler: log.Fatalf("invalid relay url") *)
| SDial (target : bytes).   (* the string given to websocket.DefaultDialer.Dial *)

Definition datachannel_handler (lib : urllib) (c : proxy_conf) (relay_url ip : bytes) : session_outcome :=
  let r := if beq relay_url [] then pc_relay_url c else relay_url in
  match ul_parse lib r with
  | ParseError => SFatal
  | Parsed _ _ => SDial (ul_redial lib r ip)
  end.

(* one session whose poll response carries the relay URL [raw], the client's address being [ip] *)
Definition run_session (lib : urllib) (c : proxy_conf) (raw ip : bytes) : session_outcome :=
  match proxy_relay_decision (check_cfg c) raw (ul_parse lib raw) with
  | Refuse => SRefused
  | DialBrokerURL | DialConfigured => datachannel_handler lib c raw ip
  end.

(* what gorilla's dialer connects to, given the string *)
Definition WS : bytes := [119; 115].

Inductive dial_target :=
| NoDial                                (* the dialer declines the string: nothing is connected *)
| DialTo (tls : bool) (host : bytes).   (* TCP (+TLS iff tls) to the host of the string *)

Definition ws_dial (lib : urllib) (s : bytes) : dial_target :=
  match ul_parse lib s with
  | ParseError => NoDial
  | Parsed scheme host =>
      if beq scheme WSS then DialTo true host
      else if beq scheme WS then DialTo false host
      else NoDial
  end.

(* ---------------------------------------------------------------- one SnowflakeProxy over its life time *)

Record pstate := mk_pstate {
  ps_conf : proxy_conf;       (* the struct fields *)
  ps_nat : bytes;             (* currentNATType: written by checkNATType, sent in every poll *)
  ps_sessions : N;            (* sessions run so far *)
  ps_dials : list bytes       (* ghost: every string handed to the websocket dialer, newest first *)
}.

Definition pinit (c : proxy_conf) : pstate := mk_pstate c (bs "unknown") 0 [].

Inductive pevent :=
| P_Session (raw ip : bytes)          (* one iteration of the loop in Start(): tokens.get(); runSession *)
| P_NatProbe (result : bytes).        (* the periodic checkNATType stores a new NAT type *)

Definition pstep (lib : urllib) (s : pstate) (ev : pevent) : pstate * option session_outcome :=
  match ev with
  | P_Session raw ip =>
      let o := run_session lib (ps_conf s) raw ip in
      (mk_pstate (ps_conf s) (ps_nat s) (ps_sessions s + 1)
                 (match o with SDial t => t :: ps_dials s | _ => ps_dials s end), Some o)
  | P_NatProbe r => (mk_pstate (ps_conf s) r (ps_sessions s) (ps_dials s), None)
  end.

Fixpoint prun (lib : urllib) (s : pstate) (evs : list pevent) : pstate * list (option session_outcome) :=
  match evs with
  | [] => (s, [])
  | ev :: r => let '(s1, o) := pstep lib s ev in
               let '(s2, os) := prun lib s1 r in (s2, o :: os)
  end.

(* the answer of the machine to an event as a function of the configuration and the event *)
Definition preply_of (lib : urllib) (c : proxy_conf) (ev : pevent) : option session_outcome :=
  match ev with
  | P_Session raw ip => Some (run_session lib c raw ip)
  | P_NatProbe _ => None
  end.

(* projection onto the history-free reading of Model/RelayCheck.v (proxy_run) *)
Definition abs_offer (lib : urllib) (ev : pevent) : list relay_offer :=
  match ev with
  | P_Session raw _ => [(raw, ul_parse lib raw)]
  | P_NatProbe _ => []
  end.
Definition abs_outcome (ev : pevent) (o : option session_outcome) : list relay_decision :=
  match ev, o with
  | P_Session raw _, Some SRefused => [Refuse]
  | P_Session raw _, Some _ => [if beq raw [] then DialConfigured else DialBrokerURL]
  | _, _ => []
  end.

(* ---------------------------------------------------------------- executable instance of the library boundary
   A finite table: the strings of one case with what Go's net/url made of them (harness: driver op urlparse2).
   The string given to the dialer is represented by the source string behind a marker byte that no source string
   contains (0 never survives url.Parse), so that the table can name its parse. *)
Definition redial_token (raw ip : bytes) : bytes := 0 :: raw.

Fixpoint tbl_lookup (k : bytes) (t : list (bytes * parsed_url)) : parsed_url :=
  match t with
  | [] => ParseError
  | (k', v) :: r => if beq k k' then v else tbl_lookup k r
  end.

Definition table_lib (t : list (bytes * parsed_url)) : urllib :=
  mk_urllib (fun s => tbl_lookup s t) redial_token.
