(* ProxyClientIP.v — the proxy side of property C18's chain: the client_ip a Snowflake proxy puts on the relay URL.

   /repo/proxy/lib/snowflake.go (one goroutine per client: `go handler(conn, conn.RemoteAddr())`)

     datachannelHandler(conn, remoteAddr, relayURL):
         if relayURL == "" { relayURL = sf.RelayURL }            -- the broker assigned no relay: the proxy's default
         u, err := url.Parse(relayURL)                           -- a *url.URL of this call's own
         if remoteAddr != nil {
             q := u.Query(); q.Set("client_ip", remoteAddr.String()); u.RawQuery = q.Encode()
         }                                                       -- no remote address known: the URL stays as parsed
         websocket.DefaultDialer.Dial(u.String(), nil)

   The server reads client_ip from that URL's query (server/lib/http.go: C18's sanitiser takes it from there).

   net/url is a library boundary: a relay URL is an opaque [ru_base] (everything but the query) and the list of
   (key, value) pairs u.Query() yields, in order; q.Set(k, v) drops every pair under k and adds (k, v).
   The handlers of ONE proxy run concurrently: an interleaving machine over the three steps of each handler
   (parse, set the query, dial).  Executable definitions only (proofs: Proofs/ProxyClientIPProofs.v). *)
From Coq Require Import List NArith Bool Arith.
From Snow Require Import Lib.Wire.
Import ListNotations.

Record rurl := mk_rurl { ru_base : bytes; ru_query : list (bytes * bytes) }.

Definition CLIENT_IP : bytes := [99; 108; 105; 101; 110; 116; 95; 105; 112]%N.   (* "client_ip" *)

Definition q_set (k v : bytes) (q : list (bytes * bytes)) : list (bytes * bytes) :=
  filter (fun e => negb (beq (fst e) k)) q ++ [(k, v)].

Definition q_values (k : bytes) (q : list (bytes * bytes)) : list bytes :=
  map snd (filter (fun e => beq (fst e) k) q).

Definition set_client_ip (a : bytes) (u : rurl) : rurl := mk_rurl (ru_base u) (q_set CLIENT_IP a (ru_query u)).

(* what one client brings: the relay URL of the broker's poll response (None: it carried none) and the remote
   address the proxy found in the client's SDP (None: only local / unspecified candidates) *)
Record session := mk_session { s_relay : option rurl; s_addr : option bytes }.

(* the URL a session is dialled with: a function of the proxy's configured default relay and of THAT session alone *)
Definition base_of (dflt : rurl) (s : session) : rurl := match s_relay s with Some u => u | None => dflt end.
Definition relay_url_of (dflt : rurl) (s : session) : rurl :=
  match s_addr s with
  | Some a => set_client_ip a (base_of dflt s)
  | None => base_of dflt s
  end.

(* ---- the handlers as threads *)
Inductive hpc :=
| H_Start                  (* spawned *)
| H_Parsed (u : rurl)      (* u := url.Parse(relayURL), this call's own value *)
| H_Ready (u : rurl)       (* the query is set (or left alone) *)
| H_Dialed.

Record pstate := mk_pstate {
  p_default : rurl;                          (* sf.RelayURL: never written after Start() *)
  p_handlers : list (session * hpc);         (* in spawn order *)
  p_dials : list (nat * rurl)                (* ghost: (handler, URL given to the dialer), oldest first *)
}.

Definition pinit (dflt : rurl) : pstate := mk_pstate dflt [] [].

Inductive plabel :=
| L_Spawn (s : session)
| L_Parse (i : nat)
| L_SetQuery (i : nat)
| L_Dial (i : nat).

Fixpoint hupd (i : nat) (h : session * hpc) (l : list (session * hpc)) : list (session * hpc) :=
  match l, i with
  | [], _ => []
  | _ :: t, O => h :: t
  | x :: t, S i' => x :: hupd i' h t
  end.

(* a label that is not enabled leaves the state alone *)
Definition pstep (st : pstate) (l : plabel) : pstate :=
  match l with
  | L_Spawn s => mk_pstate (p_default st) (p_handlers st ++ [(s, H_Start)]) (p_dials st)
  | L_Parse i =>
      match nth_error (p_handlers st) i with
      | Some (s, H_Start) => mk_pstate (p_default st) (hupd i (s, H_Parsed (base_of (p_default st) s)) (p_handlers st)) (p_dials st)
      | _ => st
      end
  | L_SetQuery i =>
      match nth_error (p_handlers st) i with
      | Some (s, H_Parsed u) =>
          mk_pstate (p_default st)
                    (hupd i (s, H_Ready (match s_addr s with Some a => set_client_ip a u | None => u end)) (p_handlers st))
                    (p_dials st)
      | _ => st
      end
  | L_Dial i =>
      match nth_error (p_handlers st) i with
      | Some (s, H_Ready u) => mk_pstate (p_default st) (hupd i (s, H_Dialed) (p_handlers st)) (p_dials st ++ [(i, u)])
      | _ => st
      end
  end.

Definition prun (dflt : rurl) (tr : list plabel) : pstate := fold_left pstep tr (pinit dflt).

(* two schedules of the same sessions: one after the other, and all together step by step *)
Fixpoint seq_labels (i : nat) (ss : list session) : list plabel :=
  match ss with
  | [] => []
  | s :: t => [L_Spawn s; L_Parse i; L_SetQuery i; L_Dial i] ++ seq_labels (S i) t
  end.
Definition conc_labels (ss : list session) : list plabel :=
  let idx := seq 0 (length ss) in
  map L_Spawn ss ++ map L_Parse idx ++ map L_SetQuery (rev idx) ++ map L_Dial idx.
