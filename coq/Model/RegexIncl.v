(* RegexIncl.v — language inclusion of two regular expressions by Brzozowski derivatives.
   Executable definitions only; soundness (incl r1 r2 = true -> L(r1) ⊆ L(r2)) is proved in
   Proofs/RegexInclProofs.v.  Anchors match nothing here (the language of a regex is the set of
   words it matches without context); capture groups are transparent.

   Shape of [incl]: an (untrusted) breadth-first exploration of derivative pairs produces a set V
   of pairs; a separate, simple check [closed] then verifies that V contains the start pair, that
   nullable a -> nullable b for every (a,b) in V and that V is closed under derivation by one
   representative symbol of every class of the symbol partition induced by the two regexes.  Only
   [closed] matters for soundness. *)
From Coq Require Import List NArith Bool Arith.
From Snow Require Import Lib.Wire Model.Regex.
Import ListNotations.
Open Scope N_scope.

Fixpoint nullable (r : re) : bool :=
  match r with
  | Emp => false
  | Eps => true
  | Cls _ => false
  | Seq a b => nullable a && nullable b
  | Alt a b => nullable a || nullable b
  | Star _ => true
  | Rep a m n => Nat.eqb m 0 || (nullable a && Nat.leb m n)
  | Bol => false
  | Eol => false
  | Grp _ a => nullable a
  end.

(* ---------------------------------------------------------------- a total order on terms *)

Fixpoint cls_cmp (a b : cls) : comparison :=
  match a, b with
  | [], [] => Eq
  | [], _ :: _ => Lt
  | _ :: _, [] => Gt
  | (l1, h1) :: a', (l2, h2) :: b' =>
      match N.compare l1 l2 with
      | Eq => match N.compare h1 h2 with Eq => cls_cmp a' b' | c => c end
      | c => c
      end
  end.

Definition tag (r : re) : nat :=
  match r with
  | Emp => 0 | Eps => 1 | Cls _ => 2 | Seq _ _ => 3 | Alt _ _ => 4 | Star _ => 5
  | Rep _ _ _ => 6 | Bol => 7 | Eol => 8 | Grp _ _ => 9
  end%nat.

Fixpoint re_cmp (a b : re) : comparison :=
  match a, b with
  | Cls x, Cls y => cls_cmp x y
  | Seq a1 a2, Seq b1 b2 => match re_cmp a1 b1 with Eq => re_cmp a2 b2 | c => c end
  | Alt a1 a2, Alt b1 b2 => match re_cmp a1 b1 with Eq => re_cmp a2 b2 | c => c end
  | Star a1, Star b1 => re_cmp a1 b1
  | Rep a1 m1 n1, Rep b1 m2 n2 =>
      match Nat.compare m1 m2 with
      | Eq => match Nat.compare n1 n2 with Eq => re_cmp a1 b1 | c => c end
      | c => c
      end
  | Grp k1 a1, Grp k2 b1 => match Nat.compare k1 k2 with Eq => re_cmp a1 b1 | c => c end
  | _, _ => Nat.compare (tag a) (tag b)
  end.

Definition re_eqb (a b : re) : bool := match re_cmp a b with Eq => true | _ => false end.

(* ---------------------------------------------------------------- normalising constructors *)

Definition is_emp (r : re) : bool := match r with Emp => true | _ => false end.
Definition is_eps (r : re) : bool := match r with Eps => true | _ => false end.

Definition mkSeq (a b : re) : re :=
  if is_emp a || is_emp b then Emp
  else if is_eps a then b
  else if is_eps b then a
  else Seq a b.

(* insert x into the sorted, duplicate-free, right-nested alternation l *)
Fixpoint alt_insert (x l : re) : re :=
  match l with
  | Alt y t =>
      match re_cmp x y with
      | Eq => l
      | Lt => Alt x l
      | Gt => Alt y (alt_insert x t)
      end
  | y =>
      match re_cmp x y with
      | Eq => y
      | Lt => Alt x y
      | Gt => Alt y x
      end
  end.

(* union: flattens a, drops Emp, keeps the chain sorted (associativity, commutativity, idempotence) *)
Fixpoint mkAlt (a b : re) : re :=
  match a with
  | Alt x y => mkAlt x (mkAlt y b)
  | Emp => b
  | _ => if is_emp b then a else alt_insert a b
  end.

Definition mkRep (a : re) (m n : nat) : re :=
  match n with
  | O => match m with O => Eps | S _ => Emp end
  | S _ => Rep a m n
  end.

Fixpoint deriv (c : N) (r : re) : re :=
  match r with
  | Emp => Emp
  | Eps => Emp
  | Bol => Emp
  | Eol => Emp
  | Cls rs => if in_cls c rs then Eps else Emp
  | Seq a b =>
      if nullable a then mkAlt (mkSeq (deriv c a) b) (deriv c b) else mkSeq (deriv c a) b
  | Alt a b => mkAlt (deriv c a) (deriv c b)
  | Star a => mkSeq (deriv c a) (Star a)
  | Rep a m n =>
      match n with
      | O => Emp
      | S n' => mkSeq (deriv c a) (mkRep a (pred m) n')
      end
  | Grp _ a => deriv c a
  end.

(* ---------------------------------------------------------------- symbol classes *)

Fixpoint ranges (r : re) : cls :=
  match r with
  | Cls rs => rs
  | Seq a b => ranges a ++ ranges b
  | Alt a b => ranges a ++ ranges b
  | Star a => ranges a
  | Rep a _ _ => ranges a
  | Grp _ a => ranges a
  | _ => []
  end.

Definition in_rng (c : N) (rg : N * N) : bool := (fst rg <=? c) && (c <=? snd rg).

(* every symbol behaves, w.r.t. all ranges of rs, like the largest candidate below it *)
Definition cands (rs : cls) : list N :=
  0 :: flat_map (fun rg => [fst rg; snd rg + 1]) rs.

Definition sig_eqb (rs : cls) (x y : N) : bool :=
  forallb (fun rg => Bool.eqb (in_rng x rg) (in_rng y rg)) rs.

Fixpoint dedup_sig (rs : cls) (l : list N) : list N :=
  match l with
  | [] => []
  | x :: t => let d := dedup_sig rs t in if existsb (sig_eqb rs x) d then d else x :: d
  end.

(* one representative symbol per class of the partition induced by rs *)
Definition representatives (rs : cls) : list N :=
  dedup_sig rs (nodup N.eq_dec (cands rs)).

(* ---------------------------------------------------------------- exploration *)

Definition pair := (re * re)%type.

Definition pair_eqb (p q : pair) : bool := re_eqb (fst p) (fst q) && re_eqb (snd p) (snd q).

Definition pmem (p : pair) (l : list pair) : bool := existsb (pair_eqb p) l.

Inductive xres : Type :=
| XOk (seen : list pair)
| XCex (w : bytes)          (* a word of L(r1) \ L(r2), over representative symbols *)
| XFuel.

(* breadth first, so that the counter-word is a shortest one *)
Fixpoint explore (fuel : nat) (reps : list N) (todo : list (pair * bytes)) (seen : list pair) : xres :=
  match fuel with
  | O => XFuel
  | S f =>
      match todo with
      | [] => XOk seen
      | ((a, b), w) :: todo' =>
          if is_emp a || pmem (a, b) seen then explore f reps todo' seen
          else if nullable a && negb (nullable b) then XCex (rev w)
          else explore f reps
                 (todo' ++ map (fun c => ((deriv c a, deriv c b), c :: w)) reps)
                 ((a, b) :: seen)
      end
  end.

Definition step_ok (reps : list N) (V : list pair) (p : pair) : bool :=
  implb (nullable (fst p)) (nullable (snd p)) &&
  forallb (fun c => let a' := deriv c (fst p) in is_emp a' || pmem (a', deriv c (snd p)) V) reps.

Definition closed (reps : list N) (V : list pair) : bool := forallb (step_ok reps V) V.

Definition explore_fuel : nat := N.to_nat 400000.

Definition incl_with (reps : list N) (r1 r2 : re) : bool :=
  match explore explore_fuel reps [((r1, r2), [])] [] with
  | XOk V => (is_emp r1 || pmem (r1, r2) V) && closed reps V
  | _ => false
  end.

Definition incl (r1 r2 : re) : bool :=
  incl_with (representatives (ranges r1 ++ ranges r2)) r1 r2.

(* for diagnostics: the exploration result (counter-word) *)
Definition incl_run (r1 r2 : re) : xres :=
  explore explore_fuel (representatives (ranges r1 ++ ranges r2)) [((r1, r2), [])] [].
