(* BrokerExchange.v — the one HTTP exchange inside BrokerChannel.Negotiate (client/lib/rendezvous.go, rendezvous_http.go)
   with an explicit clock, over the transport createBrokerTransport() builds.  Model/Connect.v takes "Negotiate returns
   (ok or error)" as given; for a broker (or front) that ACCEPTS the request and never sends a response header that is not
   a property of the library but of the code's own configuration: the only thing that ends the exchange is the transport's
   ResponseHeaderTimeout, which createBrokerTransport sets to 15 s.  Here the limit is a field of the transport record, the
   broker's behaviours include staying silent, and the timer firing is the CODE's step (like LH i HDialTimer in
   Model/ProxySession.v): Proofs/BrokerExchangeProofs.v shows that with the code's transport every exchange is over after
   at most 15 ticks whatever the broker does, and that without the limit a silent broker keeps it in flight for ever
   (so Collect never returns and End / SnowflakeConn.Close wait on collectLock for ever: Peers.v's termination theorems are
   stated for a Catch that returns).
   Unit of time: seconds after the request has been written.  Executable definitions only. *)
From Coq Require Import Arith Bool.

Inductive broker_beh :=
| B_Drops                           (* no HTTP answer: the connection is refused / dropped at once *)
| B_Answers (d : nat) (ok : bool)   (* the response header (and body) arrive d seconds after the request; ok = a usable answer *)
| B_Silent.                         (* the request is accepted and read; no response header is ever sent *)

(* what createBrokerTransport configures that matters here: ResponseHeaderTimeout (None = 0 = no limit) *)
Record xtransport := mkXT { header_timeout : option nat }.

Definition code_transport : xtransport := mkXT (Some 15).

(* when RoundTrip returns, and whether with a usable answer; None = never *)
Definition exchange_end (t : xtransport) (b : broker_beh) : option (nat * bool) :=
  match b with
  | B_Drops => Some (0, false)
  | B_Answers d ok =>
      match header_timeout t with
      | Some T => if d <=? T then Some (d, ok) else Some (T, false)     (* the timer fires first *)
      | None => Some (d, ok)
      end
  | B_Silent =>
      match header_timeout t with
      | Some T => Some (T, false)                                       (* only the code's own timer ends it *)
      | None => None
      end
  end.

(* the rendezvous attempt is still in flight n seconds after the request *)
Definition in_flight (t : xtransport) (b : broker_beh) (n : nat) : bool :=
  match exchange_end t b with
  | Some (d, _) => n <? d
  | None => true
  end.

(* the outcome Model/Connect.v's oracle gets for this call (o_negotiate), if the call returns at all *)
Definition negotiate_outcome (t : xtransport) (b : broker_beh) : option bool :=
  match exchange_end t b with Some (_, ok) => Some ok | None => None end.
