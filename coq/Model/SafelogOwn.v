(* SafelogOwn.v — buffer ownership of LogScrubber.Write made explicit (executable definitions only).

   io.Writer: "Write must not modify the slice data, even temporarily. Implementations must not retain p."
   The writer of Model/Scrub.v is a function of byte VALUES, so it cannot even express a writer that keeps a
   reference to the caller's slice.  Here the caller's memory is part of a history:

     a history  h = [(mem_1, n_1); (mem_2, n_2); ...]   the k-th Write is called with the slice mem_k[0 .. n_k) of the
                    caller's array; between two Writes the caller may do ANYTHING to its array (io.Copy, bufio.Writer
                    and os/exec's copier refill one array for every chunk), so mem_k+1 is unrelated to mem_k;
     pend          what the writer keeps between two calls: bytes it owns (Own), or a view (View off len) into the
                    caller's array - whose content is whatever the caller's array holds when the view is read;
     write_own     LogScrubber.Write of /repo: `ls.buffer = append(ls.buffer, b...)` copies the bytes it keeps;
     write_retain  the class of change this file is about: when nothing is pending the caller's slice is scanned in
                    place and the partial line after the last newline stays pending as a view of the caller's array;
     scratch_history cap poison ws
                   the discipline of the Go driver (harness/overlay/zz_verif/safelog): one scratch array of cap bytes,
                    overwritten with `poison` after every Write, the next chunk copied to its beginning. *)
From Coq Require Import List NArith Arith.
From Snow Require Import Lib.Wire Model.Scrub.
Import ListNotations.

Inductive pend : Type :=
| Own (b : bytes)
| View (off len : nat).

Definition view (mem : bytes) (off len : nat) : bytes := firstn len (skipn off mem).

Definition deref (mem : bytes) (p : pend) : bytes :=
  match p with Own b => b | View off len => view mem off len end.

Definition write_own (sc : bytes -> bytes) (mem : bytes) (p : pend) (n : nat) : list bytes * pend :=
  let (o, r) := write sc (deref mem p) (firstn n mem) in (o, Own r).

Definition write_retain (sc : bytes -> bytes) (mem : bytes) (p : pend) (n : nat) : list bytes * pend :=
  match deref mem p with
  | [] => let (ls, r) := split_lines (firstn n mem) in (map sc ls, View (n - length r) (length r))
  | buf => let (o, r) := write sc buf (firstn n mem) in (o, Own r)
  end.

Fixpoint run_mem (w : bytes -> pend -> nat -> list bytes * pend) (p : pend) (h : list (bytes * nat))
  : list bytes * pend :=
  match h with
  | [] => ([], p)
  | (mem, n) :: h' =>
      let (o, p') := w mem p n in
      let (os, pn) := run_mem w p' h' in
      (o ++ os, pn)
  end.

(* the byte values handed to the k-th Write *)
Definition passed (h : list (bytes * nat)) : list bytes := map (fun mn => firstn (snd mn) (fst mn)) h.

Definition scratch_history (cap : nat) (poison : N) (ws : list bytes) : list (bytes * nat) :=
  map (fun w => (w ++ repeat poison (cap - length w), length w)) ws.

Definition max_len (ws : list bytes) : nat := fold_right (fun w m => Nat.max (length w) m) 0%nat ws.

(* what the driver op `write` does: every chunk goes through one scratch array that is overwritten after the call *)
Definition run_scratch (sc : bytes -> bytes) (ws : list bytes) : list bytes * bytes :=
  let (o, p) := run_mem (write_own sc) (Own []) (scratch_history (max_len ws) 55%N ws) in (o, deref [] p).
