(* CarrierTimed.v — the server carrier layer WITH TIME, and the KCP listener's view of what it reads.

   Model/CarrierLayer.v abstracts the outgoing queues as a map ClientID -> FIFO that never forgets.  The code
   (server/lib/http.go turbotunnelMode + common/turbotunnel QueuePacketConn/ClientMap) keeps the queue of a
   ClientID only while it was "seen" within clientMapTimeout (one minute): ClientMap.SendQueue(addr) — called by
   WriteTo (KCP sends to the client) and by every iteration of a carrier's write loop
   (`case p, ok := <-pconn.OutgoingQueue(clientID)`) — refreshes LastSeen; a sweeper goroutine removes and CLOSES
   the queues of records idle for the timeout; a write loop blocked on a closed queue ends and closes its carrier;
   the next SendQueue for that ClientID makes a NEW queue.  This file composes the carrier model with C17's model
   of exactly that map (Model/ClientMap.v: clientMapInner with an explicit clock, queue identities, closed queues
   that still hand out what was buffered) instead of re-inventing expiry.

   Upstream is untouched by time: QueueIncoming never looks at the client map.

   Time is Z (milliseconds in the drivers); every operation that reaches SendQueue carries the clock reading.
   ClientIDs index the client map through [cid_key] (big-endian value of the 8 bytes: injective on byte strings of
   length 8, which is what a ClientID is; the timed statements are about keys).

   The KCP listener (kcp-go Listener.packetInput as configured by server/lib: no crypto, no FEC) is a library; its
   DEMULTIPLEXING — the only part the property "one accepted connection" depends on — is modelled here as
   [l_step]: sessions are keyed by RemoteAddr().String() (= the ClientID); a datagram of at least 24 bytes from an
   unknown address creates a session (= one accepted connection); from a known address it is input to that session
   when the conversation id matches, replaces the session when it does not and sn = 0, and is dropped otherwise.
   KCP's ARQ and smux above it are NOT modelled (C01's library boundary).

   Executable definitions only. *)
From Coq Require Import List NArith ZArith Bool Arith.
From Snow Require Import Lib.Wire Model.Encap Model.CarrierLayer Model.GoHeap Model.ClientMap.
Import ListNotations.
Open Scope N_scope.

Definition cid_key (c : bytes) : N := fold_left (fun a b => a * 256 + b) c 0.

Record tstate := {
  tcar : list carrier;
  theld : list (option nat);          (* per carrier: identity of the queue its write loop obtained at its last
                                         OutgoingQueue call; None before the write loop started *)
  trecvq : list (bytes * bytes);      (* (packet, ClientID), oldest first *)
  tdelivered : list (bytes * bytes);  (* ghost: what ReadFrom returned *)
  tcm : cmap;                         (* the client map (C17's model) *)
  tacc : list (N * nat * bytes);      (* ghost: (key, queue identity, packet) accepted by WriteTo, oldest first *)
  tcons : list (option nat * N * nat * bytes)
          (* ghost: every packet taken off a queue, in order: (Some i = written to carrier i | None = lost because
             WriteData failed, key of the carrier's ClientID, identity of the queue it came from, packet) *)
}.

Definition tinit : tstate :=
  {| tcar := []; theld := []; trecvq := []; tdelivered := []; tcm := cm_empty; tacc := []; tcons := [] |}.

Inductive top :=
| T_New                                   (* a WebSocket connection is accepted *)
| T_Recv (i : nat) (b : bytes) (now : Z)  (* upstream bytes arrive on carrier i; if they complete token + ClientID the
                                             two loops start and the write loop calls OutgoingQueue at [now] *)
| T_Close (i : nat)                       (* carrier i is cut / closed by the peer *)
| T_WriteTo (cid p : bytes) (now : Z)     (* KCP sends packet p to ClientID cid *)
| T_Send (i : nat) (now : Z)              (* carrier i's write loop receives on the queue it holds *)
| T_ReadFrom                              (* KCP reads the next upstream packet *)
| T_Sweep (now : Z).                      (* the sweeper goroutine's removeExpired(now, timeout) *)

Definition pre_openb (k : carrier) : bool :=
  match k_state k with K_Token | K_ClientID => true | _ => false end.

(* turbotunnelMode got past reading the ClientID (both loops were started): the carrier is open, or it is dead with
   the ClientID it read (a wrong token leaves k_cid = []) *)
Definition entered (k : carrier) : bool :=
  match k_state k with
  | K_Open => true
  | K_Dead => Nat.eqb (length (k_cid k)) 8
  | _ => false
  end.

Definition open_carrier (k : carrier) (p : bytes) (w : bytes) : carrier :=
  {| k_state := K_Open; k_cid := k_cid k; k_buf := k_buf k; k_up := k_up k;
     k_down := k_down k ++ [p]; k_wire := k_wire k ++ w |}.

Section Timed.
  Variable timeout : Z.

  Definition tstep (s : tstate) (o : top) : tstate :=
    match o with
    | T_New =>
        {| tcar := tcar s ++ [new_carrier]; theld := theld s ++ [None]; trecvq := trecvq s;
           tdelivered := tdelivered s; tcm := tcm s; tacc := tacc s; tcons := tcons s |}
    | T_Recv i b now =>
        match nth_error (tcar s) i with
        | Some k =>
            match k_state k with
            | K_Dead => s
            | _ =>
                let '(k', ps) := pump (S (S (S (length (k_buf k) + length b)))) (with_buf (k_buf k ++ b) k) in
                let started := (pre_openb k && entered k')%bool in
                let '(cm', q) := if started then send_queue (cid_key (k_cid k')) now (tcm s) else (tcm s, 0%nat) in
                {| tcar := kupd i (fun _ => k') (tcar s);
                   theld := if started then set_nth i (Some q) (theld s) else theld s;
                   trecvq := enqueue_all (k_cid k') ps (trecvq s);
                   tdelivered := tdelivered s; tcm := cm'; tacc := tacc s; tcons := tcons s |}
            end
        | None => s
        end
    | T_Close i =>
        {| tcar := kupd i kill (tcar s); theld := theld s; trecvq := trecvq s; tdelivered := tdelivered s;
           tcm := tcm s; tacc := tacc s; tcons := tcons s |}
    | T_WriteTo cid p now =>
        let '(c1, q) := send_queue (cid_key cid) now (tcm s) in
        let '(c2, ok) := q_send QUEUE_SIZE q p c1 in
        {| tcar := tcar s; theld := theld s; trecvq := trecvq s; tdelivered := tdelivered s; tcm := c2;
           tacc := if ok then tacc s ++ [(cid_key cid, q, p)] else tacc s; tcons := tcons s |}
    | T_Send i now =>
        match nth_error (tcar s) i, nth_error (theld s) i with
        | Some k, Some (Some q) =>
            match k_state k with
            | K_Open =>
                let '(c1, r) := q_recv q (tcm s) in
                match r with
                | RcvPkt p =>
                    match write_data p with
                    | Some w =>
                        (* written; the loop comes round and evaluates pconn.OutgoingQueue(clientID) again *)
                        let '(c2, q') := send_queue (cid_key (k_cid k)) now c1 in
                        {| tcar := kupd i (fun k => open_carrier k p w) (tcar s);
                           theld := set_nth i (Some q') (theld s);
                           trecvq := trecvq s; tdelivered := tdelivered s; tcm := c2; tacc := tacc s;
                           tcons := tcons s ++ [(Some i, cid_key (k_cid k), q, p)] |}
                    | None =>
                        {| tcar := kupd i kill (tcar s); theld := theld s; trecvq := trecvq s;
                           tdelivered := tdelivered s; tcm := c1; tacc := tacc s;
                           tcons := tcons s ++ [(None, cid_key (k_cid k), q, p)] |}
                    end
                | RcvEmpty => s                 (* the write loop stays blocked in select *)
                | RcvClosed =>                  (* `p, ok := <-ch; !ok`: the queue was expired; the loop returns, conn.Close() *)
                    {| tcar := kupd i kill (tcar s); theld := theld s; trecvq := trecvq s;
                       tdelivered := tdelivered s; tcm := c1; tacc := tacc s; tcons := tcons s |}
                end
            | _ => s
            end
        | _, _ => s
        end
    | T_ReadFrom =>
        match trecvq s with
        | x :: q' => {| tcar := tcar s; theld := theld s; trecvq := q'; tdelivered := tdelivered s ++ [x];
                        tcm := tcm s; tacc := tacc s; tcons := tcons s |}
        | [] => s
        end
    | T_Sweep now =>
        {| tcar := tcar s; theld := theld s; trecvq := trecvq s; tdelivered := tdelivered s;
           tcm := remove_expired now timeout (tcm s); tacc := tacc s; tcons := tcons s |}
    end.

  Definition trun (ops : list top) : tstate := fold_left tstep ops tinit.
End Timed.

(* ---------- the KCP listener's demultiplexing (kcp-go v5 Listener.packetInput, block = nil) ---------- *)

Definition IKCP_OVERHEAD : nat := 24.
Definition MTU_LIMIT : nat := 1500.          (* the listener reads into a buffer of mtuLimit bytes *)

Definition le32 (b : bytes) : N :=
  match b with b0 :: b1 :: b2 :: b3 :: _ => b0 + 256 * (b1 + 256 * (b2 + 256 * b3)) | _ => 0 end.
Definition le16 (b : bytes) : N := match b with b0 :: b1 :: _ => b0 + 256 * b1 | _ => 0 end.

(* Some (conv, sn) when the conversation id can be read ("convRecovered") *)
Definition conv_sn (d : bytes) : option (N * N) :=
  let fec := le16 (skipn 4 d) in
  if fec =? 241 then          (* typeData 0x00f1 *)
    if (32 <=? length d)%nat then Some (le32 (skipn 8 d), le32 (skipn 20 d)) else None
  else if fec =? 242 then None   (* typeParity *)
  else Some (le32 d, le32 (skipn 12 d)).

Record lsess := {
  l_key : bytes;            (* RemoteAddr(): the ClientID *)
  l_conv : N;
  l_in : list bytes;        (* datagrams input to this session's KCP, oldest first *)
  l_live : bool             (* false once the listener closed it (replaced) *)
}.

(* input to the live session of [key], if any: (sessions, Some true = handled (input or dropped) | Some false = the
   session was closed to be replaced | None = no live session) *)
Fixpoint l_input (key : bytes) (cs : option (N * N)) (d : bytes) (ss : list lsess) : list lsess * option bool :=
  match ss with
  | [] => ([], None)
  | s :: r =>
      if (l_live s && beq (l_key s) key)%bool then
        match cs with
        | None => ({| l_key := l_key s; l_conv := l_conv s; l_in := l_in s ++ [d]; l_live := true |} :: r, Some true)
        | Some (conv, sn) =>
            if conv =? l_conv s
            then ({| l_key := l_key s; l_conv := l_conv s; l_in := l_in s ++ [d]; l_live := true |} :: r, Some true)
            else if sn =? 0
                 then ({| l_key := l_key s; l_conv := l_conv s; l_in := l_in s; l_live := false |} :: r, Some false)
                 else (s :: r, Some true)
        end
      else let '(r', h) := l_input key cs d r in (s :: r', h)
  end.

Definition l_step (ss : list lsess) (x : bytes * bytes) : list lsess :=
  let d := firstn MTU_LIMIT (fst x) in
  if (length d <? IKCP_OVERHEAD)%nat then ss
  else
    let cs := conv_sn d in
    let '(ss', h) := l_input (snd x) cs d ss in
    match h, cs with
    | Some true, _ => ss'
    | _, Some (conv, _) => ss' ++ [{| l_key := snd x; l_conv := conv; l_in := [d]; l_live := true |}]
    | _, None => ss'
    end.

(* every element is one accepted connection (AcceptKCP), in accept order *)
Definition listener_view (read : list (bytes * bytes)) : list lsess := fold_left l_step read [].
