(* SessDescCallers.v — the callers that deserialise what a remote party sent, each as
   "decode result -> branches", at the granularity at which a nil result could be touched.

   util.DeserializeSessionDescription returns the Go pair (ptr, err).  A caller panics when it
   dereferences ptr == nil; it is written here as the code is: test of err, then use of ptr.  The
   tests are switchable ([guard]) so that the theorems can say that they are what makes the use
   safe; every `_code` definition is the function as written (guard = true).

   Sites (remote party in brackets):
     proxy/lib  pollOffer -> runSession -> makePeerConnectionFromOffer   [client, relayed by the broker]
     proxy/lib  checkNATType                                            [NAT probe server]
     client/lib BrokerChannel.Negotiate -> WebRTCPeer.connect           [proxy, relayed by the broker]
   The outer messages (common/messages Decode…) and pion's SetRemoteDescription are boundaries:
   the harness reports what the outer decoder returned; what pion does with a description it is
   handed is outside (C13 note).  Executable definitions only. *)
From Coq Require Import List NArith Bool.
From Snow Require Import Lib.Wire Model.SessDesc.
Import ListNotations.
Open Scope N_scope.

(* the Go return pair; None = the call itself panicked (pinned code only) *)
Definition go_pair (o : outcome) : option (option desc * bool) :=
  match o with
  | Ok d => Some (Some d, false)
  | Err _ => Some (None, true)
  | Panic => None
  end.

Inductive cout :=
| CRet (used : option desc)   (* returned normally; used = the description that was dereferenced and handed to pion *)
| CPanic.

(* *ptr *)
Definition deref (p : option desc) : cout :=
  match p with
  | Some d => CRet (Some d)
  | None => CPanic
  end.

(* ---------------------------------------------------------------- proxy: checkNATType

     resp, err := probe.Post(...)                     ; if err != nil { return }
     sdp, _, err = messages.DecodeAnswerRequest(resp) ; if err != nil { return }
     answer, err := util.DeserializeSessionDescription(sdp)
     if err != nil { log; return }                                          <- guard
     err = pc.SetRemoteDescription of the dereferenced answer

   post_ok = the exchange succeeded; outer = None: DecodeAnswerRequest failed; Some j: the Answer
   string as encoding/json reads it (None = not JSON) *)
Definition natprobe (guard : bool) (deser : option json -> outcome) (post_ok : bool) (outer : option (option json)) : cout :=
  if negb post_ok then CRet None
  else
    match outer with
    | None => CRet None
    | Some j =>
        match go_pair (deser j) with
        | None => CPanic
        | Some (p, err) => if guard && err then CRet None else deref p
        end
    end.

Definition natprobe_code := natprobe true deserialize.

(* ---------------------------------------------------------------- proxy: pollOffer / runSession

   one element per iteration of the polling loop (= per answer of the broker; a failed Post leaves
   resp == nil, which DecodePollResponseWithRelayURL rejects: PollBad) *)
Inductive presp :=
| PollBad                       (* decode error, or a status other than "client match"/"no match": return nil *)
| PollNoMatch                   (* offer == "": next iteration *)
| PollOffer (j : option json).  (* offer != "": the Offer string as encoding/json reads it *)

(* the pointer pollOffer returns; outer None = the deserialiser panicked.
     offer, err := util.DeserializeSessionDescription(offer)
     if err != nil { return nil, "" }                                        <- guard_poll
     return offer, relayURL
   an exhausted script = shutdown was closed: return nil, "" *)
Fixpoint poll_offer (guard_poll : bool) (deser : option json -> outcome) (rs : list presp) : option (option desc) :=
  match rs with
  | [] => Some None
  | PollBad :: _ => Some None
  | PollNoMatch :: rs' => poll_offer guard_poll deser rs'
  | PollOffer j :: _ =>
      match go_pair (deser j) with
      | None => None
      | Some (p, err) => if guard_poll && err then Some None else Some p
      end
  end.

(* runSession:  offer, relayURL := broker.pollOffer(...)
                if offer == nil { tokens.ret(); return }                     <- guard_run
                … pc, err := sf.makePeerConnectionFromOffer(offer, …)        -> pc.SetRemoteDescription of the dereferenced offer
   relay_ok = the relay URL checks between the two passed (else: return) *)
Definition run_session (guard_poll guard_run : bool) (deser : option json -> outcome) (rs : list presp) (relay_ok : bool) : cout :=
  match poll_offer guard_poll deser rs with
  | None => CPanic
  | Some p =>
      match p with
      | None => if guard_run then CRet None else if relay_ok then deref p else CRet None
      | Some _ => if relay_ok then deref p else CRet None
      end
  end.

Definition poll_offer_code := poll_offer true deserialize.
Definition run_session_code := run_session true true deserialize.

(* ---------------------------------------------------------------- client: Negotiate / connect

     encResp, err := bc.Rendezvous.Exchange(encReq)        ; if err != nil { return nil, err }
     resp, err := messages.DecodeClientPollResponse(encResp); if err != nil { return nil, err }
     if resp.Error != "" { return nil, errors.New(resp.Error) }
     return util.DeserializeSessionDescription(resp.Answer)

   cresp: what the exchange and the outer decoder gave *)
Inductive cresp :=
| ExchErr                        (* Exchange returned an error *)
| RespBad                        (* DecodeClientPollResponse returned an error *)
| RespError                      (* resp.Error != "" *)
| RespAnswer (j : option json).  (* resp.Answer as encoding/json reads it *)

(* the pair Negotiate returns; None = panicked inside *)
Definition negotiate (deser : option json -> outcome) (r : cresp) : option (option desc * bool) :=
  match r with
  | ExchErr | RespBad | RespError => Some (None, true)
  | RespAnswer j => go_pair (deser j)
  end.

(* WebRTCPeer.connect:  answer, err := broker.Negotiate(localDescription)
                        if err != nil { return err }                         <- guard
                        err = c.pc.SetRemoteDescription of the dereferenced answer *)
Definition connect (guard : bool) (deser : option json -> outcome) (r : cresp) : cout :=
  match negotiate deser r with
  | None => CPanic
  | Some (p, err) => if guard && err then CRet None else deref p
  end.

Definition negotiate_code := negotiate deserialize.
Definition connect_code := connect true deserialize.
