(* EncapPad.v — WritePadding of common/encapsulation/encapsulation.go over an ARBITRARY padding buffer.
   Executable definitions only (proofs are in Proofs/EncapPadProofs.v).

   The Go code emits padding in batches: each turn of its loop takes p = min(len(paddingBuffer), n), writes a
   length prefix for a padding chunk of total size p and then paddingBuffer[:p - len(prefix)].  Two things of
   the package variable paddingBuffer enter: its LENGTH (the batch size, 1024 in the pinned code) and its
   CONTENTS (the fill bytes, zeros in the pinned code; the format puts no restriction on them).
   Model/Encap.v [write_padding] is the instance (1024, zeros).  Here both are arguments, so that the
   clause "padding is invisible" can be stated for every batch size and every fill, and the point where it
   stops to hold is visible: the switch's three-byte-prefix case masks its middle byte with 0x3f instead of
   0x7f.  With batches of at most 8193 bytes that case is never taken; a batch of exactly 8194 takes it with
   bit 13 of p-3 clear (still right); from 8195 on the prefix announces 8192 bytes fewer than are written. *)
From Coq Require Import List NArith Bool Arith.
From Snow Require Import Lib.Wire Model.Encap.
Import ListNotations.
Open Scope N_scope.

(* the switch of one loop turn: the prefix bytes and how many buffer bytes follow them.
   Masks exactly as in the code (third case: 0x3f on the middle byte). *)
Definition pad_prefix (p : N) : bytes * N :=
  if N.land (p - 1) 63 =? (p - 1) then
    ([N.land (p - 1) 63], p - 1)
  else if N.land (N.shiftr (p - 2) 7) 63 =? N.shiftr (p - 2) 7 then
    ([N.lor 64 (N.land (N.shiftr (p - 2) 7) 63); N.land (p - 2) 127], p - 2)
  else if N.land (N.shiftr (p - 3) 14) 63 =? N.shiftr (p - 3) 14 then
    ([N.lor 64 (N.land (N.shiftr (p - 3) 14) 63);
      N.lor 128 (N.land (N.shiftr (p - 3) 7) 63);
      N.land (p - 3) 127], p - 3)
  else ([], p) (* no case of the switch matches: nil prefix, p buffer bytes *).

Definition padding_chunk_buf (buf : bytes) (p : N) : bytes :=
  fst (pad_prefix p) ++ firstn (N.to_nat (snd (pad_prefix p))) buf.

Fixpoint write_padding_buf_fuel (buf : bytes) (fuel : nat) (n : N) : bytes :=
  match fuel with
  | O => []
  | S f =>
      if n =? 0 then []
      else let p := N.min (blen buf) n in
           padding_chunk_buf buf p ++ write_padding_buf_fuel buf f (n - p)
  end.

(* WritePadding(w, n) with paddingBuffer = buf (1 <= len(buf); with an empty buffer the Go loop never ends) *)
Definition write_padding_buf (buf : bytes) (n : N) : bytes :=
  write_padding_buf_fuel buf (S (N.to_nat (n / blen buf))) n.

(* the largest batch size for which every turn of the loop writes a well-formed padding chunk *)
Definition PADBATCH_MAX : N := 8194.

(* a fill under which left-over bytes are not harmless: 0x81 'A' 0x81 'A' ... (one-byte data chunks) *)
Definition loud_fill (len : N) : bytes := concat (repeat [129; 65] (N.to_nat (len / 2))).
