(* Peers.v — executable small-step interleaving model of client/lib/peers.go
   (Peers: Collect, Pop, Count/purgeClosedPeers, End) and of the threads that use it
   (connectLoop = the collector, the data path = poppers, SnowflakeConn.Close /
   Transport.Dial cleanup = enders, peers closing on their own).

   Version V0 is the pinned code.  Version V1 is the code with the three repairs in
   proposed-fixes/C15-*.diff:
     - End runs its body under a sync.Once (a second End no longer closes a closed channel);
     - the hand-over send in Collect is a select with <-melt.
   (The third repair concerns connect, see Connect.v.)

   Granularity: one label = one shared-memory action of the Go code (lock, unlock, channel
   send/receive/close, reading or setting a peer's closed flag) except that
     - Col_check = "select on melt; Count(); compare with GetMax()" and
     - End_closepeers = "Count(); close every active peer; empty the list"
   are single steps: they run under collectLock, touch only activePeers (accessed only under
   that lock) and peers' closed flags, which are monotone and read one at a time by others, so
   any finer interleaving is equivalent to one where the section is atomic.
   WebRTCPeer.Close is assumed to return (library code).
   Executable definitions only. *)
From Coq Require Import List Arith Bool.
Import ListNotations.

Inductive version := V0 | V1.

Definition peer := nat.

Inductive tid := T_Col | T_End (i : nat).

(* result of Collect *)
Inductive cres :=
| R_Ok (p : peer)      (* (connection, nil) *)
| R_Melted             (* "Snowflakes have melted" before Catch *)
| R_AtCap              (* "At capacity" *)
| R_Fail               (* Catch returned an error *)
| R_Aborted.           (* V1: melted while waiting to hand the peer over *)

Inductive col_pc :=
| C_Idle                 (* not inside Collect *)
| C_Locked               (* holds collectLock, about to check melt / Count *)
| C_Catching             (* inside Tongue.Catch (one rendezvous attempt in flight) *)
| C_Caught (p : peer)    (* Catch returned p, about to PushBack *)
| C_Sending (p : peer)   (* p is in activePeers, about to send on snowflakeChan *)
| C_Unlock (r : cres)    (* deferred Unlock pending *)
| C_Done (r : cres).     (* Collect returned r *)

Inductive pop_pc :=
| P_Wait                     (* at `<-snowflakeChan` *)
| P_Got (p : peer)           (* received p, about to test Closed() *)
| P_Ret (r : option peer).   (* Pop returned *)

Inductive end_pc :=
| E_Start        (* V1: at endOnce.Do *)
| E_Wait         (* V1: Once is running elsewhere, waiting for it *)
| E_Run          (* about to close(melt) *)
| E_Melted       (* about to Lock *)
| E_Locked       (* about to close(snowflakeChan) *)
| E_ChanClosed   (* about to Count + close all peers *)
| E_Unlock       (* deferred Unlock pending *)
| E_Finish       (* V1: Once about to be marked done *)
| E_Done.        (* End returned *)

Inductive once_st := O_Free | O_Running | O_Done.

Record state := mk {
  cap : nat;                 (* Tongue.GetMax() = cap(snowflakeChan) *)
  chan : list peer;          (* buffered contents of snowflakeChan, head = next to receive *)
  chan_closed : bool;
  active : list peer;        (* activePeers *)
  closedf : peer -> bool;    (* WebRTCPeer.Closed() *)
  melted : bool;             (* melt channel closed *)
  lock : option tid;         (* collectLock holder *)
  col : col_pc;
  pops : list pop_pc;
  ends : list end_pc;
  once : once_st;
  next_peer : peer;          (* peers are numbered in the order Catch returns them *)
  panicked : bool            (* an unrecovered Go panic: the process is gone *)
}.

Inductive label :=
| Col_lock | Col_check | Catch_ok | Catch_err | Col_push | Col_send | Col_abort | Col_unlock | Col_return
| Pop_call | Pop_recv (i : nat) | Pop_check (i : nat)
| Peer_closes (p : peer)
| End_call | End_once (i : nat) | End_wait (i : nat) | End_melt (i : nat) | End_lock (i : nat)
| End_closechan (i : nat) | End_closepeers (i : nat) | End_unlock (i : nat) | End_finish (i : nat).

Definition init (max : nat) : state :=
  mk max [] false [] (fun _ => false) false None C_Idle [] [] O_Free 0 false.

(* field updates *)
Definition set_chan (s : state) (c : list peer) :=
  mk (cap s) c (chan_closed s) (active s) (closedf s) (melted s) (lock s) (col s) (pops s) (ends s) (once s) (next_peer s) (panicked s).
Definition set_chan_closed (s : state) (b : bool) :=
  mk (cap s) (chan s) b (active s) (closedf s) (melted s) (lock s) (col s) (pops s) (ends s) (once s) (next_peer s) (panicked s).
Definition set_active (s : state) (a : list peer) :=
  mk (cap s) (chan s) (chan_closed s) a (closedf s) (melted s) (lock s) (col s) (pops s) (ends s) (once s) (next_peer s) (panicked s).
Definition set_closedf (s : state) (f : peer -> bool) :=
  mk (cap s) (chan s) (chan_closed s) (active s) f (melted s) (lock s) (col s) (pops s) (ends s) (once s) (next_peer s) (panicked s).
Definition set_melted (s : state) (b : bool) :=
  mk (cap s) (chan s) (chan_closed s) (active s) (closedf s) b (lock s) (col s) (pops s) (ends s) (once s) (next_peer s) (panicked s).
Definition set_lock (s : state) (l : option tid) :=
  mk (cap s) (chan s) (chan_closed s) (active s) (closedf s) (melted s) l (col s) (pops s) (ends s) (once s) (next_peer s) (panicked s).
Definition set_col (s : state) (c : col_pc) :=
  mk (cap s) (chan s) (chan_closed s) (active s) (closedf s) (melted s) (lock s) c (pops s) (ends s) (once s) (next_peer s) (panicked s).
Definition set_pops (s : state) (p : list pop_pc) :=
  mk (cap s) (chan s) (chan_closed s) (active s) (closedf s) (melted s) (lock s) (col s) p (ends s) (once s) (next_peer s) (panicked s).
Definition set_ends (s : state) (e : list end_pc) :=
  mk (cap s) (chan s) (chan_closed s) (active s) (closedf s) (melted s) (lock s) (col s) (pops s) e (once s) (next_peer s) (panicked s).
Definition set_once (s : state) (o : once_st) :=
  mk (cap s) (chan s) (chan_closed s) (active s) (closedf s) (melted s) (lock s) (col s) (pops s) (ends s) o (next_peer s) (panicked s).
Definition set_next_peer (s : state) (n : peer) :=
  mk (cap s) (chan s) (chan_closed s) (active s) (closedf s) (melted s) (lock s) (col s) (pops s) (ends s) (once s) n (panicked s).
Definition set_panicked (s : state) :=
  mk (cap s) (chan s) (chan_closed s) (active s) (closedf s) (melted s) (lock s) (col s) (pops s) (ends s) (once s) (next_peer s) true.

Fixpoint set_nth {A} (i : nat) (x : A) (l : list A) : list A :=
  match l, i with
  | [], _ => []
  | _ :: t, O => x :: t
  | h :: t, S k => h :: set_nth k x t
  end.

Definition live (s : state) (p : peer) : bool := negb (closedf s p).

Definition close_peer (f : peer -> bool) (p : peer) : peer -> bool :=
  fun q => if Nat.eqb q p then true else f q.

Fixpoint close_all (f : peer -> bool) (l : list peer) : peer -> bool :=
  match l with
  | [] => f
  | p :: l' => close_all (close_peer f p) l'
  end.

Definition set_pop (s : state) (i : nat) (pc : pop_pc) := set_pops s (set_nth i pc (pops s)).
Definition set_end (s : state) (i : nat) (pc : end_pc) := set_ends s (set_nth i pc (ends s)).

Definition step (v : version) (s : state) (l : label) : option state :=
  if panicked s then None else
  match l with
  (* ---- Collect (one collector thread: connectLoop) ---- *)
  | Col_lock =>
      match col s, lock s with
      | C_Idle, None => Some (set_col (set_lock s (Some T_Col)) C_Locked)
      | _, _ => None
      end
  | Col_check =>
      match col s with
      | C_Locked =>
          if melted s then Some (set_col s (C_Unlock R_Melted))
          else
            let act := filter (live s) (active s) in        (* Count(): purgeClosedPeers *)
            let s1 := set_active s act in
            if cap s <=? length act then Some (set_col s1 (C_Unlock R_AtCap))
            else Some (set_col s1 C_Catching)
      | _ => None
      end
  | Catch_ok =>
      match col s with
      | C_Catching => Some (set_col (set_next_peer s (S (next_peer s))) (C_Caught (next_peer s)))
      | _ => None
      end
  | Catch_err =>
      match col s with
      | C_Catching => Some (set_col s (C_Unlock R_Fail))
      | _ => None
      end
  | Col_push =>
      match col s with
      | C_Caught p => Some (set_col (set_active s (active s ++ [p])) (C_Sending p))
      | _ => None
      end
  | Col_send =>
      match col s with
      | C_Sending p =>
          if chan_closed s then Some (set_panicked s)          (* send on closed channel *)
          else if length (chan s) <? cap s
               then Some (set_col (set_chan s (chan s ++ [p])) (C_Unlock (R_Ok p)))
               else None                                        (* buffer full: blocked *)
      | _ => None
      end
  | Col_abort =>
      match v, col s with
      | V1, C_Sending p => if melted s then Some (set_col s (C_Unlock R_Aborted)) else None
      | _, _ => None
      end
  | Col_unlock =>
      match col s with
      | C_Unlock r => Some (set_col (set_lock s None) (C_Done r))
      | _ => None
      end
  | Col_return =>
      match col s with
      | C_Done r => Some (set_col s C_Idle)
      | _ => None
      end
  (* ---- Pop ---- *)
  | Pop_call => Some (set_pops s (pops s ++ [P_Wait]))
  | Pop_recv i =>
      match nth_error (pops s) i with
      | Some P_Wait =>
          match chan s with
          | p :: rest => Some (set_pop (set_chan s rest) i (P_Got p))
          | [] => if chan_closed s then Some (set_pop s i (P_Ret None)) else None
          end
      | _ => None
      end
  | Pop_check i =>
      match nth_error (pops s) i with
      | Some (P_Got p) =>
          if closedf s p then Some (set_pop s i P_Wait) else Some (set_pop s i (P_Ret (Some p)))
      | _ => None
      end
  (* ---- a peer closes on its own (staleness, remote close, the data path closing it) ---- *)
  | Peer_closes p =>
      if p <? next_peer s then Some (set_closedf s (close_peer (closedf s) p)) else None
  (* ---- End ---- *)
  | End_call =>
      Some (set_ends s (ends s ++ [match v with V0 => E_Run | V1 => E_Start end]))
  | End_once i =>
      match nth_error (ends s) i with
      | Some E_Start =>
          match once s with
          | O_Free => Some (set_end (set_once s O_Running) i E_Run)
          | O_Running => Some (set_end s i E_Wait)
          | O_Done => Some (set_end s i E_Done)
          end
      | _ => None
      end
  | End_wait i =>
      match nth_error (ends s) i, once s with
      | Some E_Wait, O_Done => Some (set_end s i E_Done)
      | _, _ => None
      end
  | End_melt i =>
      match nth_error (ends s) i with
      | Some E_Run =>
          if melted s then Some (set_panicked s)               (* close of closed channel *)
          else Some (set_end (set_melted s true) i E_Melted)
      | _ => None
      end
  | End_lock i =>
      match nth_error (ends s) i, lock s with
      | Some E_Melted, None => Some (set_end (set_lock s (Some (T_End i))) i E_Locked)
      | _, _ => None
      end
  | End_closechan i =>
      match nth_error (ends s) i with
      | Some E_Locked =>
          if chan_closed s then Some (set_panicked s)
          else Some (set_end (set_chan_closed s true) i E_ChanClosed)
      | _ => None
      end
  | End_closepeers i =>
      match nth_error (ends s) i with
      | Some E_ChanClosed =>
          Some (set_end (set_active (set_closedf s (close_all (closedf s) (active s))) []) i E_Unlock)
      | _ => None
      end
  | End_unlock i =>
      match nth_error (ends s) i with
      | Some E_Unlock =>
          Some (set_end (set_lock s None) i (match v with V0 => E_Done | V1 => E_Finish end))
      | _ => None
      end
  | End_finish i =>
      match nth_error (ends s) i with
      | Some E_Finish => Some (set_end (set_once s O_Done) i E_Done)
      | _ => None
      end
  end.

Fixpoint run (v : version) (s : state) (tr : list label) : option state :=
  match tr with
  | [] => Some s
  | l :: tr' => match step v s l with Some s' => run v s' tr' | None => None end
  end.

(* number of peers that exist and are not closed *)
Definition live_peers (s : state) : list peer := filter (live s) (seq 0 (next_peer s)).

(* ------------------------------------------------------------------------------------
   Big-step interpretation of op scripts (used by the correspondence with the Go driver,
   harness/overlay/client/lib/zz_verif_c15_test.go).  Each op starts a call in its own
   thread and then lets every thread run until it has returned or is blocked ("settle").
   Catch returns only when the script says so. *)

Definition col_next (v : version) (s : state) : option label :=
  match col s with
  | C_Locked => Some Col_check
  | C_Caught _ => Some Col_push
  | C_Sending _ =>
      match step v s Col_send with
      | Some _ => Some Col_send
      | None => match step v s Col_abort with Some _ => Some Col_abort | None => None end
      end
  | C_Unlock _ => Some Col_unlock
  | _ => None
  end.

Definition pop_next (s : state) (i : nat) : option label :=
  match nth_error (pops s) i with
  | Some P_Wait => Some (Pop_recv i)
  | Some (P_Got _) => Some (Pop_check i)
  | _ => None
  end.

Definition end_next (s : state) (i : nat) : option label :=
  match nth_error (ends s) i with
  | Some E_Start => Some (End_once i)
  | Some E_Wait => Some (End_wait i)
  | Some E_Run => Some (End_melt i)
  | Some E_Melted => Some (End_lock i)
  | Some E_Locked => Some (End_closechan i)
  | Some E_ChanClosed => Some (End_closepeers i)
  | Some E_Unlock => Some (End_unlock i)
  | Some E_Finish => Some (End_finish i)
  | _ => None
  end.

Definition try_step (v : version) (s : state) (ol : option label) : option state :=
  match ol with Some l => step v s l | None => None end.

Fixpoint first_some {A} (f : nat -> option A) (n k : nat) : option A :=
  match n with
  | O => None
  | S n' => match f k with Some x => Some x | None => first_some f n' (S k) end
  end.

Definition settle_once (v : version) (s : state) : option state :=
  match try_step v s (col_next v s) with
  | Some s' => Some s'
  | None =>
      match first_some (fun i => try_step v s (end_next s i)) (length (ends s)) 0 with
      | Some s' => Some s'
      | None => first_some (fun i => try_step v s (pop_next s i)) (length (pops s)) 0
      end
  end.

Fixpoint settle (v : version) (fuel : nat) (s : state) : state :=
  match fuel with
  | O => s
  | S k => match settle_once v s with Some s' => settle v k s' | None => s end
  end.
