(* Round8.v — model of broker/metrics.go binCount and broker/prometheus.go roundedCounter.
   Executable definitions only.

   binCount(count uint) = uint(math.Ceil(float64(count)/8) * 8).
   LIMITATION (stated, not proved): float64(count) is exact for count < 2^53, division and
   multiplication by 8 are exact (power of two), math.Ceil is exact; so below 2^53 the Go
   expression equals 8 * ceil(count/8), which is what [bin] computes.  Floats are not modelled.

   roundedCounter (pinned code, "v0"):
       func (c *roundedCounter) Inc() {
           atomic.AddUint64(&c.total, 1)          // step A
           if c.total > c.value {                 // steps RT (plain read total), RV (plain read value + compare)
               atomic.AddUint64(&c.value, 8)      // step ADD
           }
       }
       Write: reads c.value (plain read), any time.
   repaired code ("r"): one mutex around the whole of Inc and around the read in Write. *)
From Coq Require Import List NArith Bool Arith.
Import ListNotations.
Open Scope N_scope.

Definition bin (n : N) : N := 8 * ((n + 7) / 8).

(* ---------- sequential roundedCounter: (total, value) ---------- *)
Definition rc := (N * N)%type.
Definition rc0 : rc := (0, 0).
Definition inc_seq (c : rc) : rc :=
  let t := fst c + 1 in
  if snd c <? t then (t, snd c + 8) else (t, snd c).
Fixpoint incs (n : nat) (c : rc) : rc :=
  match n with O => c | S k => incs k (inc_seq c) end.
(* N-indexed iteration for the runner (no nat numerals) *)
Definition incsN (n : N) (c : rc) : rc := N.iter n inc_seq c.

(* ---------- v0: the pinned code as an interleaving machine over its memory steps ---------- *)
Inductive pc0 :=
| I0                (* not inside Inc *)
| A0                (* after atomic add of total; next: read total *)
| T0 (t : N)        (* total read into a temporary; next: read value and compare *)
| D0.               (* comparison was true; next: atomic add 8 to value *)

Record st0 := { total0 : N; value0 : N; pcs0 : nat -> pc0; done0 : nat (* completed Incs (ghost) *);
                started0 : nat (* started Incs (ghost) *) }.

Definition upd {A} (f : nat -> A) (i : nat) (x : A) : nat -> A := fun j => if Nat.eqb j i then x else f j.

Definition init0 : st0 := {| total0 := 0; value0 := 0; pcs0 := fun _ => I0; done0 := 0; started0 := 0 |}.

(* one memory step of thread i; every thread may run any number of Incs, so a step is always enabled *)
Definition step0 (s : st0) (i : nat) : st0 :=
  match pcs0 s i with
  | I0 => {| total0 := total0 s + 1; value0 := value0 s; pcs0 := upd (pcs0 s) i A0; done0 := done0 s; started0 := S (started0 s) |}
  | A0 => {| total0 := total0 s; value0 := value0 s; pcs0 := upd (pcs0 s) i (T0 (total0 s)); done0 := done0 s; started0 := started0 s |}
  | T0 t => if value0 s <? t
            then {| total0 := total0 s; value0 := value0 s; pcs0 := upd (pcs0 s) i D0; done0 := done0 s; started0 := started0 s |}
            else {| total0 := total0 s; value0 := value0 s; pcs0 := upd (pcs0 s) i I0; done0 := S (done0 s); started0 := started0 s |}
  | D0 => {| total0 := total0 s; value0 := value0 s + 8; pcs0 := upd (pcs0 s) i I0; done0 := S (done0 s); started0 := started0 s |}
  end.

Definition run0 (sched : list nat) (s : st0) : st0 := fold_left step0 sched s.

Definition is_idle0 (p : pc0) : bool := match p with I0 => true | _ => false end.
(* quiescent w.r.t. the threads 0..k-1 *)
Definition quiescent0 (k : nat) (s : st0) : bool := forallb (fun i => is_idle0 (pcs0 s i)) (seq 0 k).

(* ---------- r: the repaired code (mutex around Inc, and around the read in Write) ---------- *)
Inductive pcr :=
| IR          (* not inside Inc *)
| LR          (* holds the mutex; next: total++ *)
| CR          (* total incremented; next: compare total > value *)
| DR          (* comparison true; next: value += 8 *)
| UR.         (* next: unlock and return *)

Record str := { totalr : N; valuer : N; lockr : option nat; pcsr : nat -> pcr; doner : nat; startedr : nat }.

Definition initr : str := {| totalr := 0; valuer := 0; lockr := None; pcsr := fun _ => IR; doner := 0; startedr := 0 |}.

(* [None] = the step is not enabled (the thread is blocked on the mutex) *)
Definition stepr (s : str) (i : nat) : option str :=
  match pcsr s i with
  | IR => match lockr s with
          | None => Some {| totalr := totalr s; valuer := valuer s; lockr := Some i; pcsr := upd (pcsr s) i LR;
                            doner := doner s; startedr := S (startedr s) |}
          | Some _ => None
          end
  | LR => Some {| totalr := totalr s + 1; valuer := valuer s; lockr := lockr s; pcsr := upd (pcsr s) i CR;
                  doner := doner s; startedr := startedr s |}
  | CR => Some {| totalr := totalr s; valuer := valuer s; lockr := lockr s;
                  pcsr := upd (pcsr s) i (if valuer s <? totalr s then DR else UR);
                  doner := doner s; startedr := startedr s |}
  | DR => Some {| totalr := totalr s; valuer := valuer s + 8; lockr := lockr s; pcsr := upd (pcsr s) i UR;
                  doner := doner s; startedr := startedr s |}
  | UR => Some {| totalr := totalr s; valuer := valuer s; lockr := None; pcsr := upd (pcsr s) i IR;
                  doner := S (doner s); startedr := startedr s |}
  end.

(* blocked steps are skipped (the scheduler picked a thread that cannot move) *)
Definition stepr_skip (s : str) (i : nat) : str := match stepr s i with Some s' => s' | None => s end.
Definition runr (sched : list nat) (s : str) : str := fold_left stepr_skip sched s.

(* Write under the mutex: enabled only when the mutex is free; returns the published value *)
Definition observer (s : str) : option N := match lockr s with None => Some (valuer s) | Some _ => None end.

Definition is_idler (p : pcr) : bool := match p with IR => true | _ => false end.
Definition quiescentr (k : nat) (s : str) : bool := forallb (fun i => is_idler (pcsr s i)) (seq 0 k).

(* canonical fair schedule used by the runner: k threads, each n Incs, round robin, 5 steps per Inc *)
Fixpoint repeat_list {A} (n : nat) (l : list A) : list A :=
  match n with O => [] | S m => l ++ repeat_list m l end.

(* witness schedules for the pinned code *)
Definition sched_overshoot : list nat :=
  repeat 0%nat 25 ++ [0;0;0; 1;1;1; 0; 1]%nat.
(* nine concurrent Incs: eight read total early (<= 8), the ninth pushes value to 8, the eight see value >= their total *)
Definition sched_undershoot : list nat :=
  [0;0; 1;1; 2;2; 3;3; 4;4; 5;5; 6;6; 7;7;  8;8;8;8;  0;1;2;3;4;5;6;7]%nat.

(* the states after each step of a schedule (what the [sched] runner op prints from):
   element n is [runr] of the first n+1 schedule entries (Round8Proofs.runr_trace_nth) *)
Fixpoint runr_trace (sched : list nat) (s : str) : list str :=
  match sched with
  | [] => []
  | i :: r => let s' := stepr_skip s i in s' :: runr_trace r s'
  end.
