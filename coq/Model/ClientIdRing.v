(* ClientIdRing.v — executable model of server/lib/turbotunnel.go (clientIDMap).
   Executable definitions only (proofs are in Proofs/ClientIdProofs.v).

   Go:  type clientIDMap struct { lock; entries []struct{clientID; addr}; oldest int;
                                  current map[ClientID]int }
   ClientIDs (8 bytes) are numbers [N] here (big endian value of the 8 bytes; the Run
   adapter rejects anything that is not exactly 8 bytes, so the conversion is injective).
   The zero ClientID is 0: make([]struct{...}, capacity) fills the slots with it.
   Set and Get run under m.lock, i.e. each is one atomic step; a history of calls made
   by any number of goroutines is a list of ops. *)
From Coq Require Import List NArith Bool Arith.
Import ListNotations.

Section Ring.
  Variable A : Type.          (* stored address value (net.Addr) *)
  Variable nilA : A.          (* the zero value of a slot's addr field: nil *)

  (* Go map[ClientID]int as an association list with at most one pair per key *)
  Definition cmap := list (N * nat).

  Fixpoint cur_get (k : N) (m : cmap) : option nat :=
    match m with
    | [] => None
    | (k', i) :: m' => if N.eqb k' k then Some i else cur_get k m'
    end.

  Definition cur_del (k : N) (m : cmap) : cmap :=
    filter (fun p => negb (N.eqb (fst p) k)) m.

  Definition cur_put (k : N) (i : nat) (m : cmap) : cmap := (k, i) :: cur_del k m.

  Record ring := mkRing {
    entries : list (N * A);
    oldest : nat;
    current : cmap
  }.

  (* newClientIDMap(capacity) *)
  Definition new (cap : nat) : ring := mkRing (repeat (0%N, nilA) cap) 0 [].

  Fixpoint upd {B} (i : nat) (x : B) (l : list B) : list B :=
    match l, i with
    | [], _ => []
    | _ :: l', O => x :: l'
    | y :: l', S i' => y :: upd i' x l'
    end.

  (* Set.  [nth … (0, nilA)] never reaches its default: oldest < length entries is an
     invariant when the capacity is not 0 (Proofs: inv_oldest). *)
  Definition set (r : ring) (k : N) (a : A) : ring :=
    match length (entries r) with
    | O => r                                         (* if len(m.entries) == 0 { return } *)
    | S _ =>
        let o := oldest r in
        let ek := fst (nth o (entries r) (0%N, nilA)) in
        let cur1 :=
          match cur_get ek (current r) with
          | Some i => if Nat.eqb i o then cur_del ek (current r) else current r
          | None => current r
          end in
        mkRing (upd o (k, a) (entries r))
               ((o + 1) mod length (entries r))
               (cur_put k o cur1)
    end.

  (* Get: (addr, ok) as an option.  The index stored in current is always in range
     (Proofs), so the [nth] default is not reached. *)
  Definition get (r : ring) (k : N) : option A :=
    match cur_get k (current r) with
    | Some i => Some (snd (nth i (entries r) (0%N, nilA)))
    | None => None
    end.

  Inductive op := OSet (k : N) (a : A) | OGet (k : N).

  Definition step (r : ring) (o : op) : ring :=
    match o with OSet k a => set r k a | OGet _ => r end.

  Definition exec (r : ring) (ops : list op) : ring := fold_left step ops r.

  (* the results of the Get calls of a history, in order *)
  Fixpoint outputs (r : ring) (ops : list op) : list (option A) :=
    match ops with
    | [] => []
    | OSet k a :: ops' => outputs (set r k a) ops'
    | OGet k :: ops' => get r k :: outputs r ops'
    end.

  (* ---------- specification: the window of the last cap Set calls ---------- *)

  (* first pair with key k (histories are kept most recent first) *)
  Fixpoint assoc (k : N) (l : list (N * A)) : option A :=
    match l with
    | [] => None
    | (k', a) :: l' => if N.eqb k' k then Some a else assoc k l'
    end.

  (* Set calls of a history, most recent first *)
  Fixpoint sets_rev_aux (acc : list (N * A)) (ops : list op) : list (N * A) :=
    match ops with
    | [] => acc
    | OSet k a :: ops' => sets_rev_aux ((k, a) :: acc) ops'
    | OGet _ :: ops' => sets_rev_aux acc ops'
    end.
  Definition sets_rev := sets_rev_aux [].

  Definition window (cap : nat) (h : list (N * A)) : list (N * A) := firstn cap h.
  Definition spec_get (cap : nat) (h : list (N * A)) (k : N) : option A := assoc k (window cap h).

  Fixpoint spec_outputs (cap : nat) (h : list (N * A)) (ops : list op) : list (option A) :=
    match ops with
    | [] => []
    | OSet k a :: ops' => spec_outputs cap ((k, a) :: h) ops'
    | OGet k :: ops' => spec_get cap h k :: spec_outputs cap h ops'
    end.
End Ring.

Arguments entries {A}. Arguments oldest {A}. Arguments current {A}.
Arguments OSet {A}. Arguments OGet {A}.
