(* MessagesPanic.v — common/messages (proxy.go, client.go) at the granularity at which the Go code can
   panic.  Model/Messages.v returns [Ok | Err] and so cannot express a panic; here every PARTIAL
   operation the six decoders (and the two legacy wrappers, and the encoders) perform is an explicit
   step that yields [DPanic] when its operand does not allow it:

     parts[0], parts[1]                     client.go DecodeClientPollRequest: parts is the [][]byte returned by
                                            bytes.SplitN(data, "\n", 2); an index outside the slice panics
     strings.Split(message.Version, ".")[0] proxy.go DecodeProxyPollRequestWithRelayPrefix and DecodeAnswerRequest:
                                            index 0 of the []string the library returned
     *message.AcceptedRelayPattern          proxy.go DecodeProxyPollRequestWithRelayPrefix: dereference of a *string
                                            that json.Unmarshal leaves nil when the field is absent or null
     req.Fingerprint                        client.go EncodeClientPollRequest (method on a pointer to ClientPollRequest): field of the
                                            pointer receiver

   Everything else the functions do is total in Go: string/int comparisons, `switch` on a string, the map
   read KnownProxyTypes[message.Type] (total even on a nil map), &message / &relayPattern (address of a
   local), append, errors.New, fmt.Errorf with a constant format, json.Marshal of a struct of strings and
   ints (returns (bytes, error)), bridgefingerprint.FingerprintFromHexString (hex.DecodeString returns
   (bytes, error); then len and a conversion), and the field reads of the local struct [message].  There is
   no slice expression, no type assertion, no integer division, no channel and no explicit panic in
   proxy.go, client.go or ipc.go.  json.Unmarshal itself is the library boundary of Model/JsonBoundary.v
   (its panic freedom is observed on every case by the driver, not proved).

   The two checks the code makes before a partial step are switchable ([guards]) so that the theorems can
   say which check is the reason a step is safe; [CODE] is the functions as written.  The two library
   calls whose result is indexed are parameters ([libs]) so that the theorems can say what is needed of
   them: the code has NO check between strings.Split and [0] - it relies on the library returning at least
   one element - while `len(parts) < 2` makes the client decoder safe for ANY slice SplitN could return.
   [GO] is the two library functions as executable models (tied to the real ones by the ops `vsplit` and
   `nsplit` of Run/MessagesRun.v).

   [WShape] is not a Go operation: Go's [message] is a statically typed struct, the boundary hands over an
   untyped [list fval]; reading field i at the type the struct has is a step that yields [DPanic WShape]
   when the list has another shape, instead of being folded into [Err] as in Model/Messages.v - so the
   no-panic theorem also says that this artefact branch is never taken.  Executable definitions only. *)
From Coq Require Import List NArith ZArith Bool Arith String.
From Snow Require Import Lib.Wire Model.JsonBoundary Model.Messages.
Import ListNotations.
Open Scope N_scope.

Inductive dwhy := WIndex | WNilDeref | WShape.

Inductive dres (A : Type) :=
| DVal (r : result A)        (* the function returned: a value or an error *)
| DPanic (w : dwhy).
Arguments DVal {A} r.
Arguments DPanic {A} w.

(* ---- the partial operations (continuation style: [k] is the rest of the function) *)

(* l[i] *)
Definition go_index {A B} (l : list A) (i : nat) (k : A -> dres B) : dres B :=
  match nth_error l i with
  | Some x => k x
  | None => DPanic WIndex
  end.

(* *p *)
Definition go_deref {A B} (p : option A) (k : A -> dres B) : dres B :=
  match p with
  | Some x => k x
  | None => DPanic WNilDeref
  end.

(* message.<field i>, at the static type of the field *)
Definition get_str {B} (st : list fval) (i : nat) (k : bytes -> dres B) : dres B :=
  match nth_error st i with Some (VStr s) => k s | _ => DPanic WShape end.
Definition get_int {B} (st : list fval) (i : nat) (k : Z -> dres B) : dres B :=
  match nth_error st i with Some (VInt z) => k z | _ => DPanic WShape end.
Definition get_ptr {B} (st : list fval) (i : nat) (k : option bytes -> dres B) : dres B :=
  match nth_error st i with Some (VPtr p) => k p | _ => DPanic WShape end.

(* ---- the checks written in the code *)
Record guards := mkGuards {
  g_len : bool;     (* client.go: if len(parts) < 2 { return nil, fmt.Errorf("unsupported message version") } *)
  g_nil : bool      (* proxy.go:  if message.AcceptedRelayPattern != nil { … = *message.AcceptedRelayPattern } *)
}.
Definition CODE : guards := mkGuards true true.

(* ---- the library calls whose result is indexed *)
Record libs := mkLibs {
  l_split : bytes -> list bytes;      (* strings.Split(s, ".") *)
  l_splitn : bytes -> list bytes      (* bytes.SplitN(data, "\n", 2) *)
}.

(* strings.Split(s, "."): genSplit allocates Count(s, ".") + 1 substrings: the text before the first
   dot, between consecutive dots, after the last dot.  (first, rest) so that "at least one" is by
   construction, as in the library. *)
Fixpoint split_dot_ne (l : bytes) : bytes * list bytes :=
  match l with
  | [] => ([], [])
  | c :: r => let '(h, t) := split_dot_ne r in
              if c =? 46 then ([], h :: t) else (c :: h, t)
  end.
Definition split_dot (l : bytes) : list bytes := let '(h, t) := split_dot_ne l in h :: t.

(* bytes.SplitN(data, "\n", 2): the whole input when there is no newline, else the text before the
   first newline and everything after it *)
Definition splitn_nl (data : bytes) : list bytes :=
  match split_nl data with
  | None => [data]
  | Some (a, b) => [a; b]
  end.

Definition GO : libs := mkLibs split_dot splitn_nl.

Definition is_nil {A} (p : option A) : bool := match p with None => true | Some _ => false end.

(* ================= DecodeProxyPollRequestWithRelayPrefix =================
     err = json.Unmarshal(data, &message); if err != nil { return }
     majorVersion := strings.Split(message.Version, ".")[0]
     if majorVersion != "1" { err = …; return }
     if message.Sid == "" { err = …; return }
     switch message.NAT { … default: err = …; return }
     if !KnownProxyTypes[message.Type] { message.Type = ProxyUnknown }
     var acceptedRelayPattern = ""
     if message.AcceptedRelayPattern != nil { acceptedRelayPattern = *message.AcceptedRelayPattern }    <- g_nil
     return message.Sid, message.Type, message.NAT, message.Clients, acceptedRelayPattern,
            message.AcceptedRelayPattern != nil, nil *)
Definition decode_proxy_poll_g (g : guards) (L : libs) (v : json) : dres poll_req :=
  match unmarshal poll_req_schema v with
  | None => DVal Err
  | Some st =>
      get_str st 1 (fun ver =>
      go_index (l_split L ver) 0 (fun major =>
      if negb (beq major (bs "1")) then DVal Err else
      get_str st 0 (fun sid =>
      if beq sid [] then DVal Err else
      get_str st 3 (fun nat =>
      match norm_nat nat with
      | None => DVal Err
      | Some nat' =>
          get_str st 2 (fun ty =>
          get_int st 4 (fun n =>
          get_ptr st 5 (fun pat =>
          let ret (p : bytes) : dres poll_req :=
            DVal (Ok {| pq_sid := sid; pq_type := norm_type ty; pq_nat := nat'; pq_clients := n;
                        pq_pattern := p; pq_aware := negb (is_nil pat) |}) in
          if g_nil g && is_nil pat then ret []       (* the body of the `if` is skipped *)
          else go_deref pat ret)))
      end))))
  end.

(* DecodeProxyPollRequest: named results; on err relayPrefix is still "" and err is returned *)
Definition decode_proxy_poll_legacy_g (g : guards) (L : libs) (v : json) : dres (bytes * bytes * bytes * Z) :=
  match decode_proxy_poll_g g L v with
  | DPanic w => DPanic w
  | DVal Err => DVal Err
  | DVal (Ok r) => if beq (pq_pattern r) [] then DVal (Ok (pq_sid r, pq_type r, pq_nat r, pq_clients r)) else DVal Err
  end.

(* ================= DecodePollResponseWithRelayURL: no partial operation ================= *)
Definition decode_poll_response_g (v : json) : dres (bytes * bytes * bytes) :=
  match unmarshal poll_resp_schema v with
  | None => DVal Err
  | Some st =>
      get_str st 0 (fun status =>
      if beq status [] then DVal Err else
      get_str st 1 (fun offer =>
      get_str st 2 (fun nat =>
      get_str st 3 (fun relay =>
      let nat' := if beq nat [] then NAT_UNKNOWN else nat in
      if beq status CLIENT_MATCH then (if beq offer [] then DVal Err else DVal (Ok (offer, nat', relay)))
      else if beq status NO_MATCH then DVal (Ok ([], nat', relay))
      else DVal Err))))      (* err = errors.New(message.Status) *)
  end.

Definition decode_poll_response_legacy_g (v : json) : dres (bytes * bytes) :=
  match decode_poll_response_g v with
  | DPanic w => DPanic w
  | DVal Err => DVal Err
  | DVal (Ok (offer, nat, relay)) => if beq relay [] then DVal (Ok (offer, nat)) else DVal Err
  end.

(* ================= DecodeAnswerRequest =================
     majorVersion := strings.Split(message.Version, ".")[0] *)
Definition decode_answer_request_g (L : libs) (v : json) : dres (bytes * bytes) :=
  match unmarshal answer_req_schema v with
  | None => DVal Err
  | Some st =>
      get_str st 0 (fun ver =>
      go_index (l_split L ver) 0 (fun major =>
      if negb (beq major (bs "1")) then DVal Err else
      get_str st 1 (fun sid =>
      get_str st 2 (fun answer =>
      if beq sid [] || beq answer [] then DVal Err else DVal (Ok (answer, sid))))))
  end.

(* ================= DecodeAnswerResponse: no partial operation ================= *)
Definition decode_answer_response_g (v : json) : dres bool :=
  match unmarshal answer_resp_schema v with
  | None => DVal Err
  | Some st =>
      get_str st 0 (fun status =>
      if beq status [] then DVal Err else DVal (Ok (beq status SUCCESS)))
  end.

(* ================= DecodeClientPollRequest =================
     parts := bytes.SplitN(data, []byte("\n"), 2)
     if len(parts) < 2 { return nil, fmt.Errorf("unsupported message version") }                        <- g_len
     if string(parts[0]) != ClientVersion { return nil, … }
     err := json.Unmarshal(parts[1], &message) … *)
Definition decode_client_poll_body_g (v : json) : dres (bytes * bytes * bytes) :=
  match unmarshal client_req_schema v with
  | None => DVal Err
  | Some st =>
      get_str st 0 (fun offer =>
      if beq offer [] then DVal Err else
      get_str st 2 (fun fp =>
      let fp' := if beq fp [] then DEFAULT_FINGERPRINT else fp in
      if negb (fingerprint_ok fp') then DVal Err else
      get_str st 1 (fun nat =>
      match norm_nat nat with
      | None => DVal Err
      | Some nat' => DVal (Ok (offer, nat', fp'))
      end)))
  end.

Definition opt_decode_g {A} (d : json -> dres A) (o : option json) : dres A :=
  match o with Some v => d v | None => DVal Err end.

Definition decode_client_poll_g (g : guards) (L : libs) (parse : bytes -> option json) (data : bytes)
  : dres (bytes * bytes * bytes) :=
  let parts := l_splitn L data in
  if g_len g && (List.length parts <? 2)%nat then DVal Err else
  go_index parts 0 (fun p0 =>
  if negb (beq p0 CLIENT_VERSION) then DVal Err else
  go_index parts 1 (fun p1 =>
  opt_decode_g decode_client_poll_body_g (parse p1))).

(* ================= DecodeClientPollResponse: no partial operation ================= *)
Definition decode_client_response_g (v : json) : dres (bytes * bytes) :=
  match unmarshal client_resp_schema v with
  | None => DVal Err
  | Some st =>
      get_str st 1 (fun error =>
      get_str st 0 (fun answer =>
      if beq error [] && beq answer [] then DVal Err else DVal (Ok (answer, error))))
  end.

(* ---- the functions as written, over the Go library *)
Definition decode_proxy_poll_code := decode_proxy_poll_g CODE GO.
Definition decode_proxy_poll_legacy_code := decode_proxy_poll_legacy_g CODE GO.
Definition decode_answer_request_code := decode_answer_request_g GO.
Definition decode_client_poll_code := decode_client_poll_g CODE GO.

(* ================= encoders =================
   EncodeProxyPollRequest*, EncodePollResponse*, EncodeAnswerRequest, EncodeAnswerResponse take strings,
   ints and bools and call json.Marshal on a struct literal: no partial operation.  The two client-side
   encoders are methods on a pointer:
     func (req *ClientPollRequest) EncodeClientPollRequest()   reads and writes req.Fingerprint: nil receiver panics
     func (resp *ClientPollResponse) EncodePollResponse()      json.Marshal(resp): a nil pointer marshals as null
   [None] = nil receiver. *)
Definition encode_client_poll_g (req : option (bytes * bytes * bytes)) : dres json :=
  go_deref req (fun r => let '(offer, nat, fp) := r in DVal (Ok (encode_client_poll offer nat fp))).

Definition encode_client_response_g (resp : option (bytes * bytes)) : dres json :=
  match resp with
  | None => DVal (Ok JNull)
  | Some (answer, error) => DVal (Ok (encode_client_response answer error))
  end.
