(* SessDesc.v — model of util.SerializeSessionDescription / util.DeserializeSessionDescription
   (common/util/util.go) over generic JSON values.  Executable definitions only.

   Library boundary: encoding/json text <-> value.  The model works on the *value* that
   json.Unmarshal builds (objects as ordered member lists so that duplicates are visible;
   Go stores members into a map one after the other, so the LAST duplicate wins). *)
From Coq Require Import List NArith Bool String.
From Snow Require Import Lib.Wire.
Import ListNotations.
Open Scope N_scope.

Inductive json : Type :=
| JNull
| JBool (b : bool)
| JNum (text : bytes)
| JStr (s : bytes)
| JArr (l : list json)
| JObj (m : list (bytes * json)).

(* webrtc.SDPType is an int; values 1..4 are named, everything else prints as "unknown". *)
Inductive sdptype := TOffer | TPranswer | TAnswer | TRollback | TOther.

Record desc := mkDesc { d_type : sdptype; d_sdp : bytes }.

Definition type_name (t : sdptype) : bytes :=
  match t with
  | TOffer => bs "offer"
  | TPranswer => bs "pranswer"
  | TAnswer => bs "answer"
  | TRollback => bs "rollback"
  | TOther => bs "unknown"
  end.

(* the `switch parsed["type"].(string)` of DeserializeSessionDescription *)
Definition type_of_name (n : bytes) : option sdptype :=
  if beq n (bs "offer") then Some TOffer
  else if beq n (bs "pranswer") then Some TPranswer
  else if beq n (bs "answer") then Some TAnswer
  else if beq n (bs "rollback") then Some TRollback
  else None.

Definition K_TYPE : bytes := bs "type".
Definition K_SDP : bytes := bs "sdp".

(* json.Marshal(webrtc.SessionDescription): struct tags `json:"type"`, `json:"sdp"`;
   SDPType.MarshalJSON marshals t.String(). *)
Definition serialize (d : desc) : json :=
  JObj [(K_TYPE, JStr (type_name (d_type d))); (K_SDP, JStr (d_sdp d))].

(* Go map built from the member list: exact (byte-wise) key, last duplicate wins. *)
Fixpoint lookup_acc (k : bytes) (m : list (bytes * json)) (acc : option json) : option json :=
  match m with
  | [] => acc
  | (k', v) :: m' => lookup_acc k m' (if beq k' k then Some v else acc)
  end.
Definition lookup (k : bytes) (m : list (bytes * json)) : option json := lookup_acc k m None.

Inductive derr := EJson | ENoType | ENoSdp | EUnknownType | ETypeNotString | ESdpNotString.

Inductive outcome :=
| Ok (d : desc)
| Err (e : derr)
| Panic.

(* what json.Unmarshal(msg, &map[string]interface{}) leaves behind:
   None        = error (invalid JSON text, or a top-level value that is neither object nor null)
   Some []     = top-level null (map stays nil) or {}
   Some m      = the members in source order *)
Definition unmarshal_map (j : option json) : option (list (bytes * json)) :=
  match j with
  | Some (JObj m) => Some m
  | Some JNull => Some []
  | _ => None
  end.

(* The pinned code (unchecked type assertions `parsed["type"].(string)`, `parsed["sdp"].(string)`). *)
Definition deserialize_v0 (j : option json) : outcome :=
  match unmarshal_map j with
  | None => Err EJson
  | Some m =>
      match lookup K_TYPE m with
      | None => Err ENoType
      | Some tv =>
          match lookup K_SDP m with
          | None => Err ENoSdp
          | Some sv =>
              match tv with
              | JStr name =>
                  match type_of_name name with
                  | None => Err EUnknownType
                  | Some t =>
                      match sv with
                      | JStr s => Ok (mkDesc t s)
                      | _ => Panic
                      end
                  end
              | _ => Panic
              end
          end
      end
  end.

(* The repaired code (comma-ok assertions returning an error). *)
Definition deserialize (j : option json) : outcome :=
  match unmarshal_map j with
  | None => Err EJson
  | Some m =>
      match lookup K_TYPE m with
      | None => Err ENoType
      | Some tv =>
          match lookup K_SDP m with
          | None => Err ENoSdp
          | Some sv =>
              match tv with
              | JStr name =>
                  match type_of_name name with
                  | None => Err EUnknownType
                  | Some t =>
                      match sv with
                      | JStr s => Ok (mkDesc t s)
                      | _ => Err ESdpNotString
                      end
                  end
              | _ => Err ETypeNotString
              end
          end
      end
  end.
