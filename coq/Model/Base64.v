(* Base64.v — encoding/base64 StdEncoding (RFC 4648 §4, '=' padding) over [list N].
   Executable definitions only.

   b64_encode    = StdEncoding.EncodeToString
   b64_decode    = StdEncoding.DecodeString on input without CR/LF (strict about the
                   position of padding: a padded quantum must be the last one)
   b64w_*        = base64.NewEncoder's streaming state: 0–2 pending input bytes. *)
From Coq Require Import List NArith Bool Arith.
From Snow Require Import Lib.Wire.
Import ListNotations.
Open Scope N_scope.

Definition PAD : N := 61. (* '=' *)

(* 6-bit value -> alphabet character *)
Definition enc6 (n : N) : N :=
  if n <? 26 then 65 + n
  else if n <? 52 then 97 + (n - 26)
  else if n <? 62 then 48 + (n - 52)
  else if n =? 62 then 43 else 47.

(* alphabet character -> 6-bit value *)
Definition dec6 (c : N) : option N :=
  if (65 <=? c) && (c <=? 90) then Some (c - 65)
  else if (97 <=? c) && (c <=? 122) then Some (c - 97 + 26)
  else if (48 <=? c) && (c <=? 57) then Some (c - 48 + 52)
  else if c =? 43 then Some 62
  else if c =? 47 then Some 63
  else None.

Definition is_b64_char (c : N) : bool := match dec6 c with Some _ => true | None => false end.

(* the four characters of a full 3-byte group; val = a<<16 | b<<8 | c, 6 bits at a time *)
Definition enc3 (a b c : N) : bytes :=
  [enc6 (a / 4); enc6 ((a mod 4) * 16 + b / 16); enc6 ((b mod 16) * 4 + c / 64); enc6 (c mod 64)].

(* final fragment of 1 or 2 bytes (Encode's "remain" switch) *)
Definition enc_tail (l : bytes) : bytes :=
  match l with
  | [a] => [enc6 (a / 4); enc6 ((a mod 4) * 16); PAD; PAD]
  | [a; b] => [enc6 (a / 4); enc6 ((a mod 4) * 16 + b / 16); enc6 ((b mod 16) * 4); PAD]
  | _ => []
  end.

Fixpoint b64_encode (l : bytes) : bytes :=
  match l with
  | a :: b :: c :: r => enc3 a b c ++ b64_encode r
  | _ => enc_tail l
  end.

(* complete 3-byte groups only; the remainder (0–2 bytes) is returned *)
Fixpoint enc_full (l : bytes) : bytes * bytes :=
  match l with
  | a :: b :: c :: r => let '(o, rem) := enc_full r in (enc3 a b c ++ o, rem)
  | _ => ([], l)
  end.

(* ---- decoding ---- *)

Definition dec4 (v0 v1 v2 v3 : N) : bytes :=
  [v0 * 4 + v1 / 16; (v1 mod 16) * 16 + v2 / 4; (v2 mod 4) * 64 + v3].

(* Result of sequential quantum-wise decoding of a character stream:
   data decoded from the complete, valid quanta; then how the stream ended. *)
Inductive b64end := B64Clean | B64Partial (* 1–3 characters left over *) | B64Corrupt.

Fixpoint b64_decode_seq (l : bytes) : bytes * b64end :=
  match l with
  | [] => ([], B64Clean)
  | c0 :: c1 :: c2 :: c3 :: r =>
      match dec6 c0, dec6 c1 with
      | Some v0, Some v1 =>
          match dec6 c2, dec6 c3 with
          | Some v2, Some v3 =>
              let '(d, e) := b64_decode_seq r in (dec4 v0 v1 v2 v3 ++ d, e)
          | Some v2, None =>
              if (c3 =? PAD) && match r with [] => true | _ => false end
              then ([v0 * 4 + v1 / 16; (v1 mod 16) * 16 + v2 / 4], B64Clean)
              else ([], B64Corrupt)
          | None, _ =>
              if (c2 =? PAD) && (c3 =? PAD) && match r with [] => true | _ => false end
              then ([v0 * 4 + v1 / 16], B64Clean)
              else ([], B64Corrupt)
          end
      | _, _ => ([], B64Corrupt)
      end
  | _ => ([], B64Partial)
  end.

Definition b64_decode (l : bytes) : option bytes :=
  match b64_decode_seq l with
  | (d, B64Clean) => Some d
  | _ => None
  end.

(* ---- Encoding.Decode on one chunk of complete quanta, as base64.NewDecoder's Read calls it ----
   (decoded bytes, corrupt?).  The bytes of every quantum before the corrupt one are returned; a
   correctly padded quantum is decoded and then followed by CorruptInputError ("trailing garbage")
   when it is not the last quantum OF THE CHUNK.  Whether it is depends on how the stream was cut
   into chunks, which is why a streaming decoder accepts some inputs that DecodeString rejects. *)
Fixpoint b64_chunk (l : bytes) : bytes * bool :=
  match l with
  | [] => ([], false)
  | c0 :: c1 :: c2 :: c3 :: r =>
      match dec6 c0, dec6 c1 with
      | Some v0, Some v1 =>
          match dec6 c2, dec6 c3 with
          | Some v2, Some v3 => let '(d, e) := b64_chunk r in (dec4 v0 v1 v2 v3 ++ d, e)
          | Some v2, None =>
              if c3 =? PAD
              then ([v0 * 4 + v1 / 16; (v1 mod 16) * 16 + v2 / 4], match r with [] => false | _ => true end)
              else ([], true)
          | None, _ =>
              if (c2 =? PAD) && (c3 =? PAD)
              then ([v0 * 4 + v1 / 16], match r with [] => false | _ => true end)
              else ([], true)
          end
      | _, _ => ([], true)
      end
  | _ => ([], true)
  end.

(* ---- base64.NewEncoder: Write / Close ----
   Write(p): "leading fringe" completes the pending bytes to a group of 3, "large interior
   chunks" encodes the complete groups of the rest, "trailing fringe" keeps the last 0–2
   bytes.  Emitted bytes = encoding of all complete groups of pending++p (the split into
   calls of the underlying writer is not an observable). *)
Definition b64w_write (pend p : bytes) : bytes * bytes := enc_full (pend ++ p).
Definition b64w_close (pend : bytes) : bytes := enc_tail pend.

Definition byte_ok (b : N) : bool := b <? 256.
Definition bytes_ok (l : bytes) : bool := forallb byte_ok l.
