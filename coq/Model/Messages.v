(* Messages.v — common/messages (proxy.go, client.go), common/bridgefingerprint, the NAT
   name constants of common/nat: the six broker messages, every validation and default as
   the Go code has them.  Executable definitions only.
   Encoders produce a JSON value (struct order, omitempty respected); decoders consume the
   JSON value Go's parser yields (None = the bytes are not one valid JSON text). *)
From Coq Require Import List NArith ZArith Bool Arith String.
From Snow Require Import Lib.Wire Model.JsonBoundary.
Import ListNotations.
Open Scope N_scope.

Inductive result (A : Type) := Ok (a : A) | Err.
Arguments Ok {A} a.
Arguments Err {A}.

(* ---- constants *)
Definition NAT_UNKNOWN := bs "unknown".
Definition NAT_RESTRICTED := bs "restricted".
Definition NAT_UNRESTRICTED := bs "unrestricted".
Definition PROXY_UNKNOWN := bs "unknown".
Definition VERSION := bs "1.3".             (* proxy.go: version *)
Definition CLIENT_VERSION := bs "1.0".      (* client.go: ClientVersion *)
Definition DEFAULT_FINGERPRINT := bs "2B280B23E1107BB62ABFC40DDCC8824814F80A72".
Definition CLIENT_MATCH := bs "client match".
Definition NO_MATCH := bs "no match".
Definition SUCCESS := bs "success".
Definition CLIENT_GONE := bs "client gone".

Definition known_type (t : bytes) : bool :=
  beq t (bs "standalone") || beq t (bs "webext") || beq t (bs "badge") || beq t (bs "iptproxy").

(* strings.Split(v, ".")[0] *)
Fixpoint before_dot (l : bytes) : bytes :=
  match l with
  | [] => []
  | c :: r => if c =? 46 then [] else c :: before_dot r
  end.
Definition major_ok (ver : bytes) : bool := beq (before_dot ver) (bs "1").

(* the `switch message.NAT` of both request decoders; None = "invalid NAT type" *)
Definition norm_nat (n : bytes) : option bytes :=
  if beq n [] then Some NAT_UNKNOWN
  else if beq n NAT_UNKNOWN || beq n NAT_RESTRICTED || beq n NAT_UNRESTRICTED then Some n
  else None.
Definition norm_type (t : bytes) : bytes := if known_type t then t else PROXY_UNKNOWN.

(* bridgefingerprint.FingerprintFromHexString: hex.DecodeString then length 20 or 32 *)
Definition fingerprint_ok (fp : bytes) : bool :=
  match hex_decode fp with
  | Some b => let n := List.length b in Nat.eqb n 20 || Nat.eqb n 32
  | None => false
  end.

Definition jstr_field (name s : bytes) : bytes * json := (name, JStr s).

(* ================= ProxyPollRequest ================= *)
Definition poll_req_schema : schema :=
  [(bs "Sid", TStr); (bs "Version", TStr); (bs "Type", TStr); (bs "NAT", TStr);
   (bs "Clients", TInt); (bs "AcceptedRelayPattern", TPtr)].

Record poll_req := { pq_sid : bytes; pq_type : bytes; pq_nat : bytes; pq_clients : Z;
                     pq_pattern : bytes; pq_aware : bool }.

(* EncodeProxyPollRequestWithRelayPrefix *)
Definition encode_proxy_poll (sid ty nat : bytes) (clients : Z) (pattern : bytes) : json :=
  JObj [jstr_field (bs "Sid") sid; jstr_field (bs "Version") VERSION; jstr_field (bs "Type") ty;
        jstr_field (bs "NAT") nat; (bs "Clients", JNum (print_int clients));
        jstr_field (bs "AcceptedRelayPattern") pattern].
(* EncodeProxyPollRequest *)
Definition encode_proxy_poll_legacy (sid ty nat : bytes) (clients : Z) : json :=
  encode_proxy_poll sid ty nat clients [].

(* DecodeProxyPollRequestWithRelayPrefix *)
Definition decode_proxy_poll (v : json) : result poll_req :=
  match unmarshal poll_req_schema v with
  | Some [VStr sid; VStr ver; VStr ty; VStr nat; VInt n; VPtr pat] =>
      if negb (major_ok ver) then Err
      else if beq sid [] then Err
      else match norm_nat nat with
           | None => Err
           | Some nat' =>
               Ok {| pq_sid := sid; pq_type := norm_type ty; pq_nat := nat'; pq_clients := n;
                     pq_pattern := match pat with Some p => p | None => [] end;
                     pq_aware := match pat with Some _ => true | None => false end |}
           end
  | _ => Err     (* json.Unmarshal failed (the shapes other than the schema's cannot occur) *)
  end.

(* DecodeProxyPollRequest: refuses a non-empty relay pattern *)
Definition decode_proxy_poll_legacy (v : json) : result (bytes * bytes * bytes * Z) :=
  match decode_proxy_poll v with
  | Ok r => if beq (pq_pattern r) [] then Ok (pq_sid r, pq_type r, pq_nat r, pq_clients r) else Err
  | Err => Err
  end.

(* ================= ProxyPollResponse ================= *)
Definition poll_resp_schema : schema :=
  [(bs "Status", TStr); (bs "Offer", TStr); (bs "NAT", TStr); (bs "RelayURL", TStr)].

(* EncodePollResponseWithRelayURL *)
Definition encode_poll_response (offer : bytes) (success : bool) (nat relay reason : bytes) : json :=
  if success then
    JObj [jstr_field (bs "Status") CLIENT_MATCH; jstr_field (bs "Offer") offer;
          jstr_field (bs "NAT") nat; jstr_field (bs "RelayURL") relay]
  else
    JObj [jstr_field (bs "Status") reason; jstr_field (bs "Offer") [];
          jstr_field (bs "NAT") []; jstr_field (bs "RelayURL") []].
(* EncodePollResponse *)
Definition encode_poll_response_legacy (offer : bytes) (success : bool) (nat : bytes) : json :=
  encode_poll_response offer success nat [] NO_MATCH.

(* DecodePollResponseWithRelayURL: (offer, nat, relayURL).  A status other than
   "client match"/"no match" is returned by the Go code as an error carrying the status
   text: an error all the same. *)
Definition decode_poll_response (v : json) : result (bytes * bytes * bytes) :=
  match unmarshal poll_resp_schema v with
  | Some [VStr status; VStr offer; VStr nat; VStr relay] =>
      let nat' := if beq nat [] then NAT_UNKNOWN else nat in
      if beq status [] then Err
      else if beq status CLIENT_MATCH then
        (if beq offer [] then Err else Ok (offer, nat', relay))
      else if beq status NO_MATCH then Ok ([], nat', relay)
      else Err
  | _ => Err
  end.

(* The same decoder with the error of a failure status made visible.  For a status other than "", "client match" and
   "no match" the Go code returns errors.New(message.Status) TOGETHER with the (defaulted) NAT type and the relay URL:
   the failure reason the broker wrote is a field of the message and reaches the caller as the text of that error
   (proxy/lib logs it).  PRReason carries that text; PRErr is every other error (invalid JSON, wrong member type,
   missing status, match without offer), for which the Go code returns empty strings. *)
Inductive presult := PROk (r : bytes * bytes * bytes) | PRReason (status nat relay : bytes) | PRErr.
Definition decode_poll_response_reason (v : json) : presult :=
  match unmarshal poll_resp_schema v with
  | Some [VStr status; VStr offer; VStr nat; VStr relay] =>
      let nat' := if beq nat [] then NAT_UNKNOWN else nat in
      if beq status [] then PRErr
      else if beq status CLIENT_MATCH then
        (if beq offer [] then PRErr else PROk (offer, nat', relay))
      else if beq status NO_MATCH then PROk ([], nat', relay)
      else PRReason status nat' relay
  | _ => PRErr
  end.

(* DecodePollResponse: refuses a relay URL *)
Definition decode_poll_response_legacy (v : json) : result (bytes * bytes) :=
  match decode_poll_response v with
  | Ok (offer, nat, relay) => if beq relay [] then Ok (offer, nat) else Err
  | Err => Err
  end.

(* ================= ProxyAnswerRequest ================= *)
Definition answer_req_schema : schema :=
  [(bs "Version", TStr); (bs "Sid", TStr); (bs "Answer", TStr)].

(* EncodeAnswerRequest(answer, sid) *)
Definition encode_answer_request (answer sid : bytes) : json :=
  JObj [jstr_field (bs "Version") VERSION; jstr_field (bs "Sid") sid; jstr_field (bs "Answer") answer].

(* DecodeAnswerRequest: (answer, sid) *)
Definition decode_answer_request (v : json) : result (bytes * bytes) :=
  match unmarshal answer_req_schema v with
  | Some [VStr ver; VStr sid; VStr answer] =>
      if negb (major_ok ver) then Err
      else if beq sid [] || beq answer [] then Err
      else Ok (answer, sid)
  | _ => Err
  end.

(* ================= ProxyAnswerResponse ================= *)
Definition answer_resp_schema : schema := [(bs "Status", TStr)].

Definition encode_answer_response (success : bool) : json :=
  JObj [jstr_field (bs "Status") (if success then SUCCESS else CLIENT_GONE)].

Definition decode_answer_response (v : json) : result bool :=
  match unmarshal answer_resp_schema v with
  | Some [VStr status] => if beq status [] then Err else Ok (beq status SUCCESS)
  | _ => Err
  end.

(* ================= ClientPollRequest ================= *)
Definition client_req_schema : schema :=
  [(bs "offer", TStr); (bs "nat", TStr); (bs "fingerprint", TStr)].

(* EncodeClientPollRequest: the JSON body (the version line is added by encode_client_poll_bytes) *)
Definition encode_client_poll (offer nat fp : bytes) : json :=
  JObj [jstr_field (bs "offer") offer; jstr_field (bs "nat") nat;
        jstr_field (bs "fingerprint") (if beq fp [] then DEFAULT_FINGERPRINT else fp)].

(* the part of DecodeClientPollRequest after json.Unmarshal: (offer, nat, fingerprint) *)
Definition decode_client_poll_body (v : json) : result (bytes * bytes * bytes) :=
  match unmarshal client_req_schema v with
  | Some [VStr offer; VStr nat; VStr fp] =>
      if beq offer [] then Err
      else let fp' := if beq fp [] then DEFAULT_FINGERPRINT else fp in
           if negb (fingerprint_ok fp') then Err
           else match norm_nat nat with
                | None => Err
                | Some nat' => Ok (offer, nat', fp')
                end
  | _ => Err
  end.

(* bytes.SplitN(data, "\n", 2): None when there is no newline *)
Fixpoint split_nl (l : bytes) : option (bytes * bytes) :=
  match l with
  | [] => None
  | c :: r => if c =? 10 then Some ([], r)
              else match split_nl r with
                   | Some (a, b) => Some (c :: a, b)
                   | None => None
                   end
  end.

Definition opt_decode {A} (d : json -> result A) (o : option json) : result A :=
  match o with Some v => d v | None => Err end.

(* DecodeClientPollRequest over the library parser *)
Definition decode_client_poll (parse : bytes -> option json) (data : bytes) : result (bytes * bytes * bytes) :=
  match split_nl data with
  | None => Err
  | Some (ver, body) => if beq ver CLIENT_VERSION then opt_decode decode_client_poll_body (parse body) else Err
  end.

Definition encode_client_poll_bytes (print : json -> bytes) (offer nat fp : bytes) : bytes :=
  CLIENT_VERSION ++ [10] ++ print (encode_client_poll offer nat fp).

(* ================= ClientPollResponse ================= *)
Definition client_resp_schema : schema := [(bs "answer", TStr); (bs "error", TStr)].

Definition omitempty (name s : bytes) : list (bytes * json) :=
  if beq s [] then [] else [jstr_field name s].

Definition encode_client_response (answer error : bytes) : json :=
  JObj (omitempty (bs "answer") answer ++ omitempty (bs "error") error).

Definition decode_client_response (v : json) : result (bytes * bytes) :=
  match unmarshal client_resp_schema v with
  | Some [VStr answer; VStr error] =>
      if beq error [] && beq answer [] then Err else Ok (answer, error)
  | _ => Err
  end.
