(* JsonBoundary.v — encoding/json as a library boundary (executable definitions only).

   A JSON *value* is what Go's scanner/unquoter hands to the typed decoder: object keys and
   strings are already unquoted byte strings (Go replaces invalid UTF-8 by U+FFFD while
   unquoting), numbers are their literal text, duplicate keys and key order are kept.
   The byte-level parser/printer are NOT modelled: they enter the theorems as Section
   variables (Proofs/MessagesProofs.v) and the harness takes the value of a byte string
   from Go's own tokenizer.

   Modelled here: Go's *typed* unmarshalling of a flat struct whose fields are
   string / int / *string (decode.go: object, literalStore, fold.go: foldName):
     - the top-level value must be an object; `null` leaves the struct at its zero value;
       any other kind is an UnmarshalTypeError;
     - each key, in order, selects a field: the field whose name equals the key, else the
       first field whose folded name equals the folded key; unknown keys are skipped;
     - `null` leaves a string/int field unchanged and sets a pointer field to nil;
     - a string goes into string and *string fields, an integer literal within int64 into
       an int field; everything else is an UnmarshalTypeError;
     - a type error makes Unmarshal return an error (the message decoders then return
       without looking at the struct, so the model stops at the first one);
     - later duplicates overwrite earlier ones. *)
From Coq Require Import List NArith ZArith Bool Arith.
From Snow Require Import Lib.Wire.
Import ListNotations.
Open Scope N_scope.

Inductive json :=
| JNull
| JBool (b : bool)
| JNum (t : bytes)                    (* literal text, e.g. "-12", "1e3", "0.5" *)
| JStr (s : bytes)                    (* unquoted *)
| JArr (l : list json)
| JObj (l : list (bytes * json)).     (* unquoted keys, source order, duplicates kept *)

(* ---- fold.go: foldName restricted to what can meet an ASCII field name.
   ASCII letters are upper-cased; U+017F (long s, C5 BF) folds to 'S' and U+212A (Kelvin
   sign, E2 84 AA) to 'K' — the only non-ASCII runes whose simple-fold orbit contains an
   ASCII rune.  Every other multi-byte rune folds to a non-ASCII rune, which can never be
   equal to a byte of a folded ASCII name; its bytes are left as they are. *)
Definition upper (c : N) : N := if (97 <=? c) && (c <=? 122) then c - 32 else c.

Fixpoint fold_name (k : bytes) : bytes :=
  match k with
  | [] => []
  | c :: r =>
      match r with
      | d :: r2 =>
          if (c =? 197) && (d =? 191) then 83 :: fold_name r2
          else match r2 with
               | e :: r3 => if (c =? 226) && (d =? 132) && (e =? 170) then 75 :: fold_name r3
                            else upper c :: fold_name r
               | [] => upper c :: fold_name r
               end
      | [] => [upper c]
      end
  end.

(* ---- strconv.ParseInt(s, 10, 64): optional sign, at least one digit, only digits, range *)
Definition parse_int64 (t : bytes) : option Z :=
  let '(neg, ds) := match t with
                    | c :: r => if c =? 45 then (true, r) else if c =? 43 then (false, r) else (false, t)
                    | [] => (false, t)
                    end in
  match dec_parse ds with
  | Some n => let z := if neg then Z.opp (Z.of_N n) else Z.of_N n in
              if (Z.leb (-9223372036854775808)%Z z) && (Z.ltb z 9223372036854775808%Z) then Some z else None
  | None => None
  end.

(* strconv.FormatInt(z, 10) as used by the encoder for an `int` field.  Fuel 20 covers
   every int64 (|z| <= 2^63 < 10^20); proved in MessagesProofs.parse_print_int. *)
Fixpoint digits_aux (fuel : nat) (n : N) (acc : bytes) : bytes :=
  match fuel with
  | O => acc
  | S f => let acc' := (48 + n mod 10) :: acc in
           if n / 10 =? 0 then acc' else digits_aux f (n / 10) acc'
  end.
Definition print_nat (n : N) : bytes := digits_aux 20 n [].
Definition print_int (z : Z) : bytes :=
  match z with
  | Z0 => print_nat 0
  | Zpos p => print_nat (Npos p)
  | Zneg p => 45 :: print_nat (Npos p)
  end.

(* ---- typed unmarshalling *)
Inductive ftype := TStr | TInt | TPtr.
Inductive fval := VStr (s : bytes) | VInt (z : Z) | VPtr (o : option bytes).
Definition schema := list (bytes * ftype).

Definition zero_of (t : ftype) : fval :=
  match t with TStr => VStr [] | TInt => VInt 0%Z | TPtr => VPtr None end.
Definition zeros (sc : schema) : list fval := map (fun f => zero_of (snd f)) sc.

(* literalStore / array / object on one field; None = UnmarshalTypeError *)
Definition assign (t : ftype) (old : fval) (v : json) : option fval :=
  match v with
  | JNull => match t with TPtr => Some (VPtr None) | _ => Some old end
  | JStr s => match t with TStr => Some (VStr s) | TPtr => Some (VPtr (Some s)) | TInt => None end
  | JNum txt => match t with
                | TInt => match parse_int64 txt with Some z => Some (VInt z) | None => None end
                | _ => None
                end
  | JBool _ | JArr _ | JObj _ => None
  end.

Fixpoint find_exact (key : bytes) (sc : schema) : option nat :=
  match sc with
  | [] => None
  | (nm, _) :: sc' => if beq key nm then Some O else option_map S (find_exact key sc')
  end.
Fixpoint find_folded (fkey : bytes) (sc : schema) : option nat :=
  match sc with
  | [] => None
  | (nm, _) :: sc' => if beq fkey (fold_name nm) then Some O else option_map S (find_folded fkey sc')
  end.
Definition find_field (key : bytes) (sc : schema) : option nat :=
  match find_exact key sc with
  | Some i => Some i
  | None => find_folded (fold_name key) sc
  end.

Fixpoint store (sc : schema) (st : list fval) (i : nat) (v : json) : option (list fval) :=
  match sc, st with
  | (_, t) :: sc', x :: st' =>
      match i with
      | O => match assign t x v with Some y => Some (y :: st') | None => None end
      | S j => match store sc' st' j v with Some r => Some (x :: r) | None => None end
      end
  | _, _ => Some st   (* index outside the struct: never produced by find_field (MessagesProofs.store_spec) *)
  end.

Definition step (sc : schema) (acc : option (list fval)) (kv : bytes * json) : option (list fval) :=
  match acc with
  | None => None
  | Some st => match find_field (fst kv) sc with
               | None => Some st
               | Some i => store sc st i (snd kv)
               end
  end.

Definition unmarshal (sc : schema) (v : json) : option (list fval) :=
  match v with
  | JNull => Some (zeros sc)
  | JObj es => fold_left (step sc) es (Some (zeros sc))
  | _ => None
  end.
