(* IpClass.v — model of util.IsLocal (common/util/util.go) and of the net.IP methods it and its
   callers use (To4, Equal, IsUnspecified, IsLoopback; Go 1.23 src/net/ip.go).  An address is the
   byte slice itself ([bytes], any length: net.IP is a []byte).  Executable definitions only.
   The net.IP methods are library code: they are modelled here and the model is validated by
   correspondence (`sdpstrip ipclass` cases). *)
From Coq Require Import List NArith Bool Arith.
From Snow Require Import Lib.Wire.
Import ListNotations.
Open Scope N_scope.

Definition byte_at (ip : bytes) (i : nat) : N := nth i ip 0.

Definition is_zeros (l : bytes) : bool := forallb (fun b => b =? 0) l.

Definition len_is (ip : bytes) (n : nat) : bool := Nat.eqb (List.length ip) n.

(* func (ip IP) To4() IP : nil is None *)
Definition to4 (ip : bytes) : option bytes :=
  if len_is ip 4 then Some ip
  else if len_is ip 16 && is_zeros (firstn 10 ip) && (byte_at ip 10 =? 255) && (byte_at ip 11 =? 255)
       then Some (skipn 12 ip)
       else None.

Definition v4InV6Prefix : bytes := [0; 0; 0; 0; 0; 0; 0; 0; 0; 0; 255; 255].
Definition IPv4zero : bytes := v4InV6Prefix ++ [0; 0; 0; 0].          (* net.IPv4(0,0,0,0): 16-byte form *)
Definition IPv6unspecified : bytes := [0; 0; 0; 0; 0; 0; 0; 0; 0; 0; 0; 0; 0; 0; 0; 0].
Definition IPv6loopback : bytes := [0; 0; 0; 0; 0; 0; 0; 0; 0; 0; 0; 0; 0; 0; 0; 1].

(* func (ip IP) Equal(x IP) bool *)
Definition ip_equal (ip x : bytes) : bool :=
  if Nat.eqb (List.length ip) (List.length x) then beq ip x
  else if len_is ip 4 && len_is x 16 then beq (firstn 12 x) v4InV6Prefix && beq ip (skipn 12 x)
  else if len_is ip 16 && len_is x 4 then beq (firstn 12 ip) v4InV6Prefix && beq (skipn 12 ip) x
  else false.

(* func (ip IP) IsUnspecified() bool *)
Definition is_unspecified (ip : bytes) : bool := ip_equal ip IPv4zero || ip_equal ip IPv6unspecified.

(* func (ip IP) IsLoopback() bool *)
Definition is_loopback (ip : bytes) : bool :=
  match to4 ip with
  | Some ip4 => byte_at ip4 0 =? 127
  | None => ip_equal ip IPv6loopback
  end.

(* func IsLocal(ip net.IP) bool *)
Definition is_local (ip : bytes) : bool :=
  match to4 ip with
  | Some ip4 =>
      (byte_at ip4 0 =? 10)
      || ((byte_at ip4 0 =? 172) && (N.land (byte_at ip4 1) 240 =? 16))
      || ((byte_at ip4 0 =? 192) && (byte_at ip4 1 =? 168))
      || ((byte_at ip4 0 =? 100) && (N.land (byte_at ip4 1) 192 =? 64))
      || ((byte_at ip4 0 =? 169) && (byte_at ip4 1 =? 254))
  | None => len_is ip 16 && (N.land (byte_at ip 0) 254 =? 252)
  end.

(* the test in StripLocalAddresses (and, negated, proxy/lib isRemoteAddress):
   IsLocal(ip) || ip.IsUnspecified() || ip.IsLoopback() *)
Definition bad_addr (ip : bytes) : bool := is_local ip || is_unspecified ip || is_loopback ip.
