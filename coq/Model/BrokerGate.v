(* BrokerGate.v — the relay-pattern gate of the broker in front of the matching machine (Model/Broker.v), and the
   BrokerContext seen from IPC.ProxyPolls as a state machine.  Executable definitions only
   (proofs: Proofs/BrokerGateProofs.v, Proofs/RelayHistoryProofs.v).

   /repo/broker/ipc.go ProxyPolls:

       sid, proxyType, natType, clients, relayPattern, relayPatternSupported, err :=
           messages.DecodeProxyPollRequestWithRelayPrefix(arg.Body)
       if err != nil { return messages.ErrBadRequest }                                  -- BadRequest, nothing touched
       if !relayPatternSupported { metrics.proxyPollWithoutRelayURLExtension++ }
       else                      { metrics.proxyPollWithRelayURLExtension++ }
       if !i.ctx.CheckProxyRelayPattern(relayPattern, !relayPatternSupported) {
           metrics.proxyPollRejectedWithRelayURLExtension++
           reply "incorrect relay pattern"; return nil                                  -- RejectedPattern
       }
       ... offer := i.ctx.RequestOffer(sid, proxyType, natType, clients)                -- Registered (L_Poll of Model/Broker.v)

   /repo/broker/broker.go: the two patterns are fields of the BrokerContext written only by
   InstallBridgeListProfile (start-up and SIGHUP); CheckProxyRelayPattern reads them and nothing else.

   The request body enters as the JSON value Go's parser yields (Model/JsonBoundary.v; None = not one valid JSON
   text); the decoder is the C12 model of DecodeProxyPollRequestWithRelayPrefix (Model/Messages.v decode_proxy_poll):
   "relay pattern aware" = the field AcceptedRelayPattern is present and not null, whatever Version says. *)
From Coq Require Import List NArith ZArith Bool Arith.
From Snow Require Import Lib.Wire Model.NameMatcher Model.RelayCheck Model.JsonBoundary Model.Messages Model.Broker.
Import ListNotations.
Open Scope N_scope.

(* ---------------------------------------------------------------- the gate in front of the matching machine *)

(* labels of the gated machine: a proxy poll carries its AcceptedRelayPattern field (None = legacy poll) *)
Inductive glabel :=
| G_ProxyPoll (s : sid) (n : natty) (pt cl : N) (pat : option bytes)
| G_Other (l : label).

Inductive poll_reply := Registered | RejectedPattern.

Definition gstep (cfg : broker_cfg) (v : version) (s : state) (g : glabel) : option (state * option poll_reply) :=
  match g with
  | G_ProxyPoll sd n pt cl pat =>
      if broker_accepts_poll cfg pat
      then option_map (fun s' => (s', Some Registered)) (Broker.step v s (L_Poll sd n pt cl))
      else Some (s, Some RejectedPattern)
  | G_Other (L_Poll _ _ _ _) => None           (* polls only enter through the gate *)
  | G_Other l => option_map (fun s' => (s', None)) (Broker.step v s l)
  end.

Fixpoint grun (cfg : broker_cfg) (v : version) (s : state) (gs : list glabel)
  : option (state * list (option poll_reply)) :=
  match gs with
  | [] => Some (s, [])
  | g :: r =>
      match gstep cfg v s g with
      | None => None
      | Some (s1, o) =>
          match grun cfg v s1 r with
          | None => None
          | Some (s2, os) => Some (s2, o :: os)
          end
      end
  end.

(* what the gate answers to a label, as a function of the label alone *)
Definition gate_reply (cfg : broker_cfg) (g : glabel) : option poll_reply :=
  match g with
  | G_ProxyPoll _ _ _ _ pat => Some (if broker_accepts_poll cfg pat then Registered else RejectedPattern)
  | G_Other _ => None
  end.

(* ---------------------------------------------------------------- the BrokerContext as ProxyPolls sees it *)

(* the three counters of broker/metrics.go that ProxyPolls writes before it registers a poll *)
Record bmetrics := mk_bmetrics {
  bm_with : N;          (* proxyPollWithRelayURLExtension *)
  bm_without : N;       (* proxyPollWithoutRelayURLExtension *)
  bm_rejected : N       (* proxyPollRejectedWithRelayURLExtension *)
}.

Record bctx := mk_bctx {
  b_cfg : broker_cfg;   (* ctx.allowedRelayPattern, ctx.presumedPatternForLegacyClient *)
  b_metrics : bmetrics;
  b_core : state        (* heaps, idToSnowflake, bridge list, goroutines in flight: Model/Broker.v *)
}.

Definition binit (cfg : broker_cfg) (br : list (fpr * Broker.url)) : bctx :=
  mk_bctx cfg (mk_bmetrics 0 0 0) (init br).

Inductive bevent :=
| B_Poll (body : option json)         (* IPC.ProxyPolls with this request body *)
| B_Install (cfg : broker_cfg)        (* ctx.InstallBridgeListProfile(same bridge lines, allowed, presumed) *)
| B_Core (l : label).                 (* any step of the matching machine other than the registration of a poll *)

Inductive breply := BadRequest | PollReply (r : poll_reply) | Installed | CoreStep.

(* opaque tags of Model/Broker.v for the strings of the request: injective on byte strings *)
Definition sid_tag (b : bytes) : N := fold_left (fun acc c => acc * 256 + c) b 1.

Definition natty_of (n : bytes) : natty :=
  if beq n NAT_UNRESTRICTED then NatUnrestricted
  else if beq n NAT_RESTRICTED then NatRestricted else NatUnknown.

(* the AcceptedRelayPattern field as the decoder reports it: (pattern, aware) *)
Definition poll_pattern (r : poll_req) : option bytes :=
  if pq_aware r then Some (pq_pattern r) else None.

Definition poll_label (r : poll_req) : glabel :=
  G_ProxyPoll (sid_tag (pq_sid r)) (natty_of (pq_nat r)) (sid_tag (pq_type r)) (Z.to_N (pq_clients r))
              (poll_pattern r).

Definition bump_seen (aware : bool) (m : bmetrics) : bmetrics :=
  if aware then mk_bmetrics (bm_with m + 1) (bm_without m) (bm_rejected m)
  else mk_bmetrics (bm_with m) (bm_without m + 1) (bm_rejected m).
Definition bump_rejected (m : bmetrics) : bmetrics :=
  mk_bmetrics (bm_with m) (bm_without m) (bm_rejected m + 1).

Definition bstep (v : version) (c : bctx) (ev : bevent) : option (bctx * breply) :=
  match ev with
  | B_Poll body =>
      match opt_decode decode_proxy_poll body with
      | Err => Some (c, BadRequest)
      | Ok r =>
          let m1 := bump_seen (pq_aware r) (b_metrics c) in
          match gstep (b_cfg c) v (b_core c) (poll_label r) with
          | Some (core', Some RejectedPattern) =>
              Some (mk_bctx (b_cfg c) (bump_rejected m1) core', PollReply RejectedPattern)
          | Some (core', Some Registered) => Some (mk_bctx (b_cfg c) m1 core', PollReply Registered)
          | _ => None
          end
      end
  | B_Install cfg' => Some (mk_bctx cfg' (b_metrics c) (b_core c), Installed)
  | B_Core l =>
      match gstep (b_cfg c) v (b_core c) (G_Other l) with
      | Some (core', _) => Some (mk_bctx (b_cfg c) (b_metrics c) core', CoreStep)
      | None => None
      end
  end.

Fixpoint brun (v : version) (c : bctx) (evs : list bevent) : option (bctx * list breply) :=
  match evs with
  | [] => Some (c, [])
  | ev :: r =>
      match bstep v c ev with
      | None => None
      | Some (c1, o) =>
          match brun v c1 r with
          | None => None
          | Some (c2, os) => Some (c2, o :: os)
          end
      end
  end.

(* the decision of ProxyPolls read off the code: a function of the two configured patterns and the request *)
Definition poll_verdict (cfg : broker_cfg) (body : option json) : breply :=
  match opt_decode decode_proxy_poll body with
  | Err => BadRequest
  | Ok r => PollReply (if check_proxy_relay_pattern cfg (pq_pattern r) (negb (pq_aware r))
                       then Registered else RejectedPattern)
  end.

Definition breply_of (cfg : broker_cfg) (ev : bevent) : breply :=
  match ev with
  | B_Poll body => poll_verdict cfg body
  | B_Install _ => Installed
  | B_Core _ => CoreStep
  end.

(* the patterns in force after a history *)
Fixpoint bcfg_after (cfg : broker_cfg) (evs : list bevent) : broker_cfg :=
  match evs with
  | [] => cfg
  | B_Install c :: r => bcfg_after c r
  | _ :: r => bcfg_after cfg r
  end.

(* the polls of a history that the gate lets through, by session id tag, in order *)
Fixpoint admitted_sids (cfg : broker_cfg) (evs : list bevent) : list sid :=
  match evs with
  | [] => []
  | B_Poll body :: r =>
      match opt_decode decode_proxy_poll body with
      | Ok q => if broker_accepts_poll cfg (poll_pattern q)
                then sid_tag (pq_sid q) :: admitted_sids cfg r else admitted_sids cfg r
      | Err => admitted_sids cfg r
      end
  | B_Install c :: r => admitted_sids c r
  | B_Core _ :: r => admitted_sids cfg r
  end.

(* projection onto the history-free reading of Model/RelayCheck.v (broker_run) *)
Definition abs_event (ev : bevent) : list broker_event :=
  match ev with
  | B_Poll body => match opt_decode decode_proxy_poll body with
                   | Ok q => [EvPoll (poll_pattern q)]
                   | Err => []
                   end
  | B_Install c => [EvInstall c]
  | B_Core _ => []
  end.
Definition abs_reply (r : breply) : list (option bool) :=
  match r with
  | PollReply Registered => [Some true]
  | PollReply RejectedPattern => [Some false]
  | Installed => [None]
  | BadRequest | CoreStep => []
  end.
