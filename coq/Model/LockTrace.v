(* LockTrace: traces of lock / access / fork events, mutex and read-write-mutex semantics,
   happens-before, and the static access-table discipline checked for C20.

   Definitions only (the proofs are in Proofs/LockTraceProofs.v).

   Dynamic side.  A trace is the global sequence of synchronisation and memory events of
   one execution, in the order in which they took effect.  Threads, lock instances and
   memory locations are numbers.  `Acq`/`Rel` are sync.Mutex Lock/Unlock and the WRITE side
   of a sync.RWMutex (Lock/Unlock); `RAcq`/`RRel` are the READ side of a sync.RWMutex
   (RLock/RUnlock): any number of threads may be inside read sections of the same lock at
   the same time, a write section excludes everything else.  `Rd`/`Wr` are plain loads and
   stores, `AtomicOp` any sync/atomic operation, `Fork t t'` a `go` statement executed by
   t that creates t'.

   Static side.  An `access` row is one syntactic access site of a tracked struct field
   (or package variable) of the Go code, with the set of mutexes (by static name
   "Type.field" / "pkg.var") certainly held there.  A name that ends in "#R" says that the
   lock is held AT LEAST in read mode (RLock, or Lock); a name without the suffix says that
   it is held in write mode.  The table itself is generated (Gen/AccessTable.v). *)
From Coq Require Import String List Arith Bool Ascii.
Import ListNotations.

Definition tid := nat.
Definition lock := nat.
Definition loc := nat.

Inductive event : Type :=
| Acq (t : tid) (l : lock)
| Rel (t : tid) (l : lock)
| RAcq (t : tid) (l : lock)
| RRel (t : tid) (l : lock)
| Rd (t : tid) (x : loc)
| Wr (t : tid) (x : loc)
| AtomicOp (t : tid) (x : loc)
| Fork (t t' : tid).

Definition trace := list event.

(* the thread that performs the event *)
Definition thr (e : event) : tid :=
  match e with
  | Acq t _ | Rel t _ | RAcq t _ | RRel t _ | Rd t _ | Wr t _ | AtomicOp t _ | Fork t _ => t
  end.

Definition main_thread : tid := 0.

(* memory accesses *)
Definition acc_loc (e : event) : option loc :=
  match e with
  | Rd _ x | Wr _ x | AtomicOp _ x => Some x
  | _ => None
  end.

Definition accesses (e : event) (x : loc) : Prop := acc_loc e = Some x.

Definition is_atomic (e : event) : bool :=
  match e with AtomicOp _ _ => true | _ => false end.

(* an atomic operation may be a store or a read-modify-write: counted as a write *)
Definition is_write (e : event) : bool :=
  match e with Wr _ _ | AtomicOp _ _ => true | _ => false end.

Definition is_read_only (e : event) : bool :=
  match e with Rd _ _ => true | _ => false end.

Definition is_fork (e : event) : bool :=
  match e with Fork _ _ => true | _ => false end.

(* two accesses conflict: same location, different threads, at least one writes, and
   they are not both atomic.  Two plain reads never conflict. *)
Definition conflict (e1 e2 : event) (x : loc) : Prop :=
  accesses e1 x /\ accesses e2 x /\ thr e1 <> thr e2 /\
  (is_write e1 = true \/ is_write e2 = true) /\
  (is_atomic e1 = false \/ is_atomic e2 = false).

(* ---- mutex / read-write mutex semantics --------------------------------------------- *)

(* one lock: the thread inside a write section (if any), and the threads inside read
   sections (a multiset: the list may repeat a thread) *)
Record lst : Type := mkLst { wr : option tid; rds : list tid }.

Definition lockst := lock -> lst.

Definition free : lst := mkLst None [].
Definition st0 : lockst := fun _ => free.

Definition upd (s : lockst) (l : lock) (v : lst) : lockst :=
  fun l' => if Nat.eqb l' l then v else s l'.

Fixpoint mem_tid (t : tid) (l : list tid) : bool :=
  match l with [] => false | a :: r => Nat.eqb a t || mem_tid t r end.

(* remove one occurrence *)
Fixpoint remove_one (t : tid) (l : list tid) : list tid :=
  match l with [] => [] | a :: r => if Nat.eqb a t then r else a :: remove_one t r end.

(* A write section needs the lock entirely free; only its holder ends it; Go mutexes are
   not re-entrant, so acquiring a held lock (even one's own) is not a step.  A read section
   may begin whenever no write section is open (several may be open at once); only a
   thread that is inside a read section ends one. *)
Definition step (s : lockst) (e : event) : option lockst :=
  match e with
  | Acq t l => match wr (s l), rds (s l) with
               | None, [] => Some (upd s l (mkLst (Some t) []))
               | _, _ => None
               end
  | Rel t l => match wr (s l) with
               | Some t' => if Nat.eqb t' t then Some (upd s l (mkLst None (rds (s l)))) else None
               | None => None
               end
  | RAcq t l => match wr (s l) with
                | None => Some (upd s l (mkLst None (t :: rds (s l))))
                | Some _ => None
                end
  | RRel t l => if mem_tid t (rds (s l))
                then Some (upd s l (mkLst (wr (s l)) (remove_one t (rds (s l)))))
                else None
  | _ => Some s
  end.

Fixpoint run (tr : trace) (s : lockst) : option lockst :=
  match tr with
  | [] => Some s
  | e :: r => match step s e with Some s' => run r s' | None => None end
  end.

(* Well-formed with respect to the locks: every lock operation of the trace is a step of
   the semantics above.  Overlapping read sections of one RWMutex ARE well formed. *)
Definition wf_locks (tr : trace) : Prop := exists s, run tr st0 = Some s.

(* thread t is inside a WRITE section of g (holds the mutex g) just before position i *)
Definition holds (tr : trace) (i : nat) (t : tid) (g : lock) : Prop :=
  exists s, run (firstn i tr) st0 = Some s /\ wr (s g) = Some t.

(* thread t is inside a READ section of g just before position i *)
Definition holds_r (tr : trace) (i : nat) (t : tid) (g : lock) : Prop :=
  exists s, run (firstn i tr) st0 = Some s /\ In t (rds (s g)).

(* at least read mode *)
Definition holds_any (tr : trace) (i : nat) (t : tid) (g : lock) : Prop :=
  holds tr i t g \/ holds_r tr i t g.

(* every thread but the main one is created by a Fork that precedes all its events *)
Definition wf_threads (tr : trace) : Prop :=
  forall j e, nth_error tr j = Some e -> thr e <> main_thread ->
    exists k t0, k < j /\ nth_error tr k = Some (Fork t0 (thr e)).

(* position i lies before the first Fork of the trace (initialisation phase: only the
   main thread exists) *)
Definition init_at (tr : trace) (i : nat) : Prop :=
  forall k e, k <= i -> nth_error tr k = Some e -> is_fork e = false.

(* ---- happens-before ---------------------------------------------------------------- *)

(* program order; end of a write section -> later begin of a write or read section of the
   same lock; end of a read section -> later begin of a write section of the same lock
   (NOT of another read section: readers do not synchronise with each other);
   fork -> events of the created thread; transitively closed.  Positions index the trace. *)
Inductive hb (tr : trace) : nat -> nat -> Prop :=
| hb_po : forall i j e1 e2, i < j -> nth_error tr i = Some e1 -> nth_error tr j = Some e2 ->
    thr e1 = thr e2 -> hb tr i j
| hb_sync : forall i j t t' l, i < j -> nth_error tr i = Some (Rel t l) ->
    nth_error tr j = Some (Acq t' l) -> hb tr i j
| hb_sync_wr : forall i j t t' l, i < j -> nth_error tr i = Some (Rel t l) ->
    nth_error tr j = Some (RAcq t' l) -> hb tr i j
| hb_sync_rw : forall i j t t' l, i < j -> nth_error tr i = Some (RRel t l) ->
    nth_error tr j = Some (Acq t' l) -> hb tr i j
| hb_fork : forall i j t t' e, i < j -> nth_error tr i = Some (Fork t t') ->
    nth_error tr j = Some e -> thr e = t' -> hb tr i j
| hb_trans : forall i j k, hb tr i j -> hb tr j k -> hb tr i k.

(* ---- the dynamic discipline (premise of lockset_drf) ------------------------------ *)

(* Location x is disciplined in tr when one of the following holds for ALL its accesses:
   (A) every access outside the initialisation phase is atomic;
   (B) there is one lock g such that, outside the initialisation phase, every access is
       made inside a WRITE section of g by the accessing thread, except that a plain read
       may also be made inside a READ section of g;
   (C) every access outside the initialisation phase is a plain read (the location is
       immutable once the first goroutine has been started). *)
Definition disciplined (tr : trace) (x : loc) : Prop :=
  (forall i e, nth_error tr i = Some e -> accesses e x -> init_at tr i \/ is_atomic e = true)
  \/ (exists g, forall i e, nth_error tr i = Some e -> accesses e x ->
        init_at tr i \/ holds tr i (thr e) g \/ (is_read_only e = true /\ holds_r tr i (thr e) g))
  \/ (forall i e, nth_error tr i = Some e -> accesses e x -> init_at tr i \/ is_read_only e = true).

(* race freedom on x: conflicting accesses are ordered by happens-before *)
Definition race_free_on (tr : trace) (x : loc) : Prop :=
  forall i j e1 e2, i < j -> nth_error tr i = Some e1 -> nth_error tr j = Some e2 ->
    conflict e1 e2 x -> hb tr i j.

(* ---- the static table -------------------------------------------------------------- *)

Inductive akind : Type := KRead | KWrite | KAtomic | KInit.

Record access : Type := mkAccess {
  site : string;          (* file:line:col *)
  fn : string;            (* enclosing function *)
  field : string;         (* tracked location class: "Type.field", "pkg.var", "Type.*" *)
  kind : akind;
  held : list string      (* static names of the mutexes certainly held at the site;
                             "name#R" = held at least in read mode *)
}.

Definition kind_is_init (k : akind) : bool := match k with KInit => true | _ => false end.
Definition kind_is_atomic (k : akind) : bool := match k with KAtomic => true | _ => false end.
Definition kind_is_read (k : akind) : bool := match k with KRead => true | _ => false end.

Definition mem_str (g : string) (l : list string) : bool := existsb (String.eqb g) l.

Fixpoint nodup_str (l : list string) : list string :=
  match l with
  | [] => []
  | a :: r => if mem_str a r then nodup_str r else a :: nodup_str r
  end.

(* "name#R" -> "name"; other names unchanged *)
Fixpoint strip_R (s : string) : string :=
  match s with
  | EmptyString => EmptyString
  | String c r => if String.eqb s "#R" then EmptyString else String c (strip_R r)
  end.

(* the name denotes a read-mode hold *)
Definition is_rname (g : string) : bool := negb (String.eqb (strip_R g) g).

Definition fields_of (tbl : list access) : list string := nodup_str (map field tbl).

(* rows of field f outside constructors *)
Definition live_rows (f : string) (tbl : list access) : list access :=
  filter (fun a => String.eqb (field a) f && negb (kind_is_init (kind a))) tbl.

(* locks held at every one of the rows (none when there is no row) *)
Definition common_locks (rows : list access) : list string :=
  match rows with
  | [] => []
  | r :: rs => filter (fun g => forallb (fun a => mem_str g (held a)) rs) (held r)
  end.

(* g guards the rows: it is held at every row, and every row that is not a plain read
   holds it in WRITE mode (for a read-mode name "b#R": the row also lists "b") *)
Definition guards (g : string) (rows : list access) : bool :=
  negb (is_rname (strip_R g)) &&
  forallb (fun a => kind_is_read (kind a) || mem_str (strip_R g) (held a)) rows.

Definition field_ok (f : string) (tbl : list access) : bool :=
  let rows := live_rows f tbl in
  forallb (fun a => kind_is_atomic (kind a)) rows
  || forallb (fun a => kind_is_read (kind a)) rows
  || existsb (fun g => guards g rows) (common_locks rows).

Definition discipline_ok (tbl : list access) : bool :=
  forallb (fun f => field_ok f tbl) (fields_of tbl).

(* the fields whose rows break the discipline, and the rows of such a field that do not
   hold the lock held at most of its rows (reporting only) *)
Definition failing_fields (tbl : list access) : list string :=
  filter (fun f => negb (field_ok f tbl)) (fields_of tbl).

(* ---- tying the table to traces ------------------------------------------------------ *)

(* how an event may be classified by a row of a given kind *)
Definition kind_matches (tr : trace) (i : nat) (e : event) (k : akind) : Prop :=
  match k with
  | KInit => init_at tr i
  | KAtomic => is_atomic e = true
  | KRead => is_read_only e = true
  | KWrite => True
  end.

(* what a held name of a row promises about the lock state *)
Definition name_held (tr : trace) (i : nat) (t : tid) (inst : string -> lock) (g : string) : Prop :=
  if is_rname g then holds_any tr i t (inst (strip_R g)) else holds tr i t (inst g).

(* A trace respects the table (for a given naming of locations by tracked field and a
   given association `inst x g` of the lock instance that static lock name g denotes for
   location x) when every access in it is an instance of some row of its field and the
   accessing thread holds, at that moment, at least the locks the row records, in at
   least the recorded mode. *)
Definition respects (field_of : loc -> string) (inst : loc -> string -> lock)
           (tbl : list access) (tr : trace) : Prop :=
  forall i e x, nth_error tr i = Some e -> accesses e x ->
    exists r, In r tbl /\ field r = field_of x /\ kind_matches tr i e (kind r) /\
              forall g, In g (held r) -> name_held tr i (thr e) (inst x) g.

(* ---- executable check of a whole trace (one pass) ----------------------------------- *)

Definition opt_tid_is (o : option tid) (t : tid) : bool :=
  match o with Some t' => Nat.eqb t' t | None => false end.

Definition name_heldb (s : lockst) (t : tid) (inst : string -> lock) (g : string) : bool :=
  if is_rname g
  then opt_tid_is (wr (s (inst (strip_R g)))) t || mem_tid t (rds (s (inst (strip_R g))))
  else opt_tid_is (wr (s (inst g))) t.

Definition kind_matchesb (init : bool) (e : event) (k : akind) : bool :=
  match k with
  | KInit => init
  | KAtomic => is_atomic e
  | KRead => is_read_only e
  | KWrite => true
  end.

Section Check.
  Variable field_of : loc -> string.
  Variable inst : loc -> string -> lock.
  Variable tbl : list access.

  Definition row_okb (s : lockst) (init : bool) (e : event) (x : loc) (r : access) : bool :=
    String.eqb (field r) (field_of x) && kind_matchesb init e (kind r) &&
    forallb (name_heldb s (thr e) (inst x)) (held r).

  (* s: lock state before the head of tr; init: no Fork so far; forked: threads created so far *)
  Fixpoint check (tr : trace) (s : lockst) (init : bool) (forked : list tid) : bool :=
    match tr with
    | [] => true
    | e :: r =>
        let init' := init && negb (is_fork e) in
        (Nat.eqb (thr e) main_thread || mem_tid (thr e) forked) &&
        match acc_loc e with Some x => existsb (row_okb s init' e x) tbl | None => true end &&
        match step s e with
        | Some s' => check r s' init' (match e with Fork _ t' => t' :: forked | _ => forked end)
        | None => false
        end
    end.

  Definition check_trace (tr : trace) : bool := check tr st0 true [].
End Check.
