(* BrokerBridgeList.v — the bridge-list FILE loader (broker/bridge-list.go LoadBridgeInfo) at JSON-value level.

   The file is a sequence of lines; every line is decoded ON ITS OWN (a json.Decoder per line, unknown members
   disallowed) into a FRESH BridgeInfo record {displayName, webSocketAddress, fingerprint : string}; the record is
   filed under its fingerprint (hex of 20 bytes), a later line naming the same fingerprint replaces the earlier one;
   one undecodable line (blank, not an object, unknown member, a member of another JSON type, fingerprint absent or
   not 20 bytes of hex) fails the whole load and the list installed before stays in force.

   A line is given by its JSON VALUE: None when the text of the line does not start with a JSON object, else the
   members of the first object on the line in textual order (encoding/json applies them in that order: a repeated key
   overwrites; whatever follows the object on the line is never read). Strings are integer tags; [EMPTY] is the tag
   of the empty string. Whether a fingerprint string is the hex of 20 bytes is decided by the glue and carried in the
   member key (KFp true / KFp false); fingerprints are tagged after case folding (hex is case-insensitive).

   encoding/json semantics used: a member whose value is JSON null leaves a string field as it is; an absent member
   leaves it as it is: in a fresh record both mean "empty". [decode_from] makes the starting record explicit so that
   the variant that decodes every line into ONE shared record ([load_shared]) can be stated and refuted. *)
From Coq Require Import List NArith Bool.
From Snow Require Import Model.Broker.
Import ListNotations.
Open Scope N_scope.

Definition EMPTY : N := 1.

Inductive jv := JStr (s : N) | JNull | JOther.
Inductive jkey := KName | KAddr | KFp (wellformed : bool) | KUnknown.
Definition jline := option (list (jkey * jv)).

Record brec := mkrec { r_name : N; r_addr : N; r_fp : N; r_fpok : bool }.
Definition fresh_rec : brec := mkrec EMPTY EMPTY EMPTY false.

Definition apply_member (r : brec) (m : jkey * jv) : option brec :=
  match m with
  | (KUnknown, _) => None                       (* DisallowUnknownFields *)
  | (_, JOther) => None                         (* a number, object ... for a string field *)
  | (_, JNull) => Some r                        (* null: field unchanged *)
  | (KName, JStr s) => Some (mkrec s (r_addr r) (r_fp r) (r_fpok r))
  | (KAddr, JStr s) => Some (mkrec (r_name r) s (r_fp r) (r_fpok r))
  | (KFp ok, JStr s) => Some (mkrec (r_name r) (r_addr r) s ok)
  end.

Fixpoint apply_members (r : brec) (ms : list (jkey * jv)) : option brec :=
  match ms with
  | [] => Some r
  | m :: ms' => match apply_member r m with Some r' => apply_members r' ms' | None => None end
  end.

(* json.Decoder.Decode(&record) followed by FingerprintFromHexString *)
Definition decode_from (base : brec) (l : jline) : option brec :=
  match l with
  | None => None
  | Some ms => match apply_members base ms with
               | Some r => if r_fpok r then Some r else None
               | None => None
               end
  end.

(* the map entry a line stands for: a function of the line alone *)
Definition entry_of_line (l : jline) : option (fpr * url) :=
  option_map (fun r => (r_fp r, r_addr r)) (decode_from fresh_rec l).

Definition upd (m : list (fpr * url)) (f : fpr) (u : url) : list (fpr * url) :=
  (f, u) :: filter (fun p => negb (fst p =? f)) m.

Fixpoint load_acc (ls : list jline) (m : list (fpr * url)) : option (list (fpr * url)) :=
  match ls with
  | [] => Some m
  | l :: r => match entry_of_line l with
              | Some (f, u) => load_acc r (upd m f u)
              | None => None
              end
  end.

(* LoadBridgeInfo: Some m = the map that replaces the installed one; None = error, nothing replaced *)
Definition load (ls : list jline) : option (list (fpr * url)) := load_acc ls [].

(* the variant with ONE record shared by all lines (a streaming decoder with its target declared outside the loop) *)
Fixpoint load_shared_acc (ls : list jline) (cur : brec) (m : list (fpr * url)) : option (list (fpr * url)) :=
  match ls with
  | [] => Some m
  | l :: r => match decode_from cur l with
              | Some rc => load_shared_acc r rc (upd m (r_fp rc) (r_addr rc))
              | None => None
              end
  end.
Definition load_shared (ls : list jline) := load_shared_acc ls fresh_rec [].

Definition names (f : fpr) (l : jline) : bool :=
  match entry_of_line l with Some (f', _) => f' =? f | None => false end.

(* ---------------------------------------------------------------- proofs *)

Lemma lookup_upd_same : forall m f u, lookup f (upd m f u) = Some u.
Proof. intros. unfold upd. simpl. rewrite N.eqb_refl. reflexivity. Qed.

Lemma lookup_filter_other : forall (m : list (fpr * url)) f g, g <> f ->
  lookup g (filter (fun p => negb (fst p =? f)) m) = lookup g m.
Proof.
  induction m as [|[k v] m IH]; intros f g Hne; simpl; auto.
  destruct (k =? f) eqn:Ekf; simpl.
  - apply N.eqb_eq in Ekf. subst k.
    destruct (g =? f) eqn:Egf; [apply N.eqb_eq in Egf; contradiction|]. apply IH; auto.
  - destruct (g =? k); auto.
Qed.

Lemma lookup_upd_other : forall m f u g, g <> f -> lookup g (upd m f u) = lookup g m.
Proof.
  intros. unfold upd. simpl. destruct (g =? f) eqn:E; [apply N.eqb_eq in E; contradiction|].
  apply lookup_filter_other; auto.
Qed.

Lemma load_acc_keeps : forall post m m' f,
  (forall l, In l post -> names f l = false) -> load_acc post m = Some m' -> lookup f m' = lookup f m.
Proof.
  induction post as [|l post IH]; intros m m' f Hno H; simpl in H.
  - inversion H; auto.
  - pose proof (Hno l (or_introl eq_refl)) as Hl. unfold names in Hl.
    destruct (entry_of_line l) as [[g u]|] eqn:E; [|discriminate].
    rewrite (IH _ _ f (fun l' Hl' => Hno l' (or_intror Hl')) H).
    apply lookup_upd_other. intro; subst. rewrite N.eqb_refl in Hl. discriminate.
Qed.

Lemma load_acc_app : forall pre m rest, load_acc (pre ++ rest) m =
  match load_acc pre m with Some m1 => load_acc rest m1 | None => None end.
Proof.
  induction pre as [|l pre IH]; intros; simpl; auto.
  destruct (entry_of_line l) as [[g u]|]; auto.
Qed.

(* the entry filed for a line is decided by that line alone: whatever precedes it, and whatever follows it
   under other fingerprints *)
Lemma records_independent : forall pre l post m f u,
  load (pre ++ l :: post) = Some m -> entry_of_line l = Some (f, u) ->
  (forall l', In l' post -> names f l' = false) ->
  lookup f m = Some u.
Proof.
  unfold load. intros pre l post m f u H El Hno. rewrite load_acc_app in H.
  destruct (load_acc pre []) as [m1|]; [|discriminate]. simpl in H. rewrite El in H.
  rewrite (load_acc_keeps _ _ _ f Hno H). apply lookup_upd_same.
Qed.

(* every entry of the loaded map is the entry of one of the lines *)
Lemma load_acc_sound : forall ls m m' f u, load_acc ls m = Some m' -> lookup f m' = Some u ->
  lookup f m = Some u \/ exists l, In l ls /\ entry_of_line l = Some (f, u).
Proof.
  induction ls as [|l ls IH]; intros m m' f u H Hl; simpl in H.
  - inversion H; subst; auto.
  - destruct (entry_of_line l) as [[g w]|] eqn:E; [|discriminate].
    destruct (IH _ _ _ _ H Hl) as [Hm|[l' [Hin He]]].
    + destruct (N.eq_dec f g) as [->|Hne].
      * rewrite lookup_upd_same in Hm. inversion Hm; subst. right. exists l. split; [left|]; auto.
      * rewrite lookup_upd_other in Hm by auto. auto.
    + right. exists l'. split; [right|]; auto.
Qed.

Lemma load_sound : forall ls m f u, load ls = Some m -> lookup f m = Some u ->
  exists l, In l ls /\ entry_of_line l = Some (f, u).
Proof.
  intros ls m f u H Hl. destruct (load_acc_sound _ _ _ _ _ H Hl) as [Hm|Hex]; auto. discriminate.
Qed.

Lemma load_fails_iff : forall ls, load ls = None <-> exists l, In l ls /\ entry_of_line l = None.
Proof.
  unfold load. intro ls. generalize (@nil (fpr * url)).
  induction ls as [|l ls IH]; intro m; simpl.
  - split; [discriminate|intros [l [[] _]]].
  - destruct (entry_of_line l) as [[g w]|] eqn:E.
    + rewrite IH. split; intros [l' [Hin He]].
      * exists l'; split; [right|]; auto.
      * destruct Hin as [<-|Hin]; [congruence|]. exists l'; auto.
    + split; auto. intros _. exists l; split; [left|]; auto.
Qed.

(* absent or null address in a line = the empty address, whatever else the line holds *)
Lemma apply_members_addr_kept : forall ms r r',
  (forall s, ~ In (KAddr, JStr s) ms) -> apply_members r ms = Some r' -> r_addr r' = r_addr r.
Proof.
  induction ms as [|[k v] ms IH]; intros r r' Hno H; cbn [apply_members] in H.
  - inversion H; auto.
  - destruct (apply_member r (k, v)) as [r1|] eqn:E; [|discriminate].
    rewrite (IH r1 r' (fun s Hin => Hno s (or_intror Hin)) H).
    destruct k as [| |b|], v as [s| |]; simpl in E; try discriminate;
      try (injection E as <-; simpl; reflexivity).
    exfalso. apply (Hno s). left; auto.
Qed.

Lemma missing_address_is_empty : forall ms f u,
  (forall s, ~ In (KAddr, JStr s) ms) -> entry_of_line (Some ms) = Some (f, u) -> u = EMPTY.
Proof.
  intros ms f u Hno H. unfold entry_of_line, decode_from in H.
  destruct (apply_members fresh_rec ms) as [r|] eqn:E; [|discriminate].
  destruct (r_fpok r); [|discriminate]. simpl in H. inversion H; subst.
  apply (apply_members_addr_kept _ _ _ Hno E).
Qed.
