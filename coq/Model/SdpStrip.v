(* SdpStrip.v — model of util.StripLocalAddresses (common/util/util.go) over the PARSED session
   description.  pion/sdp (Unmarshal/Marshal), pion/ice (UnmarshalCandidate) and net.ParseIP are
   the library boundary: the harness parses with them and hands over, per media section, the
   attribute list, each attribute classified as

     Cand t addr : key "candidate", ice.UnmarshalCandidate succeeded, t = c.Type(),
                   addr = net.ParseIP(c.Address()) (None when it is not an IP literal, e.g. an
                   mDNS name "….local")
     BadCand     : key "candidate" but ice.UnmarshalCandidate returned an error
     Other       : any other attribute

   together with an identity [a_id] standing for the attribute's (key, value) text.  Everything
   else in the description (session-level lines incl. session-level attributes, m=/c= lines, …)
   is not touched by the code and does not appear here.  Executable definitions only. *)
From Coq Require Import List NArith Bool.
From Snow Require Import Lib.Wire Model.IpClass.
Import ListNotations.
Open Scope N_scope.

Inductive ctype := Host | Srflx | Prflx | Relay.

Inductive attr_class :=
| Cand (t : ctype) (addr : option bytes)
| BadCand
| Other.

Record attr := mkAttr { a_id : N; a_class : attr_class }.

Definition media := list attr.
Definition description := list media.

Definition is_host (t : ctype) : bool := match t with Host => true | _ => false end.

(* the inner loop, statement by statement:
     attrs := make([]sdp.Attribute, 0)
     for _, a := range m.Attributes {
        if a.IsICECandidate() {
           c, err := ice.UnmarshalCandidate(a.Value)
           if err == nil && c.Type() == ice.CandidateTypeHost {
              ip := net.ParseIP(c.Address())
              if ip != nil && (IsLocal(ip) || ip.IsUnspecified() || ip.IsLoopback()) { continue }
           } }
        attrs = append(attrs, a) }                                                          *)
Fixpoint strip_loop (rest : list attr) (attrs : list attr) : list attr :=
  match rest with
  | [] => attrs
  | a :: rest' =>
      match a_class a with
      | Cand t addr =>
          if is_host t then
            match addr with
            | Some ip => if bad_addr ip then strip_loop rest' attrs            (* continue *)
                         else strip_loop rest' (attrs ++ [a])
            | None => strip_loop rest' (attrs ++ [a])
            end
          else strip_loop rest' (attrs ++ [a])
      | BadCand => strip_loop rest' (attrs ++ [a])
      | Other => strip_loop rest' (attrs ++ [a])
      end
  end.

Definition strip_media (m : media) : media := strip_loop m [].

(* for _, m := range desc.MediaDescriptions { … m.Attributes = attrs } *)
Definition strip (d : description) : description := map strip_media d.

(* the whole function on a text.  The input string is returned in two places:
     err := desc.Unmarshal([]byte(str)); if err != nil { return str }          parsed = None
     bts, err := desc.Marshal();         if err != nil { return str }          marshal_ok = false
   [marshal_ok] is the outcome of the library call on the stripped description (reported by the driver
   for every case; pion/sdp v3.0.5 never returns an error from Marshal). *)
Inductive strip_result := Unchanged | Stripped (d : description).
Definition strip_text (marshal_ok : bool) (parsed : option description) : strip_result :=
  match parsed with
  | None => Unchanged
  | Some d => if marshal_ok then Stripped (strip d) else Unchanged
  end.

(* specification vocabulary (booleans, used by the theorems and by the runner) *)
Definition bad_host (a : attr) : bool :=
  match a_class a with
  | Cand Host (Some ip) => bad_addr ip
  | _ => false
  end.

(* proxy/lib remoteIPFromSDP, first loop: the first candidate (of any type, in media order) whose
   address parses and is "remote" (= not bad_addr) *)
Fixpoint first_remote (l : list attr) : option bytes :=
  match l with
  | [] => None
  | a :: l' =>
      match a_class a with
      | Cand _ (Some ip) => if negb (bad_addr ip) then Some ip else first_remote l'
      | _ => first_remote l'
      end
  end.

(* second loop: the regular expressions over the raw text, tried in order; each yields the text
   it captured run through net.ParseIP (None = no match or not an IP literal) *)
Fixpoint first_remote_pattern (caps : list (option bytes)) : option bytes :=
  match caps with
  | [] => None
  | Some ip :: caps' => if negb (bad_addr ip) then Some ip else first_remote_pattern caps'
  | None :: caps' => first_remote_pattern caps'
  end.

(* parsed = None: desc.Unmarshal failed -> nil *)
Definition remote_ip (parsed : option description) (caps : list (option bytes)) : option bytes :=
  match parsed with
  | None => None
  | Some d =>
      match first_remote (concat d) with
      | Some ip => Some ip
      | None => first_remote_pattern caps
      end
  end.
