(* BrokerImpl.v — the matching machine of Model/Broker.v with the relational pool REPLACED by the two
   SnowflakeHeaps of the implementation (Model/BrokerHeap.v, pointer level): AddSnowflake pushes,
   matchSnowflake pops (when Len() > 0), the waiter's critical section reads the element's `index` field and
   removes. Proofs/BrokerImplProofs.v shows that every step of this machine is a step of Model/Broker.v
   (whose relational pop "any waiting entry of the eligible pool with the smallest client count" is thereby
   what the array heap delivers), and that it is enabled whenever the relational machine is.
   Executable definitions only. *)
From Coq Require Import List NArith ZArith Bool Arith.
From Snow Require Import Model.GoHeap Model.Broker Model.BrokerHeap.
Import ListNotations.
Open Scope N_scope.


Record istate := mki { i_s : state; i_hu : sheap; i_hr : sheap }.   (* ctx.snowflakes, ctx.restrictedSnowflakes *)

Definition iinit (br : list (fpr * url)) : istate := mki (init br) sheap_empty sheap_empty.

Definition heap_sel (unr : bool) (st : istate) : sheap := if unr then i_hu st else i_hr st.
Definition heap_set (unr : bool) (h : sheap) (st : istate) (s' : state) : istate :=
  if unr then mki s' h (i_hr st) else mki s' (i_hu st) h.

(* the `index` field of the Snowflake created for poll p, as the waiter goroutine (which holds the pointer)
   reads it: the element is either still in the slice or among those that left it *)
Definition find_x (p : nat) (h : sheap) : option sfx :=
  find (fun x => Nat.eqb (x_id x) p) (h_arr h ++ h_out h).

(* [istep] takes the labels of Model/Broker.v; the [choice] of an L_Client label is IGNORED and computed:
     matchSnowflake: heap := restrictedSnowflakes if natType == NATUnrestricted else snowflakes;
                     if heap.Len() > 0 { return heap.Pop(heap) } else { return nil }
   (reached only when GetBridgeInfo succeeded). *)
Definition istep (v : version) (st : istate) (l : label) : option istate :=
  let s := i_s st in
  match l with
  | L_Poll sd n pt cl =>
      let unr := is_unrestricted n in
      let h := heap_sel unr st in
      match step v s l with
      | Some s' => Some (heap_set unr (mkh (xpush (length (entries s), cl) (h_arr h)) (h_out h)) st s')
      | None => None
      end
  | L_Client n ofp o _ =>
      let fp := fp_of ofp in
      match lookup fp (bridges s) with
      | None => option_map (fun s' => mki s' (i_hu st) (i_hr st)) (step v s (L_Client n ofp o None))
      | Some _ =>
          let unr := negb (is_unrestricted n) in
          let h := heap_sel unr st in
          match h_arr h with
          | [] => option_map (fun s' => mki s' (i_hu st) (i_hr st)) (step v s (L_Client n ofp o None))
          | _ =>
              match xpop (h_arr h) with
              | (l', Some x) =>
                  match step v s (L_Client n ofp o (Some (x_id x))) with
                  | Some s' => Some (heap_set unr (mkh l' (h_out h ++ [x])) st s')
                  | None => None
                  end
              | (_, None) => None
              end
          end
      end
  | L_WTimeoutCS p =>
      match nth_error (entries s) p with
      | Some e =>
          match e_w e with
          | W_TimedOut =>
              let unr := is_unrestricted (e_nat e) in
              let h := heap_sel unr st in
              match find_x p h with
              | Some x =>
                  (* claimed := snowflake.index == -1 — decided by the element's field alone *)
                  if (x_idx x =? -1)%Z then
                    Some (mki (with_entries (upd p (set_w (match v with V0 => W_Stuck | V1 => W_Late end)) (entries s)) s)
                              (i_hu st) (i_hr st))
                  else
                    (* heap.Remove(heap, snowflake.index); gauge.Dec(); delete(idToSnowflake, id); close(offerChannel) *)
                    match xremove (h_arr h) (Z.to_nat (x_idx x)) with
                    | (l', Some y) =>
                        Some (heap_set unr (mkh l' (h_out h ++ [y])) st
                          {| entries := upd p (fun e => set_w (W_Done PNoMatch) (set_heap_live false false e)) (entries s);
                             idmap := remove_key (e_sid e) (idmap s);
                             gauge := (gauge s - 1)%Z; bridges := bridges s; br_hist := br_hist s; next_cid := next_cid s;
                             next_aid := next_aid s; done_clients := done_clients s;
                             done_answers := done_answers s; answer_log := answer_log s |})
                    | (_, None) => None
                    end
              | None => None
              end
          | _ => None
          end
      | None => None
      end
  | _ => option_map (fun s' => mki s' (i_hu st) (i_hr st)) (step v s l)
  end.

Fixpoint irun (v : version) (st : istate) (ls : list label) : option istate :=
  match ls with
  | [] => Some st
  | l :: ls' => match istep v st l with Some st' => irun v st' ls' | None => None end
  end.

Fixpoint irun_idx (v : version) (st : istate) (ls : list label) (i : nat) : istate + nat :=
  match ls with
  | [] => inl st
  | l :: ls' => match istep v st l with Some st' => irun_idx v st' ls' (S i) | None => inr i end
  end.
