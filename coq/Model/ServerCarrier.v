(* ServerCarrier.v — how the server attributes a client address to a session
   (server/lib/http.go turbotunnelMode, server/lib/snowflake.go acceptStreams,
   server/server.go handleConn).  Executable definitions only.

   A carrier (WebSocket connection) presents a ClientID and a client_ip query value; at
   its start the handler does  clientIDAddrMap.Set(clientID, clientAddr(client_ip)).
   When KCP establishes a session for a ClientID, acceptStreams does
   clientIDAddrMap.Get(clientID) and every stream of that session is handed out as a
   SnowflakeClientConn whose RemoteAddr() is that value (addr is a local variable of
   acceptStreams, read once before the AcceptStream loop).  Set and Get are atomic (mutex),
   so any interleaving of the goroutines involved is a list of events. *)
From Coq Require Import List NArith Bool Arith.
From Snow Require Import Lib.Wire Model.ClientIdRing Model.ClientAddr.
Import ListNotations.

(* a net.Addr as far as this code is concerned: nil, or ClientMapAddr s *)
Inductive addr := ANil | AStr (s : bytes).

Inductive event :=
| Carrier (cid : N) (p : param)      (* a carrier presenting cid starts *)
| Accept (cid : N)                   (* a session for cid is established (and its first stream accepted) *)
| Stream (k : nat).                  (* the k-th established session (0-based) opens a further stream *)

Definition sring := ring addr.

Definition carrier_step (r : sring) (cid : N) (p : param) : sring :=
  set addr ANil r cid (AStr (sanitise p)).

(* acceptStreams as pinned: `addr, ok := Get(..); if !ok { log }` and addr (nil when the
   ClientID has been forgotten) goes into the SnowflakeClientConn. *)
Definition accept_v0 (r : sring) (cid : N) : addr :=
  match get addr ANil r cid with Some a => a | None => ANil end.

(* repaired: a forgotten ClientID yields the empty ClientMapAddr ("no address") *)
Definition accept (r : sring) (cid : N) : addr :=
  match get addr ANil r cid with Some a => a | None => AStr [] end.

(* the address acceptStreams looks up for each Accept event (= session), in order *)
Fixpoint attributions (acc : sring -> N -> addr) (r : sring) (evs : list event) : list addr :=
  match evs with
  | [] => []
  | Carrier cid p :: evs' => attributions acc (carrier_step r cid p) evs'
  | Accept cid :: evs' => acc r cid :: attributions acc r evs'
  | Stream _ :: evs' => attributions acc r evs'
  end.

(* every connection the listener hands out, in order: (index of its session, RemoteAddr()).
   sess = the local variable addr of the acceptStreams goroutine of each established session.
   A Stream event naming a session that does not exist yields no connection. *)
Fixpoint conns (acc : sring -> N -> addr) (r : sring) (sess : list addr) (evs : list event) : list (nat * addr) :=
  match evs with
  | [] => []
  | Carrier cid p :: evs' => conns acc (carrier_step r cid p) sess evs'
  | Accept cid :: evs' => let a := acc r cid in (List.length sess, a) :: conns acc r (sess ++ [a]) evs'
  | Stream k :: evs' =>
      match nth_error sess k with
      | Some a => (k, a) :: conns acc r sess evs'
      | None => conns acc r sess evs'
      end
  end.

(* NOT the code: the variant that looks the ClientID up again for every accepted stream
   (sess remembers the ClientID instead of the address).  Only used to show that the theorem
   "all connections of a session carry the address of its establishment" tells the two apart. *)
Fixpoint conns_perstream (acc : sring -> N -> addr) (r : sring) (sess : list N) (evs : list event) : list (nat * addr) :=
  match evs with
  | [] => []
  | Carrier cid p :: evs' => conns_perstream acc (carrier_step r cid p) sess evs'
  | Accept cid :: evs' => (List.length sess, acc r cid) :: conns_perstream acc r (sess ++ [cid]) evs'
  | Stream k :: evs' =>
      match nth_error sess k with
      | Some cid => (k, acc r cid) :: conns_perstream acc r sess evs'
      | None => conns_perstream acc r sess evs'
      end
  end.

Definition run_v0 (cap : nat) (evs : list event) : list addr :=
  attributions accept_v0 (new addr ANil cap) evs.
Definition run (cap : nat) (evs : list event) : list addr :=
  attributions accept (new addr ANil cap) evs.
Definition run_conns_v0 (cap : nat) (evs : list event) : list (nat * addr) :=
  conns accept_v0 (new addr ANil cap) [] evs.
Definition run_conns (cap : nat) (evs : list event) : list (nat * addr) :=
  conns accept (new addr ANil cap) [] evs.

(* server.go handleConn: addr := conn.RemoteAddr().String() — a method call on a nil
   interface value panics in a goroutine without recover: the process dies. *)
Definition useraddr (a : addr) : option bytes :=
  match a with ANil => None | AStr s => Some s end.

(* the carriers seen so far, most recent first: (ClientID, client_ip parameter) *)
Fixpoint carriers_rev_aux (acc : list (N * param)) (evs : list event) : list (N * param) :=
  match evs with
  | [] => acc
  | Carrier cid p :: evs' => carriers_rev_aux ((cid, p) :: acc) evs'
  | Accept _ :: evs' => carriers_rev_aux acc evs'
  | Stream _ :: evs' => carriers_rev_aux acc evs'
  end.

Definition carriers_rev := carriers_rev_aux [].

Definition ev_step (r : sring) (e : event) : sring :=
  match e with Carrier cid p => carrier_step r cid p | Accept _ => r | Stream _ => r end.

(* the map after the events pre, starting from an empty map of capacity cap *)
Definition state_after (cap : nat) (pre : list event) : sring := fold_left ev_step pre (new addr ANil cap).

(* specification of one attribution: the most recent carrier with this ClientID among the
   last cap carriers decides; if there is none the bridge is told "no address" *)
Definition spec_attr (cap : nat) (cs : list (N * param)) (cid : N) : addr :=
  match assoc param cid (firstn cap cs) with
  | Some p => AStr (sanitise p)
  | None => AStr []
  end.

Fixpoint spec_attributions (cap : nat) (cs : list (N * param)) (evs : list event) : list addr :=
  match evs with
  | [] => []
  | Carrier cid p :: evs' => spec_attributions cap ((cid, p) :: cs) evs'
  | Accept cid :: evs' => spec_attr cap cs cid :: spec_attributions cap cs evs'
  | Stream _ :: evs' => spec_attributions cap cs evs'
  end.

(* ---------------------------------------------------------------- histories with carrier END events
   turbotunnelMode returns after wg.Wait() (both loops of the carrier have finished) and does NOT touch
   clientIDAddrMap: the end of a carrier -- any carrier, before or after a session of its ClientID is
   established, with or without other carriers of that ClientID open -- leaves the map alone. *)
Inductive hevent :=
| HEv (e : event)
| HEnd (k : nat).                    (* the k-th carrier of the history (0-based, in order of start) ends *)

Definition hev_step (r : sring) (h : hevent) : sring :=
  match h with HEv e => ev_step r e | HEnd _ => r end.

Definition hstate_after (cap : nat) (pre : list hevent) : sring := fold_left hev_step pre (new addr ANil cap).

Fixpoint conns_h (acc : sring -> N -> addr) (r : sring) (sess : list addr) (hevs : list hevent) : list (nat * addr) :=
  match hevs with
  | [] => []
  | HEnd _ :: t => conns_h acc r sess t
  | HEv (Carrier cid p) :: t => conns_h acc (carrier_step r cid p) sess t
  | HEv (Accept cid) :: t => let a := acc r cid in (List.length sess, a) :: conns_h acc r (sess ++ [a]) t
  | HEv (Stream k) :: t =>
      match nth_error sess k with
      | Some a => (k, a) :: conns_h acc r sess t
      | None => conns_h acc r sess t
      end
  end.

Definition run_conns_h (cap : nat) (hevs : list hevent) : list (nat * addr) :=
  conns_h accept (new addr ANil cap) [] hevs.

(* the history without its end events *)
Fixpoint strip_ends (hevs : list hevent) : list event :=
  match hevs with
  | [] => []
  | HEv e :: t => e :: strip_ends t
  | HEnd _ :: t => strip_ends t
  end.

(* NOT the code: a carrier that ends clears the entry of its ClientID ("do not keep the address longer than
   needed") when the entry still holds the address this carrier presented -- a comparison of ADDRESSES, which
   cannot tell this carrier's entry from that of a more recent carrier of the same client.  [cs] = the carriers
   started so far, in order.  Only used to show that the end-event theorem tells the two apart. *)
Definition end_clear_step (r : sring) (cs : list (N * param)) (k : nat) : sring :=
  match nth_error cs k with
  | Some (cid, p) =>
      match get addr ANil r cid with
      | Some (AStr s) => if beq s (sanitise p) && negb (beq s []) then set addr ANil r cid (AStr []) else r
      | _ => r
      end
  | None => r
  end.

Fixpoint conns_h_clear (r : sring) (cs : list (N * param)) (sess : list addr) (hevs : list hevent) : list (nat * addr) :=
  match hevs with
  | [] => []
  | HEnd k :: t => conns_h_clear (end_clear_step r cs k) cs sess t
  | HEv (Carrier cid p) :: t => conns_h_clear (carrier_step r cid p) (cs ++ [(cid, p)]) sess t
  | HEv (Accept cid) :: t => let a := accept r cid in (List.length sess, a) :: conns_h_clear r cs (sess ++ [a]) t
  | HEv (Stream k) :: t =>
      match nth_error sess k with
      | Some a => (k, a) :: conns_h_clear r cs sess t
      | None => conns_h_clear r cs sess t
      end
  end.
