(* BrokerHeap.v — broker/snowflake-heap.go: SnowflakeHeap, a container/heap (Model/GoHeap.v) over a slice
   of *Snowflake ordered by the self-reported client count, whose Swap/Push/Pop methods maintain the
   `index` field of every element (the proxy-timeout path of broker.go reads it: -1 = already popped).

   Three layers, all executable:
   1. [hstep] on [list sf]       — the slice as a plain list of (poll id, client count); the form the
                                   heap-order proofs (Proofs/GoHeapProofs.v) talk about;
   2. [xstep] on [sheap]         — the slice of POINTERS: every element carries its `index` field, written
                                   exactly where the Go methods write it; popped elements are kept (they are
                                   still referenced by the waiter goroutine) with whatever index they hold;
                                   this is what `broker heap` runs against the real SnowflakeHeap;
   (3. Model/BrokerImpl.v puts two such heaps under the matching machine of Model/Broker.v.)
   Proofs/BrokerHeapProofs.v shows that 2 simulates 1 and keeps every `index` equal to the position.
   Executable definitions only. *)
From Coq Require Import List NArith ZArith Bool Arith.
From Snow Require Import Model.GoHeap.
Import ListNotations.
Open Scope N_scope.

(* ---------------------------------------------------------------- 1. the slice as a list *)

(* a heap element: (poll id, client count); Less compares client counts only *)
Definition sf := (nat * N)%type.
Definition sf_less (a b : sf) : bool := snd a <? snd b.

(* HFix i c: sh[i].clients = c; heap.Fix(sh, i)   (not used by the broker itself; part of the heap's contract) *)
Inductive hop := HPush (x : sf) | HPop | HRemove (i : nat) | HFix (i : nat) (c : N).

Definition hstep (l : list sf) (o : hop) : list sf :=
  match o with
  | HPush x => lpush sf_less x l
  | HPop => match l with [] => l | _ => fst (lpop sf_less l) end
  | HRemove i => if (i <? length l)%nat then fst (lremove sf_less l i) else l
  | HFix i c =>
      match nth_error l i with
      | Some x => lfix sf_less (set_nth i (fst x, c) l) i
      | None => l
      end
  end.

(* ---------------------------------------------------------------- 2. the slice of pointers *)

Record sfx := mkx { x_el : sf; x_idx : Z }.
Definition x_id (x : sfx) : nat := fst (x_el x).
Definition with_idx (x : sfx) (i : Z) : sfx := mkx (x_el x) i.

Definition sx_less (l : list sfx) (i j : nat) : bool :=
  lless (fun a b => sf_less (x_el a) (x_el b)) l i j.

(* func (sh SnowflakeHeap) Swap(i, j int) { sh[i], sh[j] = sh[j], sh[i]; sh[i].index = i; sh[j].index = j }
   (an index out of range would be a Go panic; container/heap never produces one on a guarded call) *)
Definition sx_swap (l : list sfx) (i j : nat) : list sfx :=
  match nth_error l i, nth_error l j with
  | Some a, Some b => set_nth j (with_idx a (Z.of_nat j)) (set_nth i (with_idx b (Z.of_nat i)) l)
  | _, _ => l
  end.

(* func (sh * SnowflakeHeap) Push(s) { n := len(sh); snowflake.index = n; sh = append(sh, snowflake) } *)
Definition sx_push_method (x : sf) (l : list sfx) : list sfx :=
  l ++ [mkx x (Z.of_nat (length l))].

(* func (sh * SnowflakeHeap) Pop() { n := len; snowflake := flakes[n-1]; snowflake.index = -1; sh = flakes[0:n-1] } *)
Definition sx_pop_method (l : list sfx) : list sfx * option sfx :=
  (removelast l, option_map (fun x => with_idx x (-1)%Z) (nth_error l (length l - 1))).

Definition xpush (x : sf) (l : list sfx) : list sfx :=
  heap_push (list sfx) (@length sfx) sx_less sx_swap (sx_push_method x) l.
Definition xpop (l : list sfx) : list sfx * option sfx :=
  heap_pop (list sfx) (@length sfx) sx_less sx_swap sx_pop_method l.
Definition xremove (l : list sfx) (i : nat) : list sfx * option sfx :=
  heap_remove (list sfx) (@length sfx) sx_less sx_swap sx_pop_method l i.
Definition xfix (l : list sfx) (i : nat) : list sfx :=
  heap_fix (list sfx) (@length sfx) sx_less sx_swap l i.

(* the heap and the elements that left it, oldest first *)
Record sheap := mkh { h_arr : list sfx; h_out : list sfx }.
Definition sheap_empty : sheap := mkh [] [].

Definition out_add (o : list sfx) (r : option sfx) : list sfx :=
  match r with Some x => o ++ [x] | None => o end.

(* one scripted operation, guarded as the broker guards it (Pop: Len() > 0; Remove/Fix: a valid index);
   second component: the element handed back by heap.Pop / heap.Remove *)
Definition xstep (h : sheap) (o : hop) : sheap * option sfx :=
  match o with
  | HPush x => (mkh (xpush x (h_arr h)) (h_out h), None)
  | HPop =>
      match h_arr h with
      | [] => (h, None)
      | _ => let '(l', r) := xpop (h_arr h) in (mkh l' (out_add (h_out h) r), r)
      end
  | HRemove i =>
      if (i <? length (h_arr h))%nat
      then let '(l', r) := xremove (h_arr h) i in (mkh l' (out_add (h_out h) r), r)
      else (h, None)
  | HFix i c =>
      match nth_error (h_arr h) i with
      | Some x => (mkh (xfix (set_nth i (mkx (fst (x_el x), c) (x_idx x)) (h_arr h)) i) (h_out h), None)
      | None => (h, None)
      end
  end.

Definition xrun (ops : list hop) (h : sheap) : sheap := fold_left (fun h o => fst (xstep h o)) ops h.

(* ---- Go's int loads. The proxy's self-reported client count is a Go int (64 bit, signed; the wire accepts every
   value of that range, negative ones included), the model's loads are N. The model only ever COMPARES loads, so an
   order embedding transfers every statement: int64 value z stands for emb z = z + 2^63 (Proofs/BrokerHeapProofs.v
   emb_order: strictly monotonic, unemb its inverse). The `heapz` runner op and the scenario glue apply it. *)
Definition OFFS : Z := 9223372036854775808.
Definition emb (z : Z) : N := Z.to_N (z + OFFS).
Definition unemb (n : N) : Z := (Z.of_N n - OFFS)%Z.
Definition int64_range (z : Z) : bool := ((- OFFS <=? z) && (z <? OFFS))%Z.
