(* Rendezvous.v — executable model of the request shape and response handling of
   client/lib/rendezvous_http.go and rendezvous_ampcache.go, and of the broker's
   clientOffers / ampClientOffers handlers (broker/http.go, broker/amp.go) over an abstract
   IPC.ClientOffers.

   Library boundary: url.Parse (URLs enter as accessor records), ResolveReference's path
   resolution (url.resolvePath: dot segments removed, empty segments kept) is modelled, the HTTP
   transport (a request is the record the RoundTripper receives), AMP armor (Section
   variable; C10's area), idna/sha256 as in CacheURL.v.
   Executable definitions only. *)
From Coq Require Import List NArith Bool Arith String.
From Snow Require Import Lib.Wire Model.B64Url Model.AmpPath Model.CacheURL.
Import ListNotations.
Open Scope N_scope.
Notation length := List.length.

Definition READ_LIMIT : N := 100000.

Record broker_url := {
  b_scheme : bytes; b_user : bool; b_host : bytes (* URL.Host: host[:port] *);
  b_hostname : bytes; b_port : bytes; b_epath : bytes }.

(* what the http.RoundTripper is handed *)
Record request := {
  q_method : bytes;
  q_scheme : bytes;
  q_connect_host : bytes;   (* req.URL.Host: where the transport connects, the TLS server name *)
  q_host_header : bytes;    (* req.Host: the HTTP Host header *)
  q_path : bytes;           (* req.URL.EscapedPath() *)
  q_rawquery : bytes;
  q_body : option bytes }.

(* base[:LastIndex(base, "/")+1] *)
Fixpoint upto_last (sep : N) (l : bytes) : bytes :=
  match l with
  | [] => []
  | c :: r => match upto_last sep r with
              | [] => if c =? sep then [c] else []
              | t => c :: t
              end
  end.
Definition lead_slash (p : bytes) : bytes :=
  match p with
  | c :: _ => if c =? SLASHC then p else SLASHC :: p
  | [] => p
  end.
(* brokerURL.ResolveReference(&url.URL{Path: ref}) for a relative ref, paths without dot segments *)
Definition resolve_rel (base ref : bytes) : bytes := lead_slash (upto_last SLASHC base ++ ref).

(* domain fronting: req.Host = req.URL.Host; req.URL.Host = front *)
Definition with_front (front : bytes) (q : request) : request :=
  if beq front [] then q
  else {| q_method := q_method q; q_scheme := q_scheme q; q_connect_host := front;
          q_host_header := q_connect_host q; q_path := q_path q; q_rawquery := q_rawquery q;
          q_body := q_body q |}.

(* url.resolvePath(base, ref) of Go 1.23, as ResolveReference calls it (both arguments escaped paths).
   The loop keeps a string dst = "/" ++ elements joined by "/" and a flag first; here the elements written so far are a
   reversed stack (first = the stack is empty). "." on an empty stack clears the flag, so that the next element is
   written after a second "/": the same string as an empty first element, which is what is pushed. ".." drops the last
   element, or everything when at most one element (no "/" in dst[1:]) is left. *)
Fixpoint rp_stack (elems : list bytes) (st : list bytes) : list bytes :=
  match elems with
  | [] => st
  | e :: r =>
      if is_dot e then rp_stack r (match st with [] => [[]] | _ => st end)
      else if is_dotdot e then rp_stack r (match st with [] => [] | [_] => [] | _ :: st' => st' end)
      else rp_stack r (e :: st)
  end.
Definition last_is_dots (elems : list bytes) : bool :=
  match rev elems with e :: _ => is_dot e || is_dotdot e | [] => false end.
Definition resolve_path (base ref : bytes) : bytes :=
  let full := match ref with
              | [] => base
              | c :: _ => if c =? SLASHC then ref else upto_last SLASHC base ++ ref
              end in
  match full with
  | [] => []
  | _ :: _ =>
      let elems := split_on SLASHC full in
      let r := SLASHC :: join [SLASHC] (rev (rp_stack elems [])) ++ (if last_is_dots elems then [SLASHC] else []) in
      match r with
      | _ :: c :: _ => if c =? SLASHC then tl r else r      (* "we wrote an initial '/', but we don't want two" *)
      | _ => r
      end
  end.

Definition http_request (b : broker_url) (front body : bytes) : request :=
  with_front front
    {| q_method := bs "POST"; q_scheme := b_scheme b; q_connect_host := b_host b;
       q_host_header := b_host b; q_path := resolve_path (b_epath b) (bs "client");
       q_rawquery := []; q_body := Some body |}.

(* limitedRead: ReadAll of a LimitedReader of limit+1 bytes; error when limit+1 bytes arrived.
   None = error (the truncated prefix Go returns next to the error is discarded by callers) *)
Definition limited_read (limit : N) (body : bytes) : option bytes :=
  let p := firstn (N.to_nat (limit + 1)) body in
  if N.of_nat (length p) =? limit + 1 then None else Some p.

Definition http_response (limit : N) (status : N) (body : bytes) : option bytes :=
  if status =? 200 then limited_read limit body else None.

Definition AMP_PREFIX : bytes := bs "amp/client/".

Section AmpCache.
  Variable to_unicode : bytes -> option bytes.
  Variable to_ascii : bytes -> option bytes.
  Variable sha256 : bytes -> bytes.
  Variable h34 : bytes -> bool.
  Variable armor_decode : bytes -> option bytes.  (* ReadAll(NewArmorDecoder(r)), None = error *)

  (* the URL of the broker's AMP endpoint for this poll, as a publisher URL *)
  Definition amp_pub_url (b : broker_url) (cache_breaker data : bytes) : pub_url :=
    {| p_scheme := b_scheme b; p_user := b_user b; p_hostname := b_hostname b; p_port := b_port b;
       p_epath := resolve_path (b_epath b) (AMP_PREFIX ++ encode_path cache_breaker data);
       p_rawquery := []; p_fragment := [] |}.

  (* None = Exchange returns an error before any request is made *)
  Definition amp_request (b : broker_url) (cache : option cache_url_t) (front cache_breaker data : bytes)
    : option request :=
    let pu := amp_pub_url b cache_breaker data in
    match cache with
    | None =>
        Some (with_front front
          {| q_method := bs "GET"; q_scheme := b_scheme b; q_connect_host := b_host b;
             q_host_header := b_host b; q_path := p_epath pu; q_rawquery := []; q_body := None |})
    | Some cu =>
        match cache_url to_unicode to_ascii sha256 h34 pu cu (bs "c") with
        | None => None
        | Some r =>
            Some (with_front front
              {| q_method := bs "GET"; q_scheme := r_scheme r; q_connect_host := r_host r;
                 q_host_header := r_host r; q_path := lead_slash (r_rawpath r);
                 q_rawquery := r_rawquery r; q_body := None |})
        end
    end.

  (* io.LimitReader(body, limit+1) -> armor decoder -> ReadAll; error if the limit was hit *)
  Definition amp_read (limit : N) (body : bytes) : option bytes :=
    let lr := firstn (N.to_nat (limit + 1)) body in
    match armor_decode lr with
    | None => None
    | Some d => if N.of_nat (length lr) =? limit + 1 then None else Some d
    end.

  Definition amp_response (limit : N) (status : N) (has_location : bool) (body : bytes) : option bytes :=
    if negb (status =? 200) then None
    else if has_location then None
    else amp_read limit body.
End AmpCache.

(* ---------- the broker's two client endpoints over an abstract IPC.ClientOffers ---------- *)

Record http_reply := { h_status : N; h_body : bytes }.

Section BrokerHandlers.
  Variable client_offers : bytes -> option bytes.     (* IPC.ClientOffers, None = error *)
  Variable legacy_post : bytes -> http_reply.         (* the legacy ('{'-leading body) branch of clientOffers *)
  Variable armor : bytes -> bytes.                    (* AMP armor encoding of a byte string *)
  Variable decode_error_response : option bytes.      (* EncodePollResponse of {Error: "cannot decode URL path"} *)

  Definition BROKER_READ_LIMIT : N := 100000.

  (* clientOffers; the body as sent by the client *)
  Definition post_handler (body : bytes) : http_reply :=
    if BROKER_READ_LIMIT <? N.of_nat (length body) then {| h_status := 400; h_body := [] |}
    else match body with
         | 123 :: _ => legacy_post body
         | _ => match client_offers body with
                | Some resp => {| h_status := 200; h_body := resp |}
                | None => {| h_status := 500; h_body := [] |}
                end
         end.

  Definition AMP_ROUTE : bytes := bs "/amp/client/".

  Fixpoint strip_prefix (pre s : bytes) : option bytes :=
    match pre, s with
    | [], _ => Some s
    | a :: pre', b :: s' => if a =? b then strip_prefix pre' s' else None
    | _ :: _, [] => None
    end.

  (* ampClientOffers; url_path = r.URL.Path *)
  Definition amp_handler (url_path : bytes) : http_reply :=
    match strip_prefix AMP_ROUTE url_path with
    | None => {| h_status := 500; h_body := [] |}
    | Some p =>
        let resp := match decode_path p with
                    | POk body => client_offers body
                    | PErr _ => decode_error_response
                    end in
        match resp with
        | Some r => {| h_status := 200; h_body := armor r |}
        | None => {| h_status := 500; h_body := [] |}
        end
    end.
End BrokerHandlers.

(* ---------- one rendezvous object over its life time ----------
   BrokerChannel.Negotiate calls Exchange on ONE httpRendezvous / ampCacheRendezvous once per snowflake.  The object's
   fields (brokerURL, cacheURL, front, transport) are written by the constructor only: Exchange reads them, builds a NEW
   url.URL with ResolveReference, and does the front swap on the request's own URL.  The machine below has that state;
   [rdv_request]/[rdv_result] say what one Exchange does as a function of (configuration, event). *)

Inductive rdv_method :=
| MHttp                                   (* newHTTPRendezvous *)
| MAmp (cache : option cache_url_t).      (* newAMPCacheRendezvous, with or without an AMP cache *)

Record rdv_config := mk_rdv_config {
  rc_broker : broker_url;
  rc_method : rdv_method;
  rc_front : bytes }.

(* what the http.RoundTripper does with the request of one Exchange *)
Inductive transport_reply :=
| TxError                                                  (* RoundTrip returned an error *)
| TxResponse (status : N) (has_location : bool) (body : bytes).

(* one Exchange: the encoded poll, the 9 bytes crypto/rand hands to amp.EncodePath (AMP only), the transport's reply *)
Record rdv_event := mk_rdv_event { ev_poll : bytes; ev_cb : bytes; ev_reply : transport_reply }.

Section RendezvousObject.
  Variable to_unicode : bytes -> option bytes.
  Variable to_ascii : bytes -> option bytes.
  Variable sha256 : bytes -> bytes.
  Variable h34 : bytes -> bool.
  Variable armor_decode : bytes -> option bytes.

  (* None = Exchange returns an error before any request is made (AMP cache URL cannot be built) *)
  Definition rdv_request (c : rdv_config) (poll cb : bytes) : option request :=
    match rc_method c with
    | MHttp => Some (http_request (rc_broker c) (rc_front c) poll)
    | MAmp cache => amp_request to_unicode to_ascii sha256 h34 (rc_broker c) cache (rc_front c) cb poll
    end.

  (* what Exchange returns; None = error *)
  Definition rdv_result (c : rdv_config) (ev : rdv_event) : option bytes :=
    match rdv_request c (ev_poll ev) (ev_cb ev) with
    | None => None
    | Some _ =>
        match ev_reply ev with
        | TxError => None
        | TxResponse status loc body =>
            match rc_method c with
            | MHttp => http_response READ_LIMIT status body
            | MAmp _ => amp_response armor_decode READ_LIMIT status loc body
            end
        end
    end.

  Record rdv_state := mk_rdv_state {
    rs_conf : rdv_config;     (* the struct fields *)
    rs_exchanges : N          (* ghost: Exchanges made so far *)
  }.
  Definition rdv_init (c : rdv_config) : rdv_state := mk_rdv_state c 0.

  Definition rdv_step (s : rdv_state) (ev : rdv_event) : rdv_state * (option request * option bytes) :=
    (mk_rdv_state (rs_conf s) (rs_exchanges s + 1),
     (rdv_request (rs_conf s) (ev_poll ev) (ev_cb ev), rdv_result (rs_conf s) ev)).

  Fixpoint rdv_run (s : rdv_state) (evs : list rdv_event) : rdv_state * list (option request * option bytes) :=
    match evs with
    | [] => (s, [])
    | ev :: r => let '(s1, o) := rdv_step s ev in
                 let '(s2, os) := rdv_run s1 r in (s2, o :: os)
    end.
End RendezvousObject.
