(* CopyLoop.v — executable model of the proxy's relay step, proxy/lib/snowflake.go copyLoop(c1, c2, shutdown):

     var once sync.Once
     defer c2.Close(); defer c1.Close()          // run LIFO at return: c1.Close() first, then c2.Close()
     done := make(chan struct{})
     copyer := func(dst, src) { io.Copy(dst, src); once.Do(func() { close(done) }) }
     go copyer(c1, c2); go copyer(c2, c1)
     select { case <-done: case <-shutdown: }

   and of io.Copy (Go 1.23.5 io.copyBuffer, neither conn implements WriterTo/ReaderFrom):

     buf := make([]byte, 32*1024)
     for { nr, er := src.Read(buf)
           if nr > 0 { nw, ew := dst.Write(buf[0:nr]); written += nw
                       if ew != nil { break }; if nr != nw { break (ErrShortWrite) } }
           if er != nil { break } }              // EOF ends the copy like any other error

   The two conns are scripted: side s has a read script (what its successive Read calls return) and a write
   script (how its successive Write calls behave). Side 0 is c1 (in datachannelHandler: the WebRTC conn, the
   client), side 1 is c2 (the WebSocket to the server). Direction d copies FROM side d TO side (1-d), so
   direction 0 is `copyer(c2, c1)` (upstream) and direction 1 is `copyer(c1, c2)` (downstream).

   Granularity: every Read, Write and Close call is one schedulable event. A copier is either parked at a Read
   of its source, parked at a Write of a chunk to its destination, or has left io.Copy. A schedule is a list
   of steps; a step whose operation is not enabled is a no-op. A conn that has been closed fails every Read
   and Write at once and wakes the operations parked on it (io.ErrClosedPipe); a chunk that a copier holds
   when its destination is closed is dropped.
   Executable definitions only; proofs are in Proofs/CopyLoopProofs.v. *)
From Coq Require Import List NArith Bool Arith.
From Snow Require Import Lib.Wire.
Import ListNotations.
Open Scope nat_scope.

(* io.Copy's buffer: 32 KiB *)
Definition CL_BUF : nat := N.to_nat 32768.

(* what a Read returns besides its bytes *)
Inductive cl_err := CNone | CEof | CErr.

(* one scripted Read result: the bytes (handed out at most CL_BUF per call, the error with the last piece) *)
Record cl_ritem := mk_ritem { r_data : bytes; r_err : cl_err }.
(* one scripted Write behaviour: accept at most w_limit bytes (None = all), and whether an error is returned *)
Record cl_witem := mk_witem { w_limit : option nat; w_err : bool }.

Definition w_ok : cl_witem := mk_witem None false.

Inductive cl_dstate :=
| AtRead                                       (* parked at src.Read *)
| AtWrite (chunk : bytes) (er : cl_err)        (* parked at dst.Write(chunk); er = what the Read returned with it *)
| Exited.                                      (* left io.Copy: once.Do(close(done)) has run *)

Inductive cl_mstate :=
| Waiting                                      (* in the select *)
| Closing1                                     (* parked at the deferred c1.Close() *)
| Closing2                                     (* parked at the deferred c2.Close() *)
| Returned.

Record cl_side := mk_side {
  s_reads  : list cl_ritem;                    (* rest of the read script *)
  s_writes : list cl_witem;                    (* rest of the write script (exhausted = every Write succeeds) *)
  s_out    : bytes;                            (* bytes its Read calls have handed out so far *)
  s_in     : bytes;                            (* bytes its Write calls have accepted so far *)
  s_closes : nat;                              (* Close calls made by copyLoop *)
  s_ext    : bool                              (* closed by somebody else *)
}.

Record cl_state := mk_state {
  side0 : cl_side; side1 : cl_side;
  dir0 : cl_dstate; dir1 : cl_dstate;
  mn : cl_mstate;
  shut : bool;                                 (* the shutdown channel has been closed *)
  at_ret : option (nat * nat)                  (* bytes each side had accepted when copyLoop returned *)
}.

Inductive cl_step :=
| Rel (d : bool)                               (* let direction d's parked Read / Write proceed *)
| RelMain                                      (* let copyLoop's parked Close proceed *)
| Shutdown                                     (* close(shutdown) *)
| ExtClose (s : bool).                         (* somebody else closes side s *)

(* false = 0, true = 1 *)
Definition get_side (s : bool) (st : cl_state) : cl_side := if s then side1 st else side0 st.
Definition set_side (s : bool) (x : cl_side) (st : cl_state) : cl_state :=
  if s then mk_state (side0 st) x (dir0 st) (dir1 st) (mn st) (shut st) (at_ret st)
  else mk_state x (side1 st) (dir0 st) (dir1 st) (mn st) (shut st) (at_ret st).
Definition get_dir (d : bool) (st : cl_state) : cl_dstate := if d then dir1 st else dir0 st.
Definition set_dir (d : bool) (x : cl_dstate) (st : cl_state) : cl_state :=
  if d then mk_state (side0 st) (side1 st) (dir0 st) x (mn st) (shut st) (at_ret st)
  else mk_state (side0 st) (side1 st) x (dir1 st) (mn st) (shut st) (at_ret st).
Definition set_mn (m : cl_mstate) (st : cl_state) : cl_state :=
  mk_state (side0 st) (side1 st) (dir0 st) (dir1 st) m (shut st) (at_ret st).
Definition set_shut (b : bool) (st : cl_state) : cl_state :=
  mk_state (side0 st) (side1 st) (dir0 st) (dir1 st) (mn st) b (at_ret st).
Definition set_at_ret (r : option (nat * nat)) (st : cl_state) : cl_state :=
  mk_state (side0 st) (side1 st) (dir0 st) (dir1 st) (mn st) (shut st) r.

Definition side_read (x : cl_side) (rest : list cl_ritem) (chunk : bytes) : cl_side :=
  mk_side rest (s_writes x) (s_out x ++ chunk) (s_in x) (s_closes x) (s_ext x).
Definition side_write (x : cl_side) (accepted : bytes) : cl_side :=
  mk_side (s_reads x) (tl (s_writes x)) (s_out x) (s_in x ++ accepted) (s_closes x) (s_ext x).
Definition side_close (x : cl_side) : cl_side :=
  mk_side (s_reads x) (s_writes x) (s_out x) (s_in x) (S (s_closes x)) (s_ext x).
Definition side_ext (x : cl_side) : cl_side :=
  mk_side (s_reads x) (s_writes x) (s_out x) (s_in x) (s_closes x) true.

Definition closedb (closes : nat) (ext : bool) : bool := ext || negb (Nat.eqb closes 0).
Definition closed (x : cl_side) : bool := closedb (s_closes x) (s_ext x).

(* copier d leaves io.Copy and runs once.Do(close(done)): copyLoop, if still in its select, goes on to its
   deferred Close calls *)
Definition finish (d : bool) (st : cl_state) : cl_state :=
  let st := set_dir d Exited st in
  match mn st with Waiting => set_mn Closing1 st | _ => st end.

(* the copier's next call; on a conn that is already closed it fails at once *)
Definition to_read (d : bool) (st : cl_state) : cl_state :=
  if closed (get_side d st) then finish d st else set_dir d AtRead st.
Definition to_write (d : bool) (chunk : bytes) (er : cl_err) (st : cl_state) : cl_state :=
  if closed (get_side (negb d) st) then finish d st else set_dir d (AtWrite chunk er) st.

(* src.Read(buf) proceeds *)
Definition do_read (d : bool) (st : cl_state) : cl_state :=
  let x := get_side d st in
  if closed x then finish d st else
  match s_reads x with
  | [] => st                                   (* nothing to read: stays parked *)
  | it :: rest =>
      let big := Nat.ltb CL_BUF (length (r_data it)) in
      let chunk := if big then firstn CL_BUF (r_data it) else r_data it in
      let er := if big then CNone else r_err it in
      let rest' := if big then mk_ritem (skipn CL_BUF (r_data it)) (r_err it) :: rest else rest in
      let st := set_side d (side_read x rest' chunk) st in
      match chunk with
      | [] => match er with CNone => to_read d st | _ => finish d st end
      | _ :: _ => to_write d chunk er st
      end
  end.

(* dst.Write(chunk) proceeds *)
Definition do_write (d : bool) (chunk : bytes) (er : cl_err) (st : cl_state) : cl_state :=
  let y := get_side (negb d) st in
  if closed y then finish d st else
  let w := match s_writes y with [] => w_ok | w :: _ => w end in
  let n := match w_limit w with None => length chunk | Some l => Nat.min l (length chunk) end in
  let st := set_side (negb d) (side_write y (firstn n chunk)) st in
  if w_err w || Nat.ltb n (length chunk) then finish d st
  else match er with CNone => to_read d st | _ => finish d st end.

(* side s has just been closed: the operations parked on it fail *)
Definition wake (s : bool) (st : cl_state) : cl_state :=
  let st := match get_dir s st with AtRead => finish s st | _ => st end in
  match get_dir (negb s) st with AtWrite _ _ => finish (negb s) st | _ => st end.

Definition do_main (st : cl_state) : cl_state :=
  match mn st with
  | Closing1 => wake false (set_side false (side_close (side0 st)) (set_mn Closing2 st))
  | Closing2 =>
      wake true (set_at_ret (Some (length (s_in (side0 st)), length (s_in (side1 st))))
                   (set_side true (side_close (side1 st)) (set_mn Returned st)))
  | _ => st
  end.

Definition do_shutdown (st : cl_state) : cl_state :=
  let st' := set_shut true st in
  match mn st with Waiting => set_mn Closing1 st' | _ => st' end.

Definition do_ext (s : bool) (st : cl_state) : cl_state :=
  wake s (set_side s (side_ext (get_side s st)) st).

Definition cl_do (st : cl_state) (x : cl_step) : cl_state :=
  match x with
  | Rel d => match get_dir d st with
             | AtRead => do_read d st
             | AtWrite c er => do_write d c er st
             | Exited => st
             end
  | RelMain => do_main st
  | Shutdown => do_shutdown st
  | ExtClose s => do_ext s st
  end.

Definition side_init (rs : list cl_ritem) (ws : list cl_witem) : cl_side := mk_side rs ws [] [] 0 false.

(* copyLoop has started both copiers; each is parked at its first Read *)
Definition cl_init (r0 : list cl_ritem) (w0 : list cl_witem) (r1 : list cl_ritem) (w1 : list cl_witem) : cl_state :=
  mk_state (side_init r0 w0) (side_init r1 w1) AtRead AtRead Waiting false None.

Definition cl_run (sched : list cl_step) (st : cl_state) : cl_state := fold_left cl_do sched st.

(* all the bytes a read script will ever hand out *)
Definition script_data (rs : list cl_ritem) : bytes := concat (map r_data rs).

(* bytes accepted by each side after copyLoop returned *)
Definition late (st : cl_state) : nat * nat :=
  match at_ret st with
  | Some (a, b) => (length (s_in (side0 st)) - a, length (s_in (side1 st)) - b)
  | None => (0, 0)
  end.

(* everything about a state except the two flags "shutdown was closed" and "closed by somebody else" *)
Definition side_view (x : cl_side) := (s_reads x, s_writes x, s_out x, s_in x, s_closes x).
Definition view (st : cl_state) := (side_view (side0 st), side_view (side1 st), dir0 st, dir1 st, mn st, at_ret st).

(* ---------- the same machine WITHOUT the atomic wake ----------
   [wake] above terminates the copiers parked on a conn in the very step that closes it. Go does not promise that: Close
   makes the pending Read / Write fail, the copier goroutine returns from io.Copy some time later, and copyLoop returns
   without joining the copiers. Here a Close only marks the conn closed; a copier parked on it stays parked until ITS OWN
   next step, which then fails at once ([do_read] / [do_write] test [closed] first) without moving a byte. Used to state
   what the code guarantees at copyLoop's return (Proofs/CopyLoopLazyProofs.v). *)
Definition do_main_lazy (st : cl_state) : cl_state :=
  match mn st with
  | Closing1 => set_side false (side_close (side0 st)) (set_mn Closing2 st)
  | Closing2 =>
      set_at_ret (Some (length (s_in (side0 st)), length (s_in (side1 st))))
        (set_side true (side_close (side1 st)) (set_mn Returned st))
  | _ => st
  end.

Definition cl_do_lazy (st : cl_state) (x : cl_step) : cl_state :=
  match x with
  | RelMain => do_main_lazy st
  | ExtClose s => set_side s (side_ext (get_side s st)) st
  | _ => cl_do st x
  end.

Definition cl_run_lazy (sched : list cl_step) (st : cl_state) : cl_state := fold_left cl_do_lazy sched st.
