(* SdpStripLines.v — util.StripLocalAddresses over the WHOLE description at line level, and the
   two call sites that decide whether it is applied (client/lib BrokerChannel.Negotiate with
   newBrokerChannelFromConfig; proxy/lib SignalingServer.sendAnswer with newSignalingServer).
   Extends Model/SdpStrip.v (whose attribute classes and inner loop are reused unchanged).

   Library boundary, stated exactly.  pion/sdp is used twice:
     desc.Unmarshal(text)  text  -> structure   (fails: the input text is returned)
     desc.Marshal()        structure -> text = one line per element, every line ending CR LF
   What the harness hands over is pion's own view of the input, line by line: the lines of
   Marshal(Unmarshal(text)), each with an identity [id] standing for its exact text (same text
   <-> same id) and with its place in the structure:
     session part   v= o= s= i= u= e= p= c= b= t= r= z= k= and the session-level a= lines
                    (a session-level a=candidate line is an ordinary session line: the code never
                    looks at session-level attributes)
     media section  head = the m= line and its i= c= b= k= lines; then its a= lines, each
                    classified as in SdpStrip.v (Cand / BadCand / Other)
   [marshal] below is the order in which pion writes them.  That Marshal of the structure with
   some attributes removed writes exactly the remaining lines, each byte-identical, is what the
   correspondence run checks on every case (the driver prints the lines of the real output).
   Marshal returns (bytes, error): the error branch of the code is modelled too ([strip_lines_lib]).
   Executable definitions only. *)
From Coq Require Import List NArith Bool.
From Snow Require Import Lib.Wire Model.IpClass Model.SdpStrip.
Import ListNotations.
Open Scope N_scope.

Record msec := mkMsec { ms_head : list N; ms_attrs : list attr }.
Record sdesc := mkSdesc { sd_session : list N; sd_media : list msec }.

Inductive lkind := KSession | KHead | KAttr (c : attr_class).
Record line := mkLine { l_id : N; l_kind : lkind }.

Definition attr_line (a : attr) : line := mkLine (a_id a) (KAttr (a_class a)).

Definition marshal_media (m : msec) : list line :=
  map (fun i => mkLine i KHead) (ms_head m) ++ map attr_line (ms_attrs m).

Definition marshal (d : sdesc) : list line :=
  map (fun i => mkLine i KSession) (sd_session d) ++ flat_map marshal_media (sd_media d).

(* for _, m := range desc.MediaDescriptions { … m.Attributes = attrs }: nothing else of desc is
   assigned to; the inner loop is SdpStrip.strip_media *)
Definition strip_msec (m : msec) : msec := mkMsec (ms_head m) (strip_media (ms_attrs m)).
Definition strip_sdesc (d : sdesc) : sdesc := mkSdesc (sd_session d) (map strip_msec (sd_media d)).

(* the text a function hands on: the very string it was given, or freshly marshalled lines *)
Inductive sent := Original | Lines (l : list line).

(* util.StripLocalAddresses, the library calls as the code has them:
     err := desc.Unmarshal([]byte(str));  if err != nil { return str }        p = None
     … the loop …
     bts, err := desc.Marshal();          if err != nil { return str }        pion_marshal (stripped) = None
     return string(bts)
   desc.Marshal() enters as a function returning an option ([None] = it returned an error; [Some l] = the
   lines it wrote), like the other pion calls.  BOTH failure branches hand back the ORIGINAL text. *)
Definition strip_lines_lib (pion_marshal : sdesc -> option (list line)) (p : option sdesc) : sent :=
  match p with
  | None => Original
  | Some d =>
      match pion_marshal (strip_sdesc d) with
      | Some l => Lines l
      | None => Original
      end
  end.

(* pion/sdp as the harness observes it on each case: [marshal_ok] = desc.Marshal() on the stripped
   description returned no error (the driver re-runs the same library calls and reports it); when it
   succeeds it writes [marshal] (checked on every case through the line ids of the real output).
   pion/sdp v3.0.5 (pinned in go.mod) ends Marshal with `return m.bytes(), nil`: marshal_ok = false is a
   dead branch today, kept because the code has it. *)
Definition observed_marshal (marshal_ok : bool) (d : sdesc) : option (list line) :=
  if marshal_ok then Some (marshal d) else None.

Definition strip_lines (marshal_ok : bool) (p : option sdesc) : sent :=
  strip_lines_lib (observed_marshal marshal_ok) p.

(* specification vocabulary: the line is a media-level a=candidate line that pion/ice parses as a
   host candidate whose address is local, unspecified or loopback *)
Definition bad_host_line (l : line) : bool :=
  match l_kind l with
  | KAttr c => bad_host (mkAttr (l_id l) c)
  | _ => false
  end.

(* ---------------------------------------------------------------- call sites

   proxy/lib sendAnswer:          ld := pc.LocalDescription()
                                  if !s.keepLocalAddresses { ld = {ld.Type, StripLocalAddresses(ld.SDP)} }
   client/lib Negotiate:          if !bc.keepLocalAddresses { offer = {offer.Type, StripLocalAddresses(offer.SDP)} }
   then Serialize and send.  [to_send] is the SDP string inside what goes to the broker. *)
Definition to_send_lib (pion_marshal : sdesc -> option (list line)) (keep : bool) (p : option sdesc) : sent :=
  if keep then Original else strip_lines_lib pion_marshal p.

Definition to_send (keep marshal_ok : bool) (p : option sdesc) : sent :=
  to_send_lib (observed_marshal marshal_ok) keep p.

(* newSignalingServer(rawURL, keepLocalAddresses): s.keepLocalAddresses = keepLocalAddresses;
   the URL only has to parse (url_ok = url.Parse succeeded; library boundary) *)
Definition signaling_keep (raw_url : bytes) (url_ok : bool) (keep : bool) : option bool :=
  if url_ok then Some keep else None.

Definition proxy_answer_sent (raw_url : bytes) (url_ok : bool) (keep marshal_ok : bool) (p : option sdesc) : option sent :=
  option_map (fun k => to_send k marshal_ok p) (signaling_keep raw_url url_ok keep).

(* ClientConfig as far as newBrokerChannelFromConfig reads it *)
Record client_config := mkCC {
  cc_broker : bytes;       (* BrokerURL *)
  cc_ampcache : bytes;     (* AmpCacheURL: "" = HTTP rendezvous, else AMP cache rendezvous *)
  cc_front : bytes;        (* FrontDomain *)
  cc_keep : bool           (* KeepLocalAddresses *)
}.

(* newBrokerChannelFromConfig: picks the rendezvous method from AmpCacheURL, fails when a URL
   does not parse (urls_ok; library boundary), and copies config.KeepLocalAddresses: neither the
   broker URL, nor the cache URL, nor the front domain has any influence on the flag *)
Definition channel_keep (cfg : client_config) (urls_ok : bool) : option bool :=
  if urls_ok then Some (cc_keep cfg) else None.

Definition client_offer_sent (cfg : client_config) (urls_ok marshal_ok : bool) (p : option sdesc) : option sent :=
  option_map (fun k => to_send k marshal_ok p) (channel_keep cfg urls_ok).
