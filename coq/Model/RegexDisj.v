(* RegexDisj.v — disjointness of two regular languages by Brzozowski derivatives, and two
   syntactic operators on regular expressions used by the coverage proof of C07.
   Executable definitions only; soundness is proved in Proofs/RegexDisjProofs.v.

     disj r1 r2 = true   ->  no word is in L(r1) and in L(r2)
     tail_after P r      :   a regex whose language contains every y such that  x ++ e :: y  is in L(r)
                             for some x and some symbol e of the class P (what may follow a P-symbol
                             inside a word of r)
     nonnull r           :   a regex without the empty word whose language contains L(r) \ {[]}

   Same architecture as RegexIncl.incl: an untrusted breadth-first exploration of derivative pairs
   yields a set V; only the separate check [dclosed] matters for soundness. *)
From Coq Require Import List NArith Bool Arith.
From Snow Require Import Lib.Wire Model.Regex Model.RegexIncl.
Import ListNotations.
Open Scope N_scope.

Fixpoint dexplore (fuel : nat) (reps : list N) (todo : list (pair * bytes)) (seen : list pair) : xres :=
  match fuel with
  | O => XFuel
  | S f =>
      match todo with
      | [] => XOk seen
      | ((a, b), w) :: todo' =>
          if is_emp a || is_emp b || pmem (a, b) seen then dexplore f reps todo' seen
          else if nullable a && nullable b then XCex (rev w)
          else dexplore f reps
                 (todo' ++ map (fun c => ((deriv c a, deriv c b), c :: w)) reps)
                 ((a, b) :: seen)
      end
  end.

Definition dstep_ok (reps : list N) (V : list pair) (p : pair) : bool :=
  negb (nullable (fst p) && nullable (snd p)) &&
  forallb (fun c => let a' := deriv c (fst p) in let b' := deriv c (snd p) in
                    is_emp a' || is_emp b' || pmem (a', b') V) reps.

Definition dclosed (reps : list N) (V : list pair) : bool := forallb (dstep_ok reps V) V.

Definition disj_with (reps : list N) (r1 r2 : re) : bool :=
  match dexplore explore_fuel reps [((r1, r2), [])] [] with
  | XOk V => (is_emp r1 || is_emp r2 || pmem (r1, r2) V) && dclosed reps V
  | _ => false
  end.

(* the distinct ranges of a list (the operators below copy sub-expressions many times) *)
Definition rng_eqb (a b : N * N) : bool := (fst a =? fst b) && (snd a =? snd b).

Fixpoint uniq_rngs (acc rs : cls) : cls :=
  match rs with
  | [] => acc
  | x :: t => if existsb (rng_eqb x) acc then uniq_rngs acc t else uniq_rngs (x :: acc) t
  end.

Definition disj_reps (r1 r2 : re) : list N := representatives (uniq_rngs [] (ranges r1 ++ ranges r2)).

Definition disj (r1 r2 : re) : bool := disj_with (disj_reps r1 r2) r1 r2.

(* for diagnostics: a common word over representative symbols *)
Definition disj_run (r1 r2 : re) : xres :=
  dexplore explore_fuel (disj_reps r1 r2) [((r1, r2), [])] [].

(* ---------------------------------------------------------------- tails and non-empty part *)

Definition rng_overlap (a b : N * N) : bool := (N.max (fst a) (fst b) <=? N.min (snd a) (snd b)).

Definition cls_overlap (rs ps : cls) : bool :=
  existsb (fun a => existsb (fun b => rng_overlap a b) ps) rs.

Fixpoint tail_after (P : cls) (r : re) : re :=
  match r with
  | Cls rs => if cls_overlap rs P then Eps else Emp
  | Seq a b => Alt (Seq (tail_after P a) b) (tail_after P b)
  | Alt a b => Alt (tail_after P a) (tail_after P b)
  | Star a => Seq (tail_after P a) (Star a)
  | Rep a m n => match n with O => Emp | S n' => Seq (tail_after P a) (Rep a 0 n') end
  | Grp _ a => tail_after P a
  | _ => Emp
  end.

Fixpoint nonnull (r : re) : re :=
  match r with
  | Cls rs => Cls rs
  | Seq a b => Alt (Seq (nonnull a) b) (Seq a (nonnull b))
  | Alt a b => Alt (nonnull a) (nonnull b)
  | Star a => Seq (nonnull a) (Star a)
  | Rep a m n => match n with O => Emp | S n' => Seq (nonnull a) (Rep a 0 n') end
  | Grp _ a => nonnull a
  | _ => Emp
  end.

(* r with the alternatives "end of text" at the top removed: what r matches on a non-empty rest *)
Fixpoint strip_top_eol (r : re) : re :=
  match r with
  | Alt a b => Alt (strip_top_eol a) (strip_top_eol b)
  | Eol => Emp
  | _ => r
  end.
