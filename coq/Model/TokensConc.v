(* TokensConc.v — tokens_t (proxy/lib/tokens.go) under overlapping callers.

   Model/Tokens.v gives the four atomic steps of the type: get() = atomic.AddInt64(+1) then the channel send,
   ret() = atomic.AddInt64(-1) then the channel receive.  Model/ProxySession.v interleaves them inside the session
   machine; here the type stands alone: any number of goroutines, each running its own program of get()/ret() calls,
   interleaved step by step by an arbitrary schedule (a list of goroutine indices).  A step is enabled iff the
   goroutine has something left to do and, for a channel operation, the channel allows it (send: room, receive: an
   element; capacity 0 = no channel, never blocks).  This is what the S<n>x<rounds> op of the C16 driver runs on the
   real tokens_t (harness/overlay/proxy/lib/zz_verif_c16conc_test.go): holders and starters released by one barrier.

   The second machine (`lstep`) is the counter as a LOAD followed by a STORE (what a "clamped" or hand-rolled update
   does, seed C16-m13): it exists to state what atomic.AddInt64 buys (Properties/C16.v, `C16_load_store_counter_refuted`).

   Definitions only (no proofs). *)
From Coq Require Import List ZArith Arith Bool.
From Snow Require Import Model.Tokens.
Import ListNotations.
Local Open Scope Z_scope.

Inductive tokop := OGet | ORet.
Inductive micro := MInc | MSend | MDec | MRecv.

Definition micros_of (o : tokop) : list micro :=
  match o with OGet => [MInc; MSend] | ORet => [MDec; MRecv] end.
Definition compile (p : list tokop) : list micro := flat_map micros_of p.

Definition micro_ready (t : tokens) (m : micro) : bool :=
  match m with MSend => send_ready t | MRecv => recv_ready t | MInc | MDec => true end.
Definition micro_apply (t : tokens) (m : micro) : tokens :=
  match m with MInc => tok_inc t | MDec => tok_dec t | MSend => tok_send t | MRecv => tok_recv t end.

Record cstate := mkC { ctok : tokens; todo : list (list micro) }.

Fixpoint set_nth {A} (l : list A) (i : nat) (x : A) : list A :=
  match l, i with
  | [], _ => []
  | _ :: r, O => x :: r
  | y :: r, S j => y :: set_nth r j x
  end.

(* goroutine i takes its next atomic step *)
Definition cstep (s : cstate) (i : nat) : option cstate :=
  match nth_error (todo s) i with
  | Some (m :: rest) =>
      if micro_ready (ctok s) m then Some (mkC (micro_apply (ctok s) m) (set_nth (todo s) i rest)) else None
  | _ => None
  end.

Fixpoint crun (s : cstate) (sched : list nat) : option cstate :=
  match sched with
  | [] => Some s
  | i :: r => match cstep s i with Some s' => crun s' r | None => None end
  end.

Definition cinit (t : tokens) (progs : list (list tokop)) : cstate := mkC t (map compile progs).

Definition finished (l : list micro) : bool := match l with [] => true | _ => false end.
Definition quiescent (s : cstate) : bool := forallb finished (todo s).

(* what a list of pending steps will still add to the counter / to the channel *)
Definition net_c (m : micro) : Z := match m with MInc => 1 | MDec => -1 | _ => 0 end.
Definition net_h (m : micro) : Z := match m with MSend => 1 | MRecv => -1 | _ => 0 end.
Definition sumz (f : micro -> Z) (l : list micro) : Z := fold_right (fun m a => f m + a) 0 l.
Definition total (f : micro -> Z) (ll : list (list micro)) : Z := fold_right (fun l a => sumz f l + a) 0 ll.

Definition op_net (o : tokop) : Z := match o with OGet => 1 | ORet => -1 end.
Definition prog_net (p : list tokop) : Z := fold_right (fun o a => op_net o + a) 0 p.
Definition progs_net (ps : list (list tokop)) : Z := fold_right (fun p a => prog_net p + a) 0 ps.

(* the programs of one round of the driver's stress: a holder ends its session and serves k short ones, a starter
   serves k short ones and takes the slot it keeps *)
Fixpoint pairs (k : nat) : list tokop := match k with O => [] | S j => OGet :: ORet :: pairs j end.
Definition holder (k : nat) : list tokop := ORet :: pairs k.
Definition starter (k : nat) : list tokop := pairs k ++ [OGet].
Fixpoint round_progs (n k : nat) : list (list tokop) :=
  match n with O => [] | S j => holder k :: starter k :: round_progs j k end.

(* ---- the counter as load + store --------------------------------------------------------------- *)
Inductive lmicro := LLoad | LStoreInc | LStoreDec.
Record lstate := mkL { lclients : Z; lthreads : list (Z * list lmicro) }.   (* register, pending steps *)

Definition lstep (s : lstate) (i : nat) : option lstate :=
  match nth_error (lthreads s) i with
  | Some (r, LLoad :: rest) => Some (mkL (lclients s) (set_nth (lthreads s) i (lclients s, rest)))
  | Some (r, LStoreInc :: rest) => Some (mkL (r + 1) (set_nth (lthreads s) i (r, rest)))
  | Some (r, LStoreDec :: rest) => Some (mkL (Z.max 0 (r - 1)) (set_nth (lthreads s) i (r, rest)))
  | _ => None
  end.
Fixpoint lrun (s : lstate) (sched : list nat) : option lstate :=
  match sched with
  | [] => Some s
  | i :: r => match lstep s i with Some s' => lrun s' r | None => None end
  end.
Definition lret : list lmicro := [LLoad; LStoreDec].
Definition lget : list lmicro := [LLoad; LStoreInc].
Definition lquiescent (s : lstate) : bool :=
  forallb (fun th => match snd th with [] => true | _ => false end) (lthreads s).
