(* Metrics.v — model of the broker's counters (broker/metrics.go, the increments in broker/ipc.go).
   Executable definitions only.

   What the code does (read from ipc.go / metrics.go), per IPC call:
   ProxyPolls:  decode error -> nothing.  Otherwise, in this order:
     relay pattern field present -> proxyPollWithRelayURLExtension++ and rounded prom counter {nat,type}
                         absent  -> ...Without...
     relay pattern rejected -> proxyPollRejectedWithRelayURLExtension++ , prom {nat,type}; return
     RemoteAddr splits into host:port -> UpdateCountryStats(host, type, nat)   (else nothing)
     no client within the timeout -> proxyIdleCount++, prom proxy_poll{nat,idle}
     else                         -> prom proxy_poll{nat,matched}   (no log counter)
   ClientOffers: no proxy -> clientDeniedCount++, prom client_poll{nat,denied},
                             nat == unrestricted -> clientUnrestrictedDeniedCount++ else clientRestrictedDeniedCount++
                 answer arrives -> clientProxyMatchCount++, prom client_poll{nat,matched};  timeout -> nothing.
   UpdateCountryStats(addr, type, nat): the set is proxies[type] when type is one of the 4 known types, else the
     single set [unknown] (that is the normalisation: every unknown type shares one set); already present -> return;
     insert; geoip db absent -> return; counts[country]++; prom proxy_total{type,nat,cc}++ (NOT rounded);
     nat-type set of the FIRST sighting gets the address.
   printMetrics: prints len of each set, their sum, binCount of the 8 uint counters, len of the 3 nat sets.
   zeroMetrics: clears the 8 counters and all sets/maps; prometheus counters are cumulative (never cleared).
   LoadGeoipDatabases (start-up, and again on every SIGHUP): db, err := geoip.New(files); lock; m.geoipdb = db; unlock.
     Only the table is replaced (geoip.New returns nil with an error, so a failed load leaves NO table): the
     de-duplication sets, the NAT sets and the per-country counts of the running period stay as they are.  What a
     country an address resolves to is decided by the table loaded at the moment of the poll; in the model it is
     an argument of the poll op.

   Proxy types are numbers: 0 standalone, 1 webext, 2 badge, 3 iptproxy, >= 4 anything else.
   NAT types: 0 unknown, 1 restricted, 2 unrestricted (the message decoders accept nothing else). *)
From Coq Require Import List NArith Bool Arith String.
From Snow Require Import Lib.Wire Model.Round8.
Import ListNotations.
Open Scope N_scope.

Fixpoint mem (a : bytes) (l : list bytes) : bool :=
  match l with [] => false | x :: l' => beq a x || mem a l' end.
Definition set_add (a : bytes) (l : list bytes) : list bytes := if mem a l then l else l ++ [a].

Fixpoint aget {V} (d : V) (k : bytes) (m : list (bytes * V)) : V :=
  match m with [] => d | (k', v) :: m' => if beq k k' then v else aget d k m' end.
Fixpoint aupd {V} (d : V) (f : V -> V) (k : bytes) (m : list (bytes * V)) : list (bytes * V) :=
  match m with
  | [] => [(k, f d)]
  | (k', v) :: m' => if beq k k' then (k', f v) :: m' else (k', v) :: aupd d f k m'
  end.

Definition norm_type (t : N) : N := if t <? 4 then t else 4.
Definition updN {A} (f : N -> A) (t : N) (x : A) : N -> A := fun u => if u =? t then x else f u.

(* log counters *)
Inductive ev := EvIdle | EvWith | EvWithout | EvRejected | EvDenied | EvRDenied | EvUDenied | EvMatched.
Definition ev_code (e : ev) : N :=
  match e with EvIdle => 0 | EvWith => 1 | EvWithout => 2 | EvRejected => 3 | EvDenied => 4 | EvRDenied => 5
             | EvUDenied => 6 | EvMatched => 7 end.
Definition ev_eqb (a b : ev) : bool := ev_code a =? ev_code b.

(* rounded prometheus counters: family, first label, second label
   families: 0 proxy_poll{nat,status}  1 client_poll{nat,status}  2 with_relay{nat,type} 3 without_relay{nat,type}
             4 rejected_relay{nat,type};  status: 0 idle / denied, 1 matched *)
Definition pkey (fam a b : N) : bytes := [fam; a; b].

Record mstate := {
  cnt : ev -> N;                  (* the 8 uint fields of Metrics *)
  tsets : N -> list bytes;        (* countryStats.proxies[type] for 0..3, countryStats.unknown at 4 *)
  nat_r : list bytes; nat_u : list bytes; nat_k : list bytes;
  ccounts : list (bytes * N);     (* countryStats.counts *)
  prom : list (bytes * rc);       (* rounded counters (total, value), cumulative *)
  ptotal : list (bytes * N);      (* proxy_total{type,nat,cc}, cumulative, not rounded *)
  geo : bool                      (* a geoip database is loaded *)
}.

Definition minit (g : bool) : mstate :=
  {| cnt := fun _ => 0; tsets := fun _ => []; nat_r := []; nat_u := []; nat_k := []; ccounts := []; prom := []; ptotal := []; geo := g |}.

Definition bump_ev (e : ev) (s : mstate) : mstate :=
  {| cnt := fun e' => if ev_eqb e' e then cnt s e' + 1 else cnt s e'; tsets := tsets s; nat_r := nat_r s; nat_u := nat_u s;
     nat_k := nat_k s; ccounts := ccounts s; prom := prom s; ptotal := ptotal s; geo := geo s |}.
Definition bump_prom (k : bytes) (s : mstate) : mstate :=
  {| cnt := cnt s; tsets := tsets s; nat_r := nat_r s; nat_u := nat_u s; nat_k := nat_k s; ccounts := ccounts s;
     prom := aupd rc0 inc_seq k (prom s); ptotal := ptotal s; geo := geo s |}.

(* UpdateCountryStats *)
Definition update_country (a : bytes) (t n : N) (country : bytes) (s : mstate) : mstate :=
  let u := norm_type t in
  if mem a (tsets s u) then s
  else
    let ts := updN (tsets s) u (tsets s u ++ [a]) in
    if geo s then
      {| cnt := cnt s; tsets := ts;
         nat_r := if n =? 1 then set_add a (nat_r s) else nat_r s;
         nat_u := if n =? 2 then set_add a (nat_u s) else nat_u s;
         nat_k := if (n =? 1) || (n =? 2) then nat_k s else set_add a (nat_k s);
         ccounts := aupd 0 N.succ country (ccounts s); prom := prom s;
         ptotal := aupd 0 N.succ ([u; n] ++ country) (ptotal s); geo := geo s |}
    else
      {| cnt := cnt s; tsets := ts; nat_r := nat_r s; nat_u := nat_u s; nat_k := nat_k s; ccounts := ccounts s;
         prom := prom s; ptotal := ptotal s; geo := geo s |}.

Inductive poutcome := Rejected | Idle | Matched.

Inductive op :=
| ProxyBad                                              (* undecodable poll: nothing is counted *)
| ProxyPoll (a : option (bytes * bytes)) (t n : N) (relay : bool) (o : poutcome)
    (* a = Some (address, country the geoip db gives for it); None = RemoteAddr does not split *)
| ClientDenied (n : N) | ClientMatched (n : N) | ClientTimeout (n : N)
| Print | Zero
| Reload (ok : bool).                                   (* LoadGeoipDatabases; ok = both files loaded *)

Definition zero (s : mstate) : mstate :=
  {| cnt := fun _ => 0; tsets := fun _ => []; nat_r := []; nat_u := []; nat_k := []; ccounts := [];
     prom := prom s; ptotal := ptotal s; geo := geo s |}.

Definition set_geo (g : bool) (s : mstate) : mstate :=
  {| cnt := cnt s; tsets := tsets s; nat_r := nat_r s; nat_u := nat_u s; nat_k := nat_k s; ccounts := ccounts s;
     prom := prom s; ptotal := ptotal s; geo := g |}.

Definition apply_op (s : mstate) (o : op) : mstate :=
  match o with
  | ProxyBad => s
  | ProxyPoll a t n relay out =>
      let u := norm_type t in
      let s1 := if relay then bump_prom (pkey 2 n u) (bump_ev EvWith s) else bump_prom (pkey 3 n u) (bump_ev EvWithout s) in
      match out with
      | Rejected => bump_prom (pkey 4 n u) (bump_ev EvRejected s1)
      | _ =>
          let s2 := match a with Some (ad, country) => update_country ad t n country s1 | None => s1 end in
          match out with
          | Idle => bump_prom (pkey 0 n 0) (bump_ev EvIdle s2)
          | _ => bump_prom (pkey 0 n 1) s2
          end
      end
  | ClientDenied n =>
      let s1 := bump_prom (pkey 1 n 0) (bump_ev EvDenied s) in
      if n =? 2 then bump_ev EvUDenied s1 else bump_ev EvRDenied s1
  | ClientMatched n => bump_prom (pkey 1 n 1) (bump_ev EvMatched s)
  | ClientTimeout _ => s
  | Print => s
  | Zero => zero s
  | Reload ok => set_geo ok s
  end.

Definition exec (ops : list op) (s : mstate) : mstate := fold_left apply_op ops s.

(* the figures of one printMetrics call *)
Record report := {
  r_cc : list (bytes * N);          (* snowflake-ips CC=NUM *)
  r_type : N -> N;                  (* snowflake-ips-<type>, types 0..3 *)
  r_total : N;                      (* snowflake-ips-total *)
  r_ev : ev -> N;                   (* the 8 rounded counts *)
  r_natr : N; r_natu : N; r_natk : N
}.
Definition len (l : list bytes) : N := N.of_nat (List.length l).
Definition print (s : mstate) : report :=
  {| r_cc := ccounts s;
     r_type := fun t => len (tsets s t);
     r_total := len (tsets s 4) + (len (tsets s 0) + len (tsets s 1) + len (tsets s 2) + len (tsets s 3));
     r_ev := fun e => bin (cnt s e);
     r_natr := len (nat_r s); r_natu := len (nat_u s); r_natk := len (nat_k s) |}.

(* whole run: the reports printed by the Print ops, in order, and the final state *)
Fixpoint run_ops (ops : list op) (s : mstate) (acc : list report) : mstate * list report :=
  match ops with
  | [] => (s, List.rev acc)
  | Print :: r => run_ops r s (print s :: acc)
  | o :: r => run_ops r (apply_op s o) acc
  end.

(* the published value of a rounded prometheus counter (0 when the label combination never occurred) *)
Definition prom_value (s : mstate) (k : bytes) : N := snd (aget rc0 k (prom s)).

(* ---------- specification side: what "the true count" is ---------- *)
Definition is_zero (o : op) : bool := match o with Zero => true | _ => false end.
(* the ops since the last zeroMetrics *)
Definition since_zero (ops : list op) : list op := fold_left (fun acc o => if is_zero o then [] else acc ++ [o]) ops [].

Definition log_events (o : op) : list ev :=
  match o with
  | ProxyPoll _ _ _ relay out =>
      (if relay then [EvWith] else [EvWithout]) ++
      match out with Rejected => [EvRejected] | Idle => [EvIdle] | Matched => [] end
  | ClientDenied n => EvDenied :: (if n =? 2 then [EvUDenied] else [EvRDenied])
  | ClientMatched _ => [EvMatched]
  | _ => []
  end.
Definition prom_events (o : op) : list bytes :=
  match o with
  | ProxyPoll _ t n relay out =>
      [pkey (if relay then 2 else 3) n (norm_type t)] ++
      match out with Rejected => [pkey 4 n (norm_type t)] | Idle => [pkey 0 n 0] | Matched => [pkey 0 n 1] end
  | ClientDenied n => [pkey 1 n 0]
  | ClientMatched n => [pkey 1 n 1]
  | _ => []
  end.
(* addresses that polled with (normalised) type u and got past the relay-pattern check *)
Definition polled (u : N) (o : op) : list bytes :=
  match o with
  | ProxyPoll (Some (ad, _)) t _ _ out =>
      match out with Rejected => [] | _ => if norm_type t =? u then [ad] else [] end
  | _ => []
  end.

Fixpoint count_ev (e : ev) (l : list ev) : N :=
  match l with [] => 0 | x :: l' => (if ev_eqb e x then 1 else 0) + count_ev e l' end.
Fixpoint count_key (k : bytes) (l : list bytes) : N :=
  match l with [] => 0 | x :: l' => (if beq k x then 1 else 0) + count_key k l' end.

(* ---------- specification side for the NAT-type and country figures ----------
   UpdateCountryStats looks at the NAT type and the country of a poll only when the address is NEW for its
   (normalised) proxy type in the current period: what counts is the FIRST accepted poll of each (type, address). *)
(* NAT type and country of an accepted poll of address a with normalised type u *)
Definition poll_of (u : N) (a : bytes) (o : op) : option (N * bytes) :=
  match o with
  | ProxyPoll (Some (ad, c)) t n _ out =>
      match out with
      | Rejected => None
      | _ => if (norm_type t =? u) && beq ad a then Some (n, c) else None
      end
  | _ => None
  end.
Fixpoint first_poll (u : N) (a : bytes) (ops : list op) : option (N * bytes) :=
  match ops with
  | [] => None
  | o :: r => match poll_of u a o with Some x => Some x | None => first_poll u a r end
  end.
(* the first accepted poll of (u, a) resolved to country c *)
Definition ccb (c : bytes) (u : N) (ops : list op) (a : bytes) : bool :=
  match first_poll u a ops with Some (_, c') => beq c c' | None => false end.
Definition all_types : list N := [0; 1; 2; 3; 4].
Fixpoint sumN (l : list N) : N := match l with [] => 0 | x :: r => x + sumN r end.
(* over the five type classes: addresses of the class (given as [sets u]) whose first poll resolved to c *)
Definition ccsum (c : bytes) (ops : list op) (sets : N -> list bytes) : N :=
  sumN (map (fun u => N.of_nat (List.length (filter (ccb c u ops) (sets u)))) all_types).

(* ---------- the same with geoip reloads inside a period ----------
   Whether an address is attributed at all (country line, NAT sets, proxy_total) is decided by the table state at
   its FIRST accepted poll of the period under a proxy type; the country is the one that poll resolved to.  Later
   reloads change neither. *)
Definition geo_step (g : bool) (o : op) : bool := match o with Reload ok => ok | _ => g end.
Definition geo_after (g : bool) (ops : list op) : bool := fold_left geo_step ops g.
(* (table state now, table state when the running period began) *)
Definition geo_track (g : bool) (ops : list op) : bool * bool :=
  fold_left (fun st o => let gc := geo_step (fst st) o in (gc, if is_zero o then gc else snd st)) ops (g, g).
Definition period_geo (g : bool) (ops : list op) : bool := snd (geo_track g ops).
(* the first accepted poll of (u, a): (a table was loaded at that moment, NAT type, country) *)
Fixpoint first_sight (g : bool) (u : N) (a : bytes) (ops : list op) : option (bool * N * bytes) :=
  match ops with
  | [] => None
  | o :: r => match poll_of u a o with Some (n, c) => Some (g, n, c) | None => first_sight (geo_step g o) u a r end
  end.
Definition ccbg (c : bytes) (g : bool) (u : N) (ops : list op) (a : bytes) : bool :=
  match first_sight g u a ops with Some (true, _, c') => beq c c' | _ => false end.
Definition ccsumg (c : bytes) (g : bool) (ops : list op) (sets : N -> list bytes) : N :=
  sumN (map (fun u => N.of_nat (List.length (filter (ccbg c g u ops) (sets u)))) all_types).
Definition is_reload (o : op) : bool := match o with Reload _ => true | _ => false end.
