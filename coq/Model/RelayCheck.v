(* RelayCheck.v — the two decisions of property C06 that sit on top of the name matcher.
   Executable definitions only (proofs: Proofs/NameMatcherProofs.v).

   (1) Broker, /repo/broker/broker.go CheckProxyRelayPattern + the use in
       /repo/broker/ipc.go ProxyPolls:

         sid, .., relayPattern, relayPatternSupported, err := DecodeProxyPollRequestWithRelayPrefix(body)
         ...
         if !i.ctx.CheckProxyRelayPattern(relayPattern, !relayPatternSupported) { reply "incorrect relay pattern"; return }
         ... offer := i.ctx.RequestOffer(...)           // only here the proxy is registered

       The decoder (common/messages/proxy.go) yields (pattern, true) when the JSON field
       AcceptedRelayPattern is present and not null, and ("", false) when it is absent or null
       (legacy proxy).  [option bytes] is that pair.

   (2) Proxy, /repo/proxy/lib/snowflake.go runSession + datachannelHandler:

         matcher := namematcher.NewNameMatcher(sf.RelayDomainNamePattern)
         parsedRelayURL, err := url.Parse(relayURL)
         if err != nil { ...; return }
         if relayURL != "" && (!matcher.IsMember(parsedRelayURL.Hostname()) ||
                               (!sf.AllowNonTLSRelay && parsedRelayURL.Scheme != "wss")) { ...; return }
         ... dataChannelHandlerWithRelayURL{RelayURL: relayURL, ...}
         // datachannelHandler:  if relayURL == "" { relayURL = sf.RelayURL }; u, _ := url.Parse(relayURL); Dial(u.String())

       url.Parse is a library boundary: its result on the raw URL enters as [parsed_url]. *)
From Coq Require Import List NArith Bool Arith.
From Snow Require Import Lib.Wire Model.NameMatcher.
Import ListNotations.
Open Scope N_scope.

(* ---------------- broker ---------------- *)

Record broker_cfg := mk_broker_cfg {
  allowed_pattern : bytes;        (* ctx.allowedRelayPattern  (-allowed-relay-pattern) *)
  presumed_pattern : bytes        (* ctx.presumedPatternForLegacyClient (-default-relay-pattern) *)
}.

(* func (ctx *BrokerContext) CheckProxyRelayPattern(pattern string, nonSupported bool) bool *)
Definition check_proxy_relay_pattern (cfg : broker_cfg) (pattern : bytes) (non_supported : bool) : bool :=
  let pattern := if non_supported then presumed_pattern cfg else pattern in
  let proxy_pattern := new_matcher pattern in
  let broker_pattern := new_matcher (allowed_pattern cfg) in
  is_superset_of proxy_pattern broker_pattern.

(* the pattern the poll is judged by *)
Definition effective_pattern (cfg : broker_cfg) (pat : option bytes) : bytes :=
  match pat with Some p => p | None => presumed_pattern cfg end.

(* decision of ProxyPolls for a well-formed poll whose AcceptedRelayPattern field decodes to [pat]:
   true = goes on to RequestOffer (is registered), false = replies with the rejection status *)
Definition broker_accepts_poll (cfg : broker_cfg) (pat : option bytes) : bool :=
  match pat with
  | Some p => check_proxy_relay_pattern cfg p false
  | None => check_proxy_relay_pattern cfg [] true
  end.

(* ---------------- proxy ---------------- *)

Inductive parsed_url :=
| ParseError                                   (* url.Parse returned an error *)
| Parsed (scheme hostname : bytes).            (* u.Scheme, u.Hostname() *)

Record proxy_cfg := mk_proxy_cfg {
  relay_pattern : bytes;          (* sf.RelayDomainNamePattern *)
  allow_non_tls : bool            (* sf.AllowNonTLSRelay *)
}.

Inductive relay_decision :=
| Refuse            (* runSession returns before creating the peer connection: nothing is ever dialled *)
| DialBrokerURL     (* session proceeds; datachannelHandler dials the URL the broker supplied *)
| DialConfigured.   (* session proceeds; broker supplied "", datachannelHandler dials the operator's sf.RelayURL *)

Definition WSS : bytes := [119; 115; 115].

Definition proxy_relay_decision (cfg : proxy_cfg) (raw : bytes) (pu : parsed_url) : relay_decision :=
  match pu with
  | ParseError => Refuse
  | Parsed scheme host =>
      let nonempty := negb (beq raw []) in
      if nonempty && (negb (is_member (new_matcher (relay_pattern cfg)) host)
                      || (negb (allow_non_tls cfg) && negb (beq scheme WSS)))
      then Refuse
      else if nonempty then DialBrokerURL else DialConfigured
  end.

(* ---------------- histories ----------------
   Both decisions are taken afresh for every request: neither CheckProxyRelayPattern nor runSession keeps
   anything from one request to the next (the matchers are rebuilt from the configured strings each time).
   The machines below make that explicit; they are what a long-lived broker context / a long-lived
   SnowflakeProxy is compared with, request by request (Run ops pollseq / urlseq / urlseqfull). *)

(* what reaches the relay-pattern gate of one BrokerContext over its life time *)
Inductive broker_event :=
| EvPoll (pat : option bytes)          (* IPC.ProxyPolls; AcceptedRelayPattern decoded as in [broker_accepts_poll] *)
| EvInstall (cfg : broker_cfg).        (* ctx.InstallBridgeListProfile(_, allowed, presumed): start-up and every SIGHUP *)

(* one answer per event, aligned with the events: Some accepted? for a poll, None for a (re)configuration *)
Fixpoint broker_run (cfg : broker_cfg) (evs : list broker_event) : list (option bool) :=
  match evs with
  | [] => []
  | EvPoll pat :: r => Some (broker_accepts_poll cfg pat) :: broker_run cfg r
  | EvInstall c :: r => None :: broker_run c r
  end.

(* the configuration in force after a history *)
Fixpoint broker_cfg_after (cfg : broker_cfg) (evs : list broker_event) : broker_cfg :=
  match evs with
  | [] => cfg
  | EvPoll _ :: r => broker_cfg_after cfg r
  | EvInstall c :: r => broker_cfg_after c r
  end.

(* the relay URLs one SnowflakeProxy is handed by its broker, one per session, each with what url.Parse makes of it *)
Definition relay_offer := (bytes * parsed_url)%type.

Fixpoint proxy_run (cfg : proxy_cfg) (offers : list relay_offer) : list relay_decision :=
  match offers with
  | [] => []
  | (raw, pu) :: r => proxy_relay_decision cfg raw pu :: proxy_run cfg r
  end.
