(* ScrubFail.v — LogScrubber.Write (common/safelog/log.go) over a sink that can fail.

   Go:  ls.buffer = append(ls.buffer, b...); i := LastIndexByte(ls.buffer, '\n'); if i == -1 { return }
        _, err = ls.Output.Write(Scrub(ls.buffer[:i+1])); if err != nil { return }   <- the buffer is NOT trimmed
        ls.buffer = ls.buffer[i+1:]
   A Write whose sink call fails leaves the whole buffer in place: the complete lines are offered again, together with
   what arrives next, at the following Write.  What the sink ACCEPTED (calls that returned no error) is the output of the
   model; the bytes a failing call may have taken before it failed are the sink's own business.
   A write is (bytes, ok): ok = the sink accepts the block of this Write (irrelevant when the buffer holds no complete line:
   the sink is not called).  Definitions only. *)
From Coq Require Import List NArith Bool.
From Snow Require Import Lib.Wire Model.Scrub.
Import ListNotations.

Definition write_f (sc : bytes -> bytes) (buf : bytes) (bo : bytes * bool) : list bytes * bytes :=
  if snd bo then write sc buf (fst bo) else ([], buf ++ fst bo).

Fixpoint run_writes_f (sc : bytes -> bytes) (buf : bytes) (ws : list (bytes * bool)) : list bytes * bytes :=
  match ws with
  | [] => ([], buf)
  | bo :: ws' =>
      let (o, buf') := write_f sc buf bo in
      let (os, bufn) := run_writes_f sc buf' ws' in
      (o ++ os, bufn)
  end.

(* the same bytes as a sink that never fails would receive them: the bytes of a failed Write travel with the next one;
   snd = bytes of trailing failed Writes (still in the buffer, complete lines included) *)
Fixpoint merge_writes (carry : bytes) (ws : list (bytes * bool)) : list bytes * bytes :=
  match ws with
  | [] => ([], carry)
  | (b, true) :: r => let (m, c) := merge_writes [] r in ((carry ++ b) :: m, c)
  | (b, false) :: r => merge_writes (carry ++ b) r
  end.
