(* CarrierLayer.v — the server's carrier layer: server/lib/http.go (ServeHTTP token check,
   turbotunnelMode read and write loops) over common/turbotunnel QueuePacketConn and
   common/encapsulation.  A carrier is one WebSocket connection; its upstream bytes arrive in
   arbitrary pieces; the read loop extracts whole chunks (Encap.parse_one on the bytes buffered so
   far) and queues each data chunk tagged with the carrier's ClientID; the write loop takes packets
   addressed to that ClientID and writes them framed.  Queues are bounded (queueSize) and drop when
   full, as proved for QueuePacketConn in C17.  Executable definitions only. *)
From Coq Require Import List NArith Bool Arith.
From Snow Require Import Lib.Wire Model.Encap.
Import ListNotations.
Open Scope N_scope.

Definition TOKEN : bytes := [18; 147; 96; 93; 39; 129; 117; 245].   (* turbotunnel.Token *)
Definition QUEUE_SIZE : nat := 2048.

Inductive kstate :=
| K_Token            (* reading the 8 token bytes *)
| K_ClientID         (* token matched; reading the 8 ClientID bytes *)
| K_Open             (* both loops running *)
| K_Dead.            (* closed: wrong token, EOF, framing error, or write error *)

Record carrier := {
  k_state : kstate;
  k_cid : bytes;              (* meaningful from K_Open on *)
  k_buf : bytes;              (* upstream bytes received and not yet consumed *)
  k_up : list bytes;          (* ghost: data chunks this carrier queued, oldest first *)
  k_down : list bytes;        (* ghost: packets this carrier wrote downstream, oldest first *)
  k_wire : bytes              (* downstream bytes written *)
}.

Record sstate := {
  carriers : list carrier;
  recvq : list (bytes * bytes);              (* (packet, ClientID), oldest first *)
  sendqs : list (bytes * list bytes);        (* ClientID -> outgoing queue, oldest first *)
  accepted : list (bytes * bytes);           (* ghost: (ClientID, packet) accepted by WriteTo, oldest first *)
  delivered : list (bytes * bytes);          (* ghost: what ReadFrom returned, oldest first *)
  consumed : list (option nat * bytes * bytes)
             (* ghost: every packet taken off an outgoing queue, in order: (Some i = written to carrier i | None = lost
                because WriteData failed, ClientID of the queue, packet) *)
}.

Definition sinit : sstate := {| carriers := []; recvq := []; sendqs := []; accepted := []; delivered := []; consumed := [] |}.

Definition new_carrier : carrier :=
  {| k_state := K_Token; k_cid := []; k_buf := []; k_up := []; k_down := []; k_wire := [] |}.

Fixpoint kupd (i : nat) (f : carrier -> carrier) (l : list carrier) : list carrier :=
  match l, i with
  | [], _ => []
  | x :: l', O => f x :: l'
  | x :: l', S i' => x :: kupd i' f l'
  end.

Fixpoint q_lookup (c : bytes) (l : list (bytes * list bytes)) : list bytes :=
  match l with
  | [] => []
  | (c', q) :: l' => if beq c c' then q else q_lookup c l'
  end.
Fixpoint q_set (c : bytes) (q : list bytes) (l : list (bytes * list bytes)) : list (bytes * list bytes) :=
  match l with
  | [] => [(c, q)]
  | (c', q') :: l' => if beq c c' then (c, q) :: l' else (c', q') :: q_set c q l'
  end.

(* the read side of one carrier: consume as much of the buffer as possible.
   Returns the new carrier and the packets to queue (oldest first). *)
Fixpoint pump (fuel : nat) (k : carrier) : carrier * list bytes :=
  match fuel with
  | O => (k, [])
  | S f =>
      match k_state k with
      | K_Token =>
          if (length (k_buf k) <? 8)%nat then (k, [])
          else if beq (firstn 8 (k_buf k)) TOKEN
               then pump f {| k_state := K_ClientID; k_cid := []; k_buf := skipn 8 (k_buf k);
                              k_up := k_up k; k_down := k_down k; k_wire := k_wire k |}
               else ({| k_state := K_Dead; k_cid := []; k_buf := []; k_up := k_up k; k_down := k_down k; k_wire := k_wire k |}, [])
      | K_ClientID =>
          if (length (k_buf k) <? 8)%nat then (k, [])
          else pump f {| k_state := K_Open; k_cid := firstn 8 (k_buf k); k_buf := skipn 8 (k_buf k);
                         k_up := k_up k; k_down := k_down k; k_wire := k_wire k |}
      | K_Open =>
          match parse_one (k_buf k) with
          | PChunk isdata d rest =>
              let k' := {| k_state := K_Open; k_cid := k_cid k; k_buf := rest;
                           k_up := if isdata then k_up k ++ [d] else k_up k;
                           k_down := k_down k; k_wire := k_wire k |} in
              let '(k'', ps) := pump f k' in
              (k'', if isdata then d :: ps else ps)
          | PLong => ({| k_state := K_Dead; k_cid := k_cid k; k_buf := []; k_up := k_up k;
                         k_down := k_down k; k_wire := k_wire k |}, [])
          | PEnd | PShort => (k, [])   (* ReadData blocks for more bytes *)
          end
      | K_Dead => (k, [])
      end
  end.

Definition with_buf (b : bytes) (k : carrier) : carrier :=
  {| k_state := k_state k; k_cid := k_cid k; k_buf := b; k_up := k_up k; k_down := k_down k; k_wire := k_wire k |}.
Definition kill (k : carrier) : carrier :=
  {| k_state := K_Dead; k_cid := k_cid k; k_buf := []; k_up := k_up k; k_down := k_down k; k_wire := k_wire k |}.

Inductive sop :=
| S_New                                   (* a WebSocket connection is accepted *)
| S_Recv (i : nat) (b : bytes)            (* upstream bytes arrive on carrier i (any fragmentation) *)
| S_Close (i : nat)                       (* carrier i is cut / closed by the peer *)
| S_WriteTo (cid p : bytes)               (* KCP sends packet p to ClientID cid *)
| S_Send (i : nat)                        (* carrier i's write loop takes the next packet of its ClientID *)
| S_ReadFrom.                             (* KCP reads the next upstream packet *)

Fixpoint enqueue_all (cid : bytes) (ps : list bytes) (q : list (bytes * bytes)) : list (bytes * bytes) :=
  match ps with
  | [] => q
  | p :: ps' => enqueue_all cid ps' (if (length q <? QUEUE_SIZE)%nat then q ++ [(p, cid)] else q)
  end.

Definition sstep (s : sstate) (o : sop) : sstate :=
  match o with
  | S_New => {| carriers := carriers s ++ [new_carrier]; recvq := recvq s; sendqs := sendqs s;
                accepted := accepted s; delivered := delivered s; consumed := consumed s |}
  | S_Recv i b =>
      match nth_error (carriers s) i with
      | Some k =>
          match k_state k with
          | K_Dead => s
          | _ =>
              let '(k', ps) := pump (S (S (S (length (k_buf k) + length b)))) (with_buf (k_buf k ++ b) k) in
              {| carriers := kupd i (fun _ => k') (carriers s); recvq := enqueue_all (k_cid k') ps (recvq s);
                 sendqs := sendqs s; accepted := accepted s; delivered := delivered s; consumed := consumed s |}
          end
      | None => s
      end
  | S_Close i =>
      {| carriers := kupd i kill (carriers s); recvq := recvq s; sendqs := sendqs s;
         accepted := accepted s; delivered := delivered s; consumed := consumed s |}
  | S_WriteTo cid p =>
      let q := q_lookup cid (sendqs s) in
      if (length q <? QUEUE_SIZE)%nat
      then {| carriers := carriers s; recvq := recvq s; sendqs := q_set cid (q ++ [p]) (sendqs s);
              accepted := accepted s ++ [(cid, p)]; delivered := delivered s; consumed := consumed s |}
      else s
  | S_Send i =>
      match nth_error (carriers s) i with
      | Some k =>
          match k_state k, q_lookup (k_cid k) (sendqs s) with
          | K_Open, p :: q' =>
              match write_data p with
              | Some w =>
                  {| carriers := kupd i (fun k => {| k_state := K_Open; k_cid := k_cid k; k_buf := k_buf k; k_up := k_up k;
                                                     k_down := k_down k ++ [p]; k_wire := k_wire k ++ w |}) (carriers s);
                     recvq := recvq s; sendqs := q_set (k_cid k) q' (sendqs s);
                     accepted := accepted s; delivered := delivered s;
                     consumed := consumed s ++ [(Some i, k_cid k, p)] |}
              | None =>   (* WriteData error: the packet is lost and the carrier stops *)
                  {| carriers := kupd i kill (carriers s); recvq := recvq s; sendqs := q_set (k_cid k) q' (sendqs s);
                     accepted := accepted s; delivered := delivered s;
                     consumed := consumed s ++ [(None, k_cid k, p)] |}
              end
          | _, _ => s
          end
      | None => s
      end
  | S_ReadFrom =>
      match recvq s with
      | x :: q' => {| carriers := carriers s; recvq := q'; sendqs := sendqs s; accepted := accepted s;
                      delivered := delivered s ++ [x]; consumed := consumed s |}
      | [] => s
      end
  end.

Definition srun (ops : list sop) : sstate := fold_left sstep ops sinit.

(* the bytes a carrier received after its 16-byte header, reconstructed: what was consumed into
   chunks plus what is still buffered *)
Definition total_upstream (k : carrier) : list bytes := k_up k.
