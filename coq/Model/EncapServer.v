(* EncapServer.v — the reader of server/lib/http.go in front of encapsulation.ReadData (executable model).
   ServeHTTP reads the 8-byte token with io.ReadFull(conn, ..), turbotunnelMode reads the 8-byte ClientID with
   io.ReadFull(conn, ..), and the SAME conn is then handed to encapsulation.ReadData in a loop: no reader in between
   buffers ahead, so the chunk stream starts exactly at offset 16 of the carrier's byte stream, however the carrier
   (WebSocket messages of any size) cuts those bytes. *)
From Coq Require Import List NArith Bool Arith.
From Snow Require Import Lib.Wire Model.Encap.
Import ListNotations.
Open Scope N_scope.

Definition TOKEN_LEN : nat := 8.
Definition CLIENTID_LEN : nat := 8.

Inductive sres :=
| SShort (e : rerr)                                        (* the carrier ended inside the preamble *)
| SOk (token cid : bytes) (packets : list bytes) (e : rerr).

(* one script for the whole connection: the Read calls of the two io.ReadFull and of every ReadData follow each other
   on the same reader *)
Definition server_read (s : bytes) (sc : script) : sres :=
  match read_full sc TOKEN_LEN [] s with
  | RErr e => SShort e
  | ROk tok rem1 sc1 =>
      match read_full sc1 CLIENTID_LEN [] rem1 with
      | RErr e => SShort e
      | ROk cid rem2 sc2 =>
          let '(ps, e) := read_all (S (length rem2)) rem2 sc2 in SOk tok cid ps e
      end
  end.
