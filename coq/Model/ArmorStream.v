(* ArmorStream.v — amp.NewArmorDecoder as the streaming reader it is.  Executable definitions only.

   The Go code: NewArmorDecoder starts a goroutine (the PRODUCER) that runs decodeToWriter:
   an html.Tokenizer pulls the source with Read calls of its own choosing, every text token
   inside pre is split into words, and every word is one Write to an io.Pipe.  The pipe is
   synchronous: a Write blocks until readers have taken all its bytes (or the read side is
   closed), a Read returns at most the rest of ONE Write.  The CONSUMER side is what the caller
   holds: NewArmorDecoder reads the version byte from the pipe, then returns
   base64.NewDecoder(pipe), whose Read(p) gathers at least 4 characters (asking the pipe for up
   to len(p)/3*4, clamped to 4..1024), decodes the complete quanta it has as ONE Encoding.Decode
   call, keeps the 0..3 left-over characters, and hands out decoded bytes that did not fit in p
   on later calls.

   Because the pipe is unbuffered the two goroutines are, for the data they exchange, one
   sequential demand-driven process: the producer advances exactly to its next Write (or to
   its return).  [prod] is the producer's state at such a point, [cons] the base64 decoder's
   fields.  The tokenizer is the LIBRARY BOUNDARY and enters as Section variables: any state
   type with a byte-feed function returning the tokens completed by that byte and an
   end-of-input function — i.e. the assumption that the token stream is a function of the
   bytes fed so far and not of how the source's Reads chunk them.  It is instantiated below
   by Armor.tk_step / tk_fin.

   [dec_read0] is the code before /repo commit 0dac441 (proposed-fixes/C10-decoder-goroutine-leak-b64err.diff);
   [dec_read] is the code since: the pipe's read side is closed when the base64 layer reports an
   error, which releases a producer blocked in Write. *)
From Coq Require Import List NArith Bool Arith.
From Snow Require Import Lib.Wire Model.Base64 Model.Armor.
Import ListNotations.
Open Scope N_scope.

(* what travels through the pipe: one Write per word, then CloseWithError *)
Inductive pevent := PW (w : bytes) | PEnd (e : tend).

Definition evs_of (r : dwr) : list pevent :=
  map PW (w_words r) ++ match w_end r with Some e => [PEnd e] | None => [] end.

(* what a Read of the decoder returns besides bytes *)
Inductive rend := REOF | RErr (e : derr).

(* what a Read of the pipe returns *)
Inductive pres := PData (b : bytes) | PClosed (e : tend).

Section Stream.
  Variable T : Type.
  Variable tinit : T.
  Variable tfeed : T -> N -> T * list tok.
  Variable tfin : T -> list tok.

  (* ---------------------------------------------------------------- producer *)
  Record prod := {
    p_src : list bytes;      (* what the source's coming Reads return, then io.EOF *)
    p_cur : bytes;           (* read from the source, not yet tokenized (the tokenizer's buffer beyond raw.end) *)
    p_fin : bool;            (* the source has returned io.EOF *)
    p_tk : T;                (* tokenizer *)
    p_act : bool;            (* decodeToWriter's [active] *)
    p_q : list pevent;       (* head: the Write in progress (what readers have not taken yet), then the other
                                words of the tokens already returned by Next; [PEnd] = decodeToWriter returned *)
    p_consumed : N           (* bytes the source has delivered so far *)
  }.

  Definition set_q (p : prod) (q : list pevent) : prod :=
    {| p_src := p_src p; p_cur := p_cur p; p_fin := p_fin p; p_tk := p_tk p; p_act := p_act p;
       p_q := q; p_consumed := p_consumed p |}.

  Definition p_init (chunks : list bytes) : prod :=
    {| p_src := chunks; p_cur := []; p_fin := false; p_tk := tinit; p_act := false; p_q := []; p_consumed := 0 |}.

  (* tokenize buffered bytes until decodeToWriter has something for the pipe *)
  Fixpoint fill_cur (t : T) (act : bool) (cur : bytes) : T * bool * bytes * list pevent :=
    match cur with
    | [] => (t, act, [], [])
    | c :: cur' =>
        let '(t', ts) := tfeed t c in
        let r := dw_toks act ts in
        match evs_of r with
        | [] => fill_cur t' (w_act r) cur'
        | evs => (t', w_act r, cur', evs)
        end
    end.

  (* ... reading the source when the buffer is used up *)
  Fixpoint fill_src (t : T) (act : bool) (src : list bytes) (n : N)
      : T * bool * list bytes * bytes * list pevent * N :=
    match src with
    | [] => (t, act, [], [], [], n)
    | ch :: src' =>
        let '(t', act', cur', evs) := fill_cur t act ch in
        let n' := n + N.of_nat (List.length ch) in
        match evs with
        | [] => fill_src t' act' src' n'
        | _ => (t', act', src', cur', evs, n')
        end
    end.

  (* run the producer to its next Write or to its return *)
  Definition p_fill (p : prod) : prod :=
    match p_q p with
    | _ :: _ => p
    | [] =>
        let '(t1, a1, cur1, ev1) := fill_cur (p_tk p) (p_act p) (p_cur p) in
        match ev1 with
        | _ :: _ => {| p_src := p_src p; p_cur := cur1; p_fin := p_fin p; p_tk := t1; p_act := a1;
                       p_q := ev1; p_consumed := p_consumed p |}
        | [] =>
            let '(t2, a2, src2, cur2, ev2, n2) := fill_src t1 a1 (p_src p) (p_consumed p) in
            match ev2 with
            | _ :: _ => {| p_src := src2; p_cur := cur2; p_fin := p_fin p; p_tk := t2; p_act := a2;
                           p_q := ev2; p_consumed := n2 |}
            | [] => (* io.EOF from the source; the extra TkEOF only makes the definition total for a
                       tokenizer whose [tfin] would not end with an ErrorToken *)
                let r := dw_toks a2 (tfin t2 ++ [TkEOF]) in
                {| p_src := []; p_cur := []; p_fin := true; p_tk := t2; p_act := w_act r;
                   p_q := evs_of r; p_consumed := n2 |}
            end
        end
    end.

  (* pr.Read(b) with len(b) = k *)
  Definition pipe_read (k : nat) (p : prod) : pres * prod :=
    let p1 := p_fill p in
    match p_q p1 with
    | PW w :: q => (PData (firstn k w), set_q p1 (match skipn k w with [] => q | w' => PW w' :: q end))
    | PEnd e :: _ => (PClosed e, p1)
    | [] => (PClosed TEnd, p1)
    end.

  (* pr.CloseWithError(err): the producer runs to its next Write, which returns err, and decodeToWriter
     returns it (or it returns by itself before writing again) *)
  Definition p_close (e : derr) (p : prod) : prod :=
    let p1 := p_fill p in
    match p_q p1 with
    | PEnd _ :: _ => p1
    | _ => set_q p1 [PEnd (TErr e)]
    end.

  (* the goroutine has returned *)
  Definition p_returned (p : prod) : bool := match p_q p with PEnd _ :: _ => true | _ => false end.
  (* nobody will read the pipe any more: is the goroutine stuck in a Write for ever? *)
  Definition p_stuck (p : prod) : bool := negb (p_returned (p_fill p)).

  (* ---------------------------------------------------------------- consumer: base64.NewDecoder *)
  Record cons := {
    c_nbuf : bytes;          (* d.buf[:d.nbuf] *)
    c_out : bytes;           (* d.out *)
    c_err : option rend;     (* d.err *)
    c_rerr : option tend     (* d.readErr *)
  }.
  Definition cons0 : cons := {| c_nbuf := []; c_out := []; c_err := None; c_rerr := None |}.

  Record dec := { d_c : cons; d_p : prod }.

  (* "for d.nbuf < 4 && d.readErr == nil": at most 4 turns since every pipe Read brings a byte *)
  Fixpoint refill (fuel : nat) (target : nat) (nbuf : bytes) (rerr : option tend) (p : prod)
      : bytes * option tend * prod :=
    match fuel with
    | O => (nbuf, rerr, p)
    | S f =>
        if Nat.ltb (List.length nbuf) 4 then
          match rerr with
          | Some _ => (nbuf, rerr, p)
          | None =>
              match pipe_read (target - List.length nbuf) p with
              | (PData b, p') => refill f target (nbuf ++ b) None p'
              | (PClosed e, p') => (nbuf, Some e, p')
              end
          end
        else (nbuf, rerr, p)
    end.

  (* nn := len(p) / 3 * 4, at least 4, at most len(d.buf) *)
  Definition clamp_nn (n : nat) : nat :=
    let nn := (n / 3 * 4)%nat in if Nat.ltb nn 4 then 4%nat else if Nat.ltb 1024 nn then 1024%nat else nn.

  Definition dec_read0 (n : nat) (d : dec) : (bytes * option rend) * dec :=
    let c := d_c d in
    match c_out c with
    | _ :: _ =>
        ((firstn n (c_out c), None),
         {| d_c := {| c_nbuf := c_nbuf c; c_out := skipn n (c_out c); c_err := c_err c; c_rerr := c_rerr c |};
            d_p := d_p d |})
    | [] =>
        match c_err c with
        | Some e => (([], Some e), d)
        | None =>
            let '(nbuf, rerr, p') := refill 4 (clamp_nn n) (c_nbuf c) (c_rerr c) (d_p d) in
            if Nat.ltb (List.length nbuf) 4 then
              let e := match rerr with
                       | Some TEnd => match nbuf with [] => REOF | _ => RErr EBadBase64 (* io.ErrUnexpectedEOF *) end
                       | Some (TErr e) => RErr e
                       | None => RErr EBadBase64   (* not reachable: every Read of the pipe brings a byte *)
                       end in
              (([], Some e), {| d_c := {| c_nbuf := nbuf; c_out := []; c_err := Some e; c_rerr := rerr |}; d_p := p' |})
            else
              let nr := (List.length nbuf / 4 * 4)%nat in
              let '(data, bad) := b64_chunk (firstn nr nbuf) in
              let err := if bad then Some (RErr EBadBase64) else None in
              let rest := skipn nr nbuf in
              if Nat.ltb n (nr / 4 * 3) then
                (* "nw > len(p)": decoded into d.outbuf, what does not fit stays in d.out *)
                ((firstn n data, err),
                 {| d_c := {| c_nbuf := rest; c_out := skipn n data; c_err := err; c_rerr := rerr |}; d_p := p' |})
              else
                ((data, err), {| d_c := {| c_nbuf := rest; c_out := []; c_err := err; c_rerr := rerr |}; d_p := p' |})
        end
    end.

  (* with the proposed fix: an error other than io.EOF closes the pipe's read side *)
  Definition dec_read (n : nat) (d : dec) : (bytes * option rend) * dec :=
    let '(r, d') := dec_read0 n d in
    match snd r with
    | Some (RErr e) => (r, {| d_c := d_c d'; d_p := p_close e (d_p d') |})
    | _ => (r, d')
    end.

  (* NewArmorDecoder *)
  Inductive newres := NewErr (e : derr) (p : prod) | NewOk (d : dec).
  Definition dec_new (chunks : list bytes) : newres :=
    match pipe_read 1 (p_init chunks) with
    | (PData (v :: _), p1) =>
        if v =? VERSION then NewOk {| d_c := cons0; d_p := p1 |} else NewErr EUnknownVersion (p_close EUnknownVersion p1)
    | (PData [], p1) => NewErr EUnknownVersion (p_close EUnknownVersion p1)
    | (PClosed TEnd, p1) => NewErr EEmpty p1
    | (PClosed (TErr e), p1) => NewErr e p1
    end.

  (* the caller's loop: Read with buffers of sizes sz 0, sz 1, ... (the index is an N: cheap to count) until an error or io.EOF.
     Result: the bytes returned, how it ended (None: [fuel] reads did not reach the end), final state *)
  Fixpoint read_all (rd : nat -> dec -> (bytes * option rend) * dec)
                    (fuel : nat) (sz : N -> nat) (i : N) (d : dec) (acc_rev : bytes)
      : bytes * option rend * dec :=
    match fuel with
    | O => (rev_append acc_rev [], None, d)
    | S f =>
        let '((b, e), d') := rd (sz i) d in
        let acc := rev_append b acc_rev in
        match e with
        | Some e => (rev_append acc [], Some e, d')
        | None => read_all rd f sz (N.succ i) d' acc
        end
    end.

  Record sres := { s_data : bytes; s_end : option rend; s_prod : prod }.

  Definition stream_decode_with (rd : nat -> dec -> (bytes * option rend) * dec)
                                (chunks : list bytes) (sz : N -> nat) (fuel : nat) : sres :=
    match dec_new chunks with
    | NewErr e p => {| s_data := []; s_end := Some (RErr e); s_prod := p |}
    | NewOk d => let '(b, e, d') := read_all rd fuel sz 0 d [] in
                 {| s_data := b; s_end := e; s_prod := d_p d' |}
    end.
  Definition stream_decode := stream_decode_with dec_read.
  Definition stream_decode0 := stream_decode_with dec_read0.

  (* ---------------------------------------------------------------- what the decoder holds *)
  Fixpoint q_bytes (q : list pevent) : N :=
    match q with
    | [] => 0
    | PW w :: q' => N.of_nat (List.length w) + q_bytes q'
    | PEnd _ :: q' => q_bytes q'
    end.
End Stream.

Arguments p_src {T}. Arguments p_cur {T}. Arguments p_fin {T}. Arguments p_tk {T}. Arguments p_act {T}.
Arguments p_q {T}. Arguments p_consumed {T}. Arguments d_c {T}. Arguments d_p {T}.
Arguments s_data {T}. Arguments s_end {T}. Arguments s_prod {T}.

(* ------------------------------------------------------------------ the instance: Armor's tokenizer *)
Definition sprod := prod tks.
Definition sdec_new := dec_new tks tk_init tk_step tk_fin.
Definition sdec_read := dec_read tks tk_step tk_fin.
Definition sdec_read0 := dec_read0 tks tk_step tk_fin.
Definition sp_fill := p_fill tks tk_step tk_fin.
Definition sp_stuck := p_stuck tks tk_step tk_fin.
Definition armor_stream_decode := stream_decode tks tk_init tk_step tk_fin.
Definition armor_stream_decode0 := stream_decode0 tks tk_init tk_step tk_fin.

(* ------------------------------------------------------------------ cutting a document / choosing read sizes *)
(* the document as the source's Reads deliver it: sizes taken from [pat] cyclically, 0 = all the rest *)
Fixpoint cut_pat (fuel : nat) (pat cur : list nat) (l : bytes) : list bytes :=
  match fuel with
  | O => match l with [] => [] | _ => [l] end
  | S f =>
      match l with
      | [] => []
      | _ =>
          match cur with
          | [] => match pat with
                  | [] | O :: _ => [l]
                  | k :: cur' => firstn k l :: cut_pat f pat cur' (skipn k l)
                  end
          | O :: _ => [l]
          | k :: cur' => firstn k l :: cut_pat f pat cur' (skipn k l)
          end
      end
  end.
Definition cut_doc (pat : list nat) (l : bytes) : list bytes := cut_pat (S (List.length l)) pat pat l.

(* the i-th Read buffer: sizes from [pat] cyclically, never 0 *)
Definition size_fun (pat : list nat) (i : N) : nat :=
  match pat with
  | [] => 4096%nat
  | _ => Nat.max 1 (nth (N.to_nat (i mod N.of_nat (List.length pat))) pat 1%nat)
  end.

(* number of Reads the caller's loop is given: more than the characters that can reach the pipe
   (Text() at most triples a token's bytes; proved sufficient in Proofs/ArmorStreamInst.v) *)
Definition fuel_for (doc : bytes) : nat := S (S (S (3 * List.length doc))).
