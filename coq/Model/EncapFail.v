(* EncapFail.v — encapsulation.ReadData over a reader that FAILS: it delivers the bytes of [rem] under a
   fragmentation script exactly like the reader of Model/Encap.v, but when the bytes are exhausted it returns
   a non-EOF error X (alone, or together with the last bytes when the script entry's flag is set) instead of
   io.EOF.  The Go code treats X like EOF in its control flow (any error ends the call) but relabels nothing:
   io.ReadFull returns X itself whether or not bytes were read, and ReadData's "EOF -> ErrUnexpectedEOF"
   mapping does not apply.  So every failure below is the one value XIo; XTooLong is ErrTooLong.
   Same structure as read_full / read_len / read_data / read_all of Model/Encap.v, line for line. *)
From Coq Require Import List NArith Bool Arith.
From Snow Require Import Lib.Wire Model.Encap.
Import ListNotations.
Open Scope N_scope.

Inductive xerr := XIo | XTooLong.

Inductive rresx :=
| ROkX (got rest : bytes) (sc : script)
| RErrX.

Fixpoint read_full_x (sc : script) (n : nat) (acc rem : bytes) : rresx :=
  match n with
  | O => ROkX acc rem sc
  | S _ =>
      match rem with
      | [] => RErrX
      | _ :: _ =>
          match sc with
          | [] =>
              let got := firstn n rem in
              if (length got <? n)%nat then RErrX
              else ROkX (acc ++ got) (skipn n rem) []
          | (m, fl) :: sc' =>
              let t := Nat.min m n in
              let got := firstn t rem in
              let rem' := skipn t rem in
              let n' := (n - length got)%nat in
              match n' with
              | O => ROkX (acc ++ got) rem' sc'
              | S _ =>
                  match rem' with
                  | [] => if fl then RErrX else read_full_x sc' n' (acc ++ got) rem'
                  | _ => read_full_x sc' n' (acc ++ got) rem'
                  end
              end
          end
      end
  end.

Fixpoint read_len_x (k : nat) (i : nat) (more : bool) (n : N) (rem : bytes) (sc : script)
  : option (N * bytes * script) + xerr :=
  if more then
    match k with
    | O => inr XTooLong
    | S k' =>
        if (2 <=? i)%nat then inr XTooLong
        else match read_full_x sc 1 [] rem with
             | RErrX => inr XIo
             | ROkX [b] rem' sc' =>
                 read_len_x k' (S i) (negb (N.land b 128 =? 0)) (N.lor (N.shiftl n 7) (N.land b 127)) rem' sc'
             | ROkX _ _ _ => inr XTooLong
             end
    end
  else inl (Some (n, rem, sc)).

Inductive dresx :=
| DChunkX (d : bytes) (rest : bytes) (sc : script)
| DErrX (e : xerr).

Fixpoint read_data_x (fuel : nat) (rem : bytes) (sc : script) : dresx :=
  match fuel with
  | O => DErrX XTooLong
  | S f =>
      match read_full_x sc 1 [] rem with
      | RErrX => DErrX XIo
      | ROkX [b] rem1 sc1 =>
          let isdata := negb (N.land b 128 =? 0) in
          let more := negb (N.land b 64 =? 0) in
          match read_len_x 3 0 more (N.land b 63) rem1 sc1 with
          | inr e => DErrX e
          | inl None => DErrX XTooLong
          | inl (Some (n, rem2, sc2)) =>
              match read_full_x sc2 (N.to_nat n) [] rem2 with
              | RErrX => DErrX XIo
              | ROkX p rem3 sc3 =>
                  if isdata then DChunkX p rem3 sc3 else read_data_x f rem3 sc3
              end
          end
      | ROkX _ _ _ => DErrX XTooLong
      end
  end.

Fixpoint read_all_x (fuel : nat) (rem : bytes) (sc : script) : list bytes * xerr :=
  match fuel with
  | O => ([], XTooLong)
  | S f =>
      match read_data_x (S (length rem)) rem sc with
      | DErrX e => ([], e)
      | DChunkX d rem' sc' => let '(ds, e) := read_all_x f rem' sc' in (d :: ds, e)
      end
  end.
Definition read_stream_x (s : bytes) (sc : script) : list bytes * xerr :=
  read_all_x (S (length s)) s sc.

(* the relabelling: what the EOF-reader's error becomes when the reader fails instead *)
Definition xmap (e : rerr) : xerr := match e with TooLong => XTooLong | _ => XIo end.
