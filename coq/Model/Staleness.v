(* Staleness.v — the staleness watchdog of a client-side WebRTC peer (client/lib/webrtc.go), over an explicit clock.
   Executable definitions only (proofs: Proofs/StalenessProofs.v).

     connect():            ... wait for the data channel to open ...; go c.checkForStaleness(SnowflakeTimeout)
     checkForStaleness(d): c.lastReceive = now
                           loop: if now - c.lastReceive > d { c.Close(); return }; wait 1 s (or until closed)
     OnMessage:            c.lastReceive = now

   Events carry the reading of the clock (any unit) at which they happen:
     WOpen t   the data channel opened and connect() started the watchdog
     WRecv t   a message arrived from the proxy
     WTick t   one turn of the watchdog's loop
   [w_step] is the code; [w_step_lazy] is the variant in which the watchdog is started by the first received
   message instead (the shape of seeded change C01-m7), kept for the refutation only.
   NOT tied by extraction: where the watchdog is started is decided inside connect()/pion callbacks; its tie to the
   code is the whole-system rig (lib/checks/c01.py, scenarios silent-at-open / silent-replacement). *)
From Coq Require Import List NArith Bool.
Import ListNotations.
Open Scope N_scope.

Inductive wev := WOpen (t : N) | WRecv (t : N) | WTick (t : N).

Record wst := { w_armed : bool; w_last : N; w_closed : bool }.
Definition w_init : wst := {| w_armed := false; w_last := 0; w_closed := false |}.

Definition w_tick (timeout : N) (s : wst) (t : N) : wst :=
  if w_armed s && (timeout <? t - w_last s)
  then {| w_armed := w_armed s; w_last := w_last s; w_closed := true |}
  else s.

Definition w_step (timeout : N) (s : wst) (e : wev) : wst :=
  if w_closed s then s else
  match e with
  | WOpen t => {| w_armed := true; w_last := t; w_closed := false |}
  | WRecv t => {| w_armed := w_armed s; w_last := t; w_closed := false |}
  | WTick t => w_tick timeout s t
  end.

Definition w_step_lazy (timeout : N) (s : wst) (e : wev) : wst :=
  if w_closed s then s else
  match e with
  | WOpen t => s
  | WRecv t => {| w_armed := true; w_last := t; w_closed := false |}
  | WTick t => w_tick timeout s t
  end.

Definition w_run (step : wst -> wev -> wst) (evs : list wev) : wst := fold_left step evs w_init.

(* every message of the trace arrived at or before T *)
Fixpoint recv_by (T : N) (evs : list wev) : bool :=
  match evs with
  | [] => true
  | WRecv t :: r => (t <=? T) && recv_by T r
  | WOpen _ :: r => false            (* one data channel per peer: it opens once *)
  | WTick _ :: r => recv_by T r
  end.

(* no turn of the watchdog finds the last message (or the opening) more than [timeout] old *)
Fixpoint fresh (timeout last : N) (evs : list wev) : bool :=
  match evs with
  | [] => true
  | WRecv t :: r => fresh timeout t r
  | WOpen t :: r => fresh timeout t r
  | WTick t :: r => (t - last <=? timeout) && fresh timeout last r
  end.
