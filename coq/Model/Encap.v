(* Encap.v — executable model of common/encapsulation/encapsulation.go.
   Executable definitions only (proofs are in Proofs/EncapProofs.v). *)
From Coq Require Import List NArith Bool Arith.
From Snow Require Import Lib.Wire.
Import ListNotations.
Open Scope N_scope.

(* ---------- writer side ---------- *)

(* dataPrefixForLength *)
Definition prefix_for (n : N) : option bytes :=
  if N.land n 63 =? n then
    Some [N.lor 128 (N.land n 63)]
  else if N.land (N.shiftr n 7) 63 =? N.shiftr n 7 then
    Some [N.lor 192 (N.land (N.shiftr n 7) 63); N.land n 127]
  else if N.land (N.shiftr n 14) 63 =? N.shiftr n 14 then
    Some [N.lor 192 (N.land (N.shiftr n 14) 63);
          N.lor 128 (N.land (N.shiftr n 7) 127);
          N.land n 127]
  else None.

Definition blen (l : bytes) : N := N.of_nat (length l).

(* WriteData into a buffer: None = ErrTooLong (nothing written) *)
Definition write_data (d : bytes) : option bytes :=
  match prefix_for (blen d) with
  | Some p => Some (p ++ d)
  | None => None
  end.

Definition zeros (n : N) : bytes := repeat 0 (N.to_nat n).

(* one iteration of the WritePadding loop for p = min(1024, n), p >= 1.
   The third switch case keeps the code's 0x3f mask on the middle byte. *)
Definition padding_chunk (p : N) : bytes :=
  if N.land (p - 1) 63 =? (p - 1) then
    [N.land (p - 1) 63] ++ zeros (p - 1)
  else if N.land (N.shiftr (p - 2) 7) 63 =? N.shiftr (p - 2) 7 then
    [N.lor 64 (N.land (N.shiftr (p - 2) 7) 63); N.land (p - 2) 127] ++ zeros (p - 2)
  else if N.land (N.shiftr (p - 3) 14) 63 =? N.shiftr (p - 3) 14 then
    [N.lor 64 (N.land (N.shiftr (p - 3) 14) 63);
     N.lor 128 (N.land (N.shiftr (p - 3) 7) 63);
     N.land (p - 3) 127] ++ zeros (p - 3)
  else zeros p (* unreachable for p <= 1024: empty prefix, p buffer bytes *).

Definition PADBUF : N := 1024.

Fixpoint write_padding_fuel (fuel : nat) (n : N) : bytes :=
  match fuel with
  | O => []
  | S f =>
      if n =? 0 then []
      else let p := N.min PADBUF n in
           padding_chunk p ++ write_padding_fuel f (n - p)
  end.
Definition write_padding (n : N) : bytes :=
  write_padding_fuel (S (N.to_nat (n / PADBUF))) n.

(* MaxDataForSize; n = 0 panics in the code and is excluded by callers *)
Definition max_data_for_size (n : N) : N :=
  match prefix_for n with
  | None => 1048575 - 3
  | Some p => n - blen p
  end.

(* a stream of items *)
Inductive item := Data (d : bytes) | Pad (n : N).

Fixpoint encode_items (l : list item) : option bytes :=
  match l with
  | [] => Some []
  | Data d :: l' =>
      match write_data d, encode_items l' with
      | Some a, Some b => Some (a ++ b)
      | _, _ => None
      end
  | Pad n :: l' =>
      match encode_items l' with
      | Some b => Some (write_padding n ++ b)
      | None => None
      end
  end.

Fixpoint datas (l : list item) : list bytes :=
  match l with
  | [] => []
  | Data d :: l' => d :: datas l'
  | Pad _ :: l' => datas l'
  end.

(* ---------- reader side ---------- *)

Inductive rerr := EOF | UnexpectedEOF | TooLong.

(* An io.Reader over a fixed byte string whose behaviour is chosen by a script:
   each Read call consumes one script entry (m, fl): it returns at most m bytes
   (m = 0 gives the permitted (0, nil) read); if that exhausts the stream and fl
   is set, EOF is returned together with the bytes.  When the script is
   exhausted every Read returns as much as was asked.  A Read on an exhausted
   stream returns (0, EOF). *)
Definition script := list (nat * bool).

Inductive rres :=
| ROk (got rest : bytes) (sc : script)
| RErr (e : rerr).

(* io.ReadFull(r, buf) for len(buf) = n, at the granularity of Read calls;
   [acc] = bytes already read by this ReadFull. *)
Fixpoint read_full (sc : script) (n : nat) (acc rem : bytes) : rres :=
  match n with
  | O => ROk acc rem sc
  | S _ =>
      match rem with
      | [] => RErr (match acc with [] => EOF | _ => UnexpectedEOF end)
      | _ :: _ =>
          match sc with
          | [] =>
              let got := firstn n rem in
              if (length got <? n)%nat then RErr UnexpectedEOF
              else ROk (acc ++ got) (skipn n rem) []
          | (m, fl) :: sc' =>
              let t := Nat.min m n in
              let got := firstn t rem in
              let rem' := skipn t rem in
              let n' := (n - length got)%nat in
              match n' with
              | O => ROk (acc ++ got) rem' sc'
              | S _ =>
                  match rem' with
                  | [] => if fl
                          then RErr (match acc ++ got with [] => EOF | _ => UnexpectedEOF end)
                          else read_full sc' n' (acc ++ got) rem'
                  | _ => read_full sc' n' (acc ++ got) rem'
                  end
              end
          end
      end
  end.

Definition map_eof (e : rerr) : rerr :=
  match e with EOF => UnexpectedEOF | _ => e end.

Inductive dres :=
| DChunk (d : bytes) (rest : bytes) (sc : script)
| DErr (e : rerr).

(* the continuation bytes of a length prefix: i = number already read after the first *)
Fixpoint read_len (k : nat) (i : nat) (more : bool) (n : N) (rem : bytes) (sc : script)
  : option (N * bytes * script) + rerr :=
  if more then
    match k with
    | O => inr TooLong
    | S k' =>
        if (2 <=? i)%nat then inr TooLong
        else match read_full sc 1 [] rem with
             | RErr e => inr (map_eof e)
             | ROk [b] rem' sc' =>
                 read_len k' (S i) (negb (N.land b 128 =? 0)) (N.lor (N.shiftl n 7) (N.land b 127)) rem' sc'
             | ROk _ _ _ => inr TooLong (* impossible: ReadFull of 1 byte returns 1 byte *)
             end
    end
  else inl (Some (n, rem, sc)).

(* ReadData after the fix (prefix bytes read with io.ReadFull).  fuel bounds the
   number of padding chunks skipped. *)
Fixpoint read_data (fuel : nat) (rem : bytes) (sc : script) : dres :=
  match fuel with
  | O => DErr TooLong (* out of fuel: excluded by fuel > length rem *)
  | S f =>
      match read_full sc 1 [] rem with
      | RErr e => DErr e (* the only place a real EOF is returned *)
      | ROk [b] rem1 sc1 =>
          let isdata := negb (N.land b 128 =? 0) in
          let more := negb (N.land b 64 =? 0) in
          match read_len 3 0 more (N.land b 63) rem1 sc1 with
          | inr e => DErr e
          | inl None => DErr TooLong
          | inl (Some (n, rem2, sc2)) =>
              match read_full sc2 (N.to_nat n) [] rem2 with
              | RErr e => DErr (map_eof e)
              | ROk p rem3 sc3 =>
                  if isdata then DChunk p rem3 sc3 else read_data f rem3 sc3
              end
          end
      | ROk _ _ _ => DErr TooLong
      end
  end.

Fixpoint read_all (fuel : nat) (rem : bytes) (sc : script) : list bytes * rerr :=
  match fuel with
  | O => ([], TooLong)
  | S f =>
      match read_data (S (length rem)) rem sc with
      | DErr e => ([], e)
      | DChunk d rem' sc' => let '(ds, e) := read_all f rem' sc' in (d :: ds, e)
      end
  end.
Definition read_stream (s : bytes) (sc : script) : list bytes * rerr :=
  read_all (S (length s)) s sc.

(* ---------- the pinned (pre-fix) reader: one r.Read per prefix byte, n ignored ---------- *)

(* one Read into a 1-byte buffer [cur] (the previous content of b[0]);
   returns new b[0], whether err <> nil (EOF), rest, script *)
Definition read1_v0 (cur : N) (rem : bytes) (sc : script) : N * bool * bytes * script :=
  match rem with
  | [] => (cur, true, rem, match sc with [] => [] | _ :: sc' => sc' end)
  | b :: rem' =>
      match sc with
      | [] => (b, false, rem', [])
      | (O, _) :: sc' => (cur, false, rem, sc')
      | (S _, fl) :: sc' => (b, match rem' with [] => fl | _ => false end, rem', sc')
      end
  end.

Fixpoint read_len_v0 (k i : nat) (more : bool) (cur n : N) (rem : bytes) (sc : script)
  : option (N * bytes * script) + rerr :=
  if more then
    match k with
    | O => inr TooLong
    | S k' =>
        if (2 <=? i)%nat then inr TooLong
        else let '(b, e, rem', sc') := read1_v0 cur rem sc in
             if e then inr UnexpectedEOF
             else read_len_v0 k' (S i) (negb (N.land b 128 =? 0)) b
                              (N.lor (N.shiftl n 7) (N.land b 127)) rem' sc'
    end
  else inl (Some (n, rem, sc)).

Fixpoint read_data_v0 (fuel : nat) (rem : bytes) (sc : script) : dres :=
  match fuel with
  | O => DErr TooLong
  | S f =>
      let '(b, e, rem1, sc1) := read1_v0 0 rem sc in
      if e then DErr EOF
      else
        let isdata := negb (N.land b 128 =? 0) in
        let more := negb (N.land b 64 =? 0) in
        match read_len_v0 3 0 more b (N.land b 63) rem1 sc1 with
        | inr e => DErr e
        | inl None => DErr TooLong
        | inl (Some (n, rem2, sc2)) =>
            match read_full sc2 (N.to_nat n) [] rem2 with
            | RErr e => DErr (map_eof e)
            | ROk p rem3 sc3 =>
                if isdata then DChunk p rem3 sc3 else read_data_v0 f rem3 sc3
            end
        end
  end.

Fixpoint read_all_v0 (fuel : nat) (rem : bytes) (sc : script) : list bytes * rerr :=
  match fuel with
  | O => ([], TooLong)
  | S f =>
      match read_data_v0 (S (length rem + length sc)) rem sc with
      | DErr e => ([], e)
      | DChunk d rem' sc' => let '(ds, e) := read_all_v0 f rem' sc' in (d :: ds, e)
      end
  end.
Definition read_stream_v0 (s : bytes) (sc : script) : list bytes * rerr :=
  read_all_v0 (S (length s + length sc)) s sc.

(* ---------- script-free specification of the decoder ---------- *)

Inductive pres :=
| PChunk (isdata : bool) (d rest : bytes)
| PEnd            (* no byte left: clean end *)
| PShort          (* ends inside a prefix or a body *)
| PLong.          (* a third prefix byte has its continuation bit set *)

Definition take_body (isdata : bool) (n : N) (s : bytes) : pres :=
  if (length s <? N.to_nat n)%nat then PShort
  else PChunk isdata (firstn (N.to_nat n) s) (skipn (N.to_nat n) s).

Definition parse_one (s : bytes) : pres :=
  match s with
  | [] => PEnd
  | b0 :: s1 =>
      let isdata := negb (N.land b0 128 =? 0) in
      let v0 := N.land b0 63 in
      if N.land b0 64 =? 0 then take_body isdata v0 s1
      else match s1 with
           | [] => PShort
           | b1 :: s2 =>
               let v1 := N.lor (N.shiftl v0 7) (N.land b1 127) in
               if N.land b1 128 =? 0 then take_body isdata v1 s2
               else match s2 with
                    | [] => PShort
                    | b2 :: s3 =>
                        let v2 := N.lor (N.shiftl v1 7) (N.land b2 127) in
                        if N.land b2 128 =? 0 then take_body isdata v2 s3
                        else PLong
                    end
           end
  end.

Fixpoint parse_stream (fuel : nat) (s : bytes) : list bytes * rerr :=
  match fuel with
  | O => ([], TooLong)
  | S f =>
      match parse_one s with
      | PEnd => ([], EOF)
      | PShort => ([], UnexpectedEOF)
      | PLong => ([], TooLong)
      | PChunk isdata d rest =>
          let '(ds, e) := parse_stream f rest in
          if isdata then (d :: ds, e) else (ds, e)
      end
  end.
Definition decode_stream (s : bytes) : list bytes * rerr := parse_stream (S (length s)) s.
