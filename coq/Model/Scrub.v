(* Scrub.v — model of common/safelog: Scrub and LogScrubber.Write.
   Executable definitions only.

   scrub_v0 / write_v0 : the pinned algorithm (common/safelog/log.go at the pinned commit):
       Scrub  = for each full pattern: ReplaceAllFunc over the non-overlapping leftmost-first
                matches of the full pattern; inside every match ReplaceAll of the address pattern.
       Write  = append to the buffer; if the buffer contains '\n', scrub everything up to the LAST
                '\n' in one Scrub call and emit it.
   scrub / write       : the repaired algorithm (proposed-fixes/C07-*.diff):
       Scrub  = for each full pattern: loop FindSubmatchIndex on the rest of the text, replace
                capture group 1 (the address, without the delimiters) and resume right after it.
       Write  = every complete line is scrubbed and emitted on its own. *)
From Coq Require Import List NArith Bool Arith.
From Snow Require Import Lib.Wire Model.Regex.
Import ListNotations.
Open Scope N_scope.

Definition NL : N := 10.
Definition scrubbed : bytes := [91; 115; 99; 114; 117; 98; 98; 101; 100; 93].   (* "[scrubbed]" *)

(* ------------------------------------------------------------------ pinned Scrub *)

(* regexp.ReplaceAllFunc: s is the rest of the text, starting at absolute position pos;
   matching resumes at the end of the previous match, anchors refer to the whole text. *)
Fixpoint replace_all (fuel : nat) (r : re) (f : bytes -> bytes) (s : bytes) (pos : nat) : bytes :=
  match fuel with
  | O => s
  | S fuel' =>
      match search r s pos with
      | None => s
      | Some (st, en, _) =>
          let pre := firstn (st - pos) s in
          let m := firstn (en - st) (skipn (st - pos) s) in
          let rest := skipn (en - pos) s in
          if Nat.eqb en st then
            (* empty match: copy one symbol and go on (not reachable with the safelog patterns) *)
            match rest with
            | [] => pre ++ f m
            | c :: rest' => pre ++ f m ++ c :: replace_all fuel' r f rest' (S en)
            end
          else pre ++ f m ++ replace_all fuel' r f rest en
      end
  end.

Definition scrub_v0_with (addr : re) (full : re) (b : bytes) : bytes :=
  replace_all (S (length b)) full
    (fun m => replace_all (S (length m)) addr (fun _ => scrubbed) m 0) b 0.

Definition scrub_v0 (addr : re) (fulls : list re) (b : bytes) : bytes :=
  fold_left (fun acc full => scrub_v0_with addr full acc) fulls b.

(* ------------------------------------------------------------------ repaired Scrub *)

(* One pattern.  Each round searches the rest of the text as a fresh slice (so ^ also matches
   at the resumption point, as in the Go code).  Group 1 not set, or set to the empty span at 0,
   cannot happen with a pattern whose group 1 is mandatory and not nullable (Go would panic /
   not terminate); the model stops there. *)
Fixpoint scrub_loop (fuel : nat) (full : re) (s : bytes) : bytes :=
  match fuel with
  | O => s
  | S fuel' =>
      match search full s 0 with
      | None => s
      | Some (_, _, cs) =>
          match cap_lookup 1 cs with
          | None => s
          | Some (gs, ge) =>
              match ge with
              | O => s
              | S _ => firstn gs s ++ scrubbed ++ scrub_loop fuel' full (skipn ge s)
              end
          end
      end
  end.

Definition scrub1 (full : re) (b : bytes) : bytes := scrub_loop (S (length b)) full b.

Definition scrub (fulls : list re) (b : bytes) : bytes :=
  fold_left (fun acc full => scrub1 full acc) fulls b.

(* ------------------------------------------------------------------ lines *)

(* (complete lines, each ending with NL; rest without NL) *)
Fixpoint split_lines (s : bytes) : list bytes * bytes :=
  match s with
  | [] => ([], [])
  | c :: s' =>
      let (ls, r) := split_lines s' in
      if c =? NL then ([c] :: ls, r)
      else match ls with
           | [] => ([], c :: r)
           | l :: ls' => ((c :: l) :: ls', r)
           end
  end.

Fixpoint last_index_nl (s : bytes) (i : nat) (acc : option nat) : option nat :=
  match s with
  | [] => acc
  | c :: s' => last_index_nl s' (S i) (if c =? NL then Some i else acc)
  end.

(* ------------------------------------------------------------------ LogScrubber.Write *)

(* state = the buffer (pending bytes); a Write returns the blocks handed to the sink *)
Definition write_v0 (sc : bytes -> bytes) (buf b : bytes) : list bytes * bytes :=
  let buf' := buf ++ b in
  match last_index_nl buf' 0 None with
  | None => ([], buf')
  | Some i => ([sc (firstn (S i) buf')], skipn (S i) buf')
  end.

Definition write (sc : bytes -> bytes) (buf b : bytes) : list bytes * bytes :=
  let (ls, r) := split_lines (buf ++ b) in (map sc ls, r).

Fixpoint run_writes (w : bytes -> bytes -> list bytes * bytes) (buf : bytes) (ws : list bytes)
  : list bytes * bytes :=
  match ws with
  | [] => ([], buf)
  | b :: ws' =>
      let (o, buf') := w buf b in
      let (os, bufn) := run_writes w buf' ws' in
      (o ++ os, bufn)
  end.

Definition ends_nl (b : bytes) : bool :=
  match rev b with c :: _ => c =? NL | [] => false end.

(* ------------------------------------------------------------------ specifications *)

Definition dig : re := Cls [(48, 57)].
Definition hexd : re := Cls [(48, 57); (65, 70); (97, 102)].
Definition chr (c : N) : re := Cls [(c, c)].
Definition colon : re := chr 58.
Definition dot : re := chr 46.
Definition H : re := Rep hexd 1 4.                        (* one hex group *)
Definition Hc : re := Seq H colon.                        (* "h:" *)
Definition cH : re := Seq colon H.                        (* ":h" *)
Definition octet : re := Rep dig 1 3.
Definition V4 : re := Seq octet (Seq dot (Seq octet (Seq dot (Seq octet (Seq dot octet))))).
Definition opt (r : re) : re := Rep r 0 1.
Definition times (r : re) (n : nat) : re := Rep r n n.
Definition upto (r : re) (n : nat) : re := Rep r 0 n.

(* i groups before "::", at most k after, k = 7 - i (the "::" stands for at least one group) *)
Definition groups (i : nat) : re :=                       (* exactly i groups h:h:...:h *)
  match i with O => Eps | S j => Seq H (times cH j) end.
Definition groups_upto (k : nat) : re :=                  (* 0..k groups *)
  match k with O => Eps | S j => opt (Seq H (upto cH j)) end.
Definition compressed_at (i : nat) : re :=
  Seq (groups i) (Seq colon (Seq colon (groups_upto (7 - i)))).
(* IPv4 tail after "::": i groups before, at most 5 - i groups "h:" after, then the dotted quad *)
Definition compressed_v4_at (i : nat) : re :=
  Seq (groups i) (Seq colon (Seq colon (Seq (upto Hc (5 - i)) V4))).

Fixpoint alts (l : list re) : re :=
  match l with [] => Emp | [x] => x | x :: t => Alt x (alts t) end.

Definition ip6_spec : re :=
  alts ([ Seq (times Hc 7) H                               (* h:h:h:h:h:h:h:h *)
        ; Seq (times Hc 6) V4 ]                            (* h:h:h:h:h:h:d.d.d.d *)
        ++ map compressed_at (seq 0 8)                     (* every "::" placement, <= 7 groups *)
        ++ map compressed_v4_at (seq 0 6)).                (* "::" with an IPv4 tail, <= 5 groups *)

Definition port_spec : re := Seq colon (Rep dig 1 5).

(* every textual form net.IP.String / net.TCPAddr.String print and net.ParseIP /
   net.SplitHostPort accept (a superset: octets and ports are not range checked) *)
Definition addr_spec : re :=
  alts [ V4; Seq V4 port_spec;
         ip6_spec;
         Seq (chr 91) (Seq ip6_spec (chr 93));
         Seq (chr 91) (Seq ip6_spec (Seq (chr 93) port_spec)) ].

(* a delimiter byte: whitespace, or any byte that is not a word character [0-9A-Za-z_] and not ':' *)
Definition delim_cls : cls := [(0, 47); (59, 64); (91, 94); (96, 96); (123, 255)].
Definition delim_spec : re := Cls delim_cls.
Definition is_delim (c : N) : bool := in_cls c delim_cls.

(* ------------------------------------------------------------------ classes of addr_spec used by the coverage proof *)

Definition v4forms : re := Alt V4 (Seq V4 port_spec).             (* d.d.d.d  and  d.d.d.d:port *)
Definition ip6_nodot : re :=                                       (* bare IPv6 without a dotted tail *)
  alts ([Seq (times Hc 7) H] ++ map compressed_at (seq 0 8)).
Definition bare_v4tail : re :=                                     (* bare IPv6 with a dotted tail *)
  alts ([Seq (times Hc 6) V4] ++ map compressed_v4_at (seq 0 6)).
Definition bracketed : re :=
  Alt (Seq (chr 91) (Seq ip6_spec (chr 93))) (Seq (chr 91) (Seq ip6_spec (Seq (chr 93) port_spec))).
Definition rest_spec : re := alts [v4forms; ip6_nodot; bracketed].  (* addr_spec = rest_spec + bare_v4tail *)
Definition nonv4_spec : re := Alt ip6_spec bracketed.               (* addr_spec = v4forms + nonv4_spec *)

Definition ws_cls : cls := [(9, 10); (12, 13); (32, 32)].           (* Go's \s *)
Definition ws_spec : re := Cls ws_cls.
Definition is_ws (c : N) : bool := in_cls c ws_cls.
(* what may follow the address inside a match: one delimiter byte, or ':' and a whitespace byte *)
Definition right_spec : re := Alt delim_spec (Seq colon ws_spec).
Definition delim_nodot_cls : cls := [(0, 45); (47, 47); (59, 64); (91, 94); (96, 96); (123, 255)].
Definition dot_cls : cls := [(46, 46)].
Definition nondigit_cls : cls := [(0, 47); (58, 255)].

(* ------------------------------------------------------------------ common/event: the String() of the events that carry an error *)

(* EventOnOfferCreated (0), EventOnBrokerRendezvous (1), EventOnSnowflakeConnectionFailed (other):
   fmt.Sprintf("<fixed text> %s", safelog.Scrub([]byte(e.Error.Error()))) *)
Definition event_prefix (ty : N) : bytes :=
  match ty with
  | 0 => [111;102;102;101;114;32;99;114;101;97;116;105;111;110;32;102;97;105;108;117;114;101;32]  (* "offer creation failure " *)
  | 1 => [98;114;111;107;101;114;32;102;97;105;108;117;114;101;32]                                 (* "broker failure " *)
  | _ => [116;114;121;105;110;103;32;97;32;110;101;119;32;112;114;111;120;121;58;32]              (* "trying a new proxy: " *)
  end.

Definition event_string (fulls : list re) (ty : N) (err : bytes) : bytes :=
  event_prefix ty ++ scrub fulls err.
