(* ProxySession.v — small-step model of the session-slot accounting of the Snowflake proxy
   (proxy/lib/snowflake.go: Start loop, runSession, pollOffer, makePeerConnectionFromOffer's
   OnDataChannel callback, datachannelHandler; proxy/lib/tokens.go).

   Threads.  The Start loop is ONE goroutine ("main"): tokens.get(); runSession(sid) is called
   synchronously, so at most one session is being negotiated at any time; every session whose data
   channel opened is served by its own handler goroutine (go handler(conn, ...)), which keeps the
   slot until datachannelHandler returns (defer tokens.ret()).

   Every tokens.ret() in the code is a transition here:
     runSession  "bad offer from broker" (pollOffer returned nil)        LPollNil / LPollShutdown
                 "bad Relay URL" / "rejected Relay URL"                  LRelayBad
                 "error making WebRTC connection"                        LPcFail
                 "error sending answer" (pc.Close(); tokens.ret())       LAnswerFail; LGiveUp; LClose
                 select timeout (pc.Close(); tokens.ret())               LSelectTimeout; LGiveUp; LClose
     datachannelHandler  defer tokens.ret():
                 "error dialing relay" - the relay answers the dial with a failure          LH i HDialFail
                 "error dialing relay" - the relay does not answer at all and the 45 s
                                         HandshakeTimeout of websocket.DefaultDialer fires   LH i HDialTimer
                 copyLoop returns (normal end, shutdown)                                     LH i HEnd
   each followed by the second half of ret (channel receive): LMainRecv / LH i HRecv.

   The relay dial.  datachannelHandler first dials the relay (websocket.DefaultDialer.Dial): handler stage HDial.
   What the relay does is the environment's choice: it completes the WebSocket handshake (LH i HDialOk, the handler
   goes on to copyLoop: HRun), it fails it (refuses the connection, resets it, closes it, answers with an HTTP
   error: LH i HDialFail), or it accepts the connection and never answers - then NOTHING comes from the relay, and
   the only step left to the handler is its own timer, LH i HDialTimer, which is always enabled at HDial (like the
   20 s timer of the select in runSession: LSelectTimeout).  The dial does not watch the shutdown channel.

   The data channel of the session under negotiation can open (OnDataChannel: close(dataChan);
   go handler) from the moment the answer is handed to the broker until pc.Close() has been called:
   stages MAnswer (sendAnswer in flight: the broker may have forwarded the answer although the proxy
   later sees an error), MSelect, MGiveUp and MClosing.  The select between <-dataChan and the
   20 s timer is nondeterministic: LSelectTimeout is enabled whether or not dataChan is closed.
   One data channel per peer connection is assumed (a second OnDataChannel is outside the model).

   Versions.  V0 = the pinned code: the give-up paths of runSession release unconditionally and
   the handler releases unconditionally.  V1 = the repaired code (proposed-fixes/C16-*.diff):
   a per-session owner word decided once by compare-and-swap; runSession gives up (pc.Close,
   tokens.ret) only if the handler has not claimed the session, the handler serves (and later
   releases) only if runSession has not given up.  The two step functions differ in LGiveUp and
   LH _ HClaim only.

   Ghost state: per session mrel/hrel (ret called by runSession / by the handler), own; polls
   (reported load, slots in use at that moment); gets (completed tokens.get()).
   Definitions only (no proofs). *)
From Coq Require Import List ZArith Arith Bool.
From Snow Require Import Model.Tokens.
Import ListNotations.
Local Open Scope nat_scope.

Inductive version := V0 | V1.
Inductive owner := ONone | OMain | OHandler.
Inductive hpc := HNone | HStart | HDial | HRun | HRetRecv | HDone.
Inductive mpc := MTop | MGetSend | MPoll | MRelay | MMakePC | MAnswer | MSelect | MGiveUp | MClosing
               | MRetRecv | MStopped.

Record sess := mkSess { hp : hpc; dc : bool; own : owner; mrel : bool; hrel : bool }.
Definition new_sess : sess := mkSess HNone false ONone false false.

(* number of tokens.ret() calls made for the session *)
Definition released (c : sess) : nat := (if mrel c then 1 else 0) + (if hrel c then 1 else 0).
Definition holds (c : sess) : nat := if mrel c || hrel c then 0 else 1.

Record state := mkSt {
  tok : tokens;
  mn : mpc;
  bg : list sess;            (* sessions runSession has returned from, oldest first; id = position *)
  cur : option sess;         (* the session runSession is in; its id is length bg *)
  polls : list (Z * nat);    (* ghost: (Clients figure sent, slots in use when it was computed) *)
  gets : nat                 (* ghost: completed tokens.get() calls *)
}.

Definition init (capacity : nat) : state := mkSt (new_tokens capacity) MTop [] None [] 0.

Definition sessions (st : state) : list sess :=
  bg st ++ match cur st with Some c => [c] | None => [] end.

Fixpoint sum (l : list nat) : nat := match l with [] => 0 | x :: l' => x + sum l' end.

(* slots in use = sessions for which get completed and ret has not been called *)
Definition in_use (st : state) : nat := sum (map holds (sessions st)).

Inductive hact := HClaim | HDialOk | HDialFail | HDialTimer | HEnd | HRecv.

Inductive label :=
| LGet | LGetSend | LStop
| LPollNoMatch | LPollNil | LPollShutdown | LPollOffer
| LRelayBad | LRelayOk
| LPcFail | LPcOk
| LAnswerFail | LAnswerOk
| LSelectOpen | LSelectTimeout
| LGiveUp | LClose | LMainRecv
| LDcOpen
| LH (i : nat) (a : hact).

Definition set_tok (st : state) (t : tokens) := mkSt t (mn st) (bg st) (cur st) (polls st) (gets st).
Definition set_mn (st : state) (m : mpc) := mkSt (tok st) m (bg st) (cur st) (polls st) (gets st).
Definition set_cur (st : state) (c : sess) := mkSt (tok st) (mn st) (bg st) (Some c) (polls st) (gets st).
Definition set_bg (st : state) (b : list sess) := mkSt (tok st) (mn st) b (cur st) (polls st) (gets st).

(* runSession returns: the session goes to the background list, main is back at the loop head *)
Definition finish (st : state) : state :=
  mkSt (tok st) MTop (bg st ++ match cur st with Some c => [c] | None => [] end) None (polls st) (gets st).

Definition record_poll (st : state) : state :=
  mkSt (tok st) (mn st) (bg st) (cur st) (polls st ++ [(reported (tok st), in_use st)]) (gets st).

(* tokens.ret() called by runSession, first half *)
Definition main_ret (st : state) : option state :=
  match cur st with
  | Some c => Some (mkSt (tok_dec (tok st)) MRetRecv (bg st)
                         (Some (mkSess (hp c) (dc c) OMain true (hrel c))) (polls st) (gets st))
  | None => None
  end.

Fixpoint upd {A} (i : nat) (f : A -> A) (l : list A) : list A :=
  match l, i with
  | [], _ => []
  | x :: l', O => f x :: l'
  | x :: l', S k => x :: upd k f l'
  end.

(* one step of the handler goroutine of a session *)
Definition hstep (v : version) (a : hact) (t : tokens) (c : sess) : option (sess * tokens) :=
  match a, hp c with
  | HClaim, HStart =>
      match v, own c with
      | V1, OMain => Some (mkSess HDone (dc c) (own c) (mrel c) (hrel c), t)
      | _, _ => Some (mkSess HDial (dc c) OHandler (mrel c) (hrel c), t)
      end
  | HDialOk, HDial => Some (mkSess HRun (dc c) (own c) (mrel c) (hrel c), t)
  | HDialFail, HDial => Some (mkSess HRetRecv (dc c) (own c) (mrel c) true, tok_dec t)
  | HDialTimer, HDial => Some (mkSess HRetRecv (dc c) (own c) (mrel c) true, tok_dec t)
  | HEnd, HRun => Some (mkSess HRetRecv (dc c) (own c) (mrel c) true, tok_dec t)
  | HRecv, HRetRecv =>
      if recv_ready t then Some (mkSess HDone (dc c) (own c) (mrel c) (hrel c), tok_recv t) else None
  | _, _ => None
  end.

Definition dc_stage (m : mpc) : bool :=
  match m with MAnswer | MSelect | MGiveUp | MClosing => true | _ => false end.

Definition step (v : version) (st : state) (l : label) : option state :=
  match l with
  | LH i a =>
      match nth_error (bg st) i with
      | Some c =>
          match hstep v a (tok st) c with
          | Some (c', t') => Some (set_tok (set_bg st (upd i (fun _ => c') (bg st))) t')
          | None => None
          end
      | None =>
          if (i =? length (bg st))%nat then
            match cur st with
            | Some c =>
                match hstep v a (tok st) c with
                | Some (c', t') => Some (set_tok (set_cur st c') t')
                | None => None
                end
            | None => None
            end
          else None
      end
  | LDcOpen =>
      match cur st with
      | Some c => if dc_stage (mn st) && negb (dc c)
                  then Some (set_cur st (mkSess HStart true (own c) (mrel c) (hrel c))) else None
      | None => None
      end
  | _ =>
    match l, mn st with
    | LGet, MTop => Some (set_mn (set_tok st (tok_inc (tok st))) MGetSend)
    | LStop, MTop => Some (set_mn st MStopped)
    | LGetSend, MGetSend =>
        if send_ready (tok st)
        then Some (mkSt (tok_send (tok st)) MPoll (bg st) (Some new_sess) (polls st) (S (gets st)))
        else None
    | LPollNoMatch, MPoll => Some (record_poll st)
    | LPollNil, MPoll => main_ret (record_poll st)
    | LPollShutdown, MPoll => main_ret st
    | LPollOffer, MPoll => Some (set_mn (record_poll st) MRelay)
    | LRelayBad, MRelay => main_ret st
    | LRelayOk, MRelay => Some (set_mn st MMakePC)
    | LPcFail, MMakePC => main_ret st
    | LPcOk, MMakePC => Some (set_mn st MAnswer)
    | LAnswerFail, MAnswer => Some (set_mn st MGiveUp)
    | LAnswerOk, MAnswer => Some (set_mn st MSelect)
    | LSelectOpen, MSelect =>
        match cur st with
        | Some c => if dc c then Some (finish st) else None
        | None => None
        end
    | LSelectTimeout, MSelect => Some (set_mn st MGiveUp)
    | LGiveUp, MGiveUp =>
        match cur st with
        | Some c =>
            match v, own c with
            | V1, OHandler => Some (finish st)
            | _, _ => Some (set_mn (set_cur st (mkSess (hp c) (dc c) OMain (mrel c) (hrel c))) MClosing)
            end
        | None => None
        end
    | LClose, MClosing => main_ret st
    | LMainRecv, MRetRecv =>
        if recv_ready (tok st) then Some (finish (set_tok st (tok_recv (tok st)))) else None
    | _, _ => None
    end
  end.

Fixpoint run (v : version) (st : state) (ls : list label) : option state :=
  match ls with
  | [] => Some st
  | l :: ls' => match step v st l with Some st' => run v st' ls' | None => None end
  end.

(* ---- derived notions used by the statements *)

Definition negotiating (m : mpc) : bool :=
  match m with MPoll | MRelay | MMakePC | MAnswer | MSelect | MGiveUp | MClosing => true | _ => false end.

(* clients being negotiated with by runSession or served by a handler: a background session counts
   while its handler serves (HDial: dialling the relay for it, HRun: copying); the current session counts while its handler serves, or while
   runSession is in a negotiation stage and no handler has taken the session over yet *)
Definition serving (c : sess) : bool := match hp c with HDial | HRun => true | _ => false end.
Definition handler_pending (c : sess) : bool := match hp c with HNone | HStart => true | _ => false end.
Definition n_active (st : state) : nat :=
  sum (map (fun c => if serving c then 1 else 0) (bg st)) +
  match cur st with
  | Some c => if serving c || (negotiating (mn st) && handler_pending c) then 1 else 0
  | None => 0
  end.

(* nothing is left to run for a background session *)
Definition handler_quiet (c : sess) : bool := match hp c with HNone | HDone => true | _ => false end.
Definition all_terminated (st : state) : bool :=
  match cur st with None => true | Some _ => false end && forallb handler_quiet (bg st).

(* the tie-free schedules of V0: runSession never gives up a session its handler has claimed,
   and no handler claims a session runSession has given up *)
Definition tie_step (st : state) (l : label) : bool :=
  match l with
  | LGiveUp => match cur st with Some c => match own c with OHandler => true | _ => false end | None => false end
  | LH i HClaim =>
      match nth_error (sessions st) i with
      | Some c => match own c with OMain => true | _ => false end
      | None => false
      end
  | _ => false
  end.

Fixpoint tie_free (v : version) (st : state) (ls : list label) : bool :=
  match ls with
  | [] => true
  | l :: ls' => negb (tie_step st l) &&
                match step v st l with Some st' => tie_free v st' ls' | None => true end
  end.
