(* CarrierFail.v — the carrier layer of Model/CarrierLayer.v with a FAILING downstream write as an operation.

   server/lib/http.go turbotunnelMode, write loop:
        case p, ok := <-pconn.OutgoingQueue(clientID):
            _, err := encapsulation.WriteData(bw, p); if err == nil { err = bw.Flush() }
            if err != nil { return }            -- deferred conn.Close() ends the read loop too
   CarrierLayer.sstep S_Send reaches `return` only when WriteData itself refuses the packet (too long for the length
   prefix).  Here the carrier's underlying connection fails: [F_SendFail i n] = carrier i's write loop takes the next
   packet of its ClientID off the queue, n bytes of its frame reach the wire, Write reports an error.  The packet is
   lost (KCP retransmits), the carrier is dead, and NOTHING else changes: in particular whatever buffer held the
   frame is not seen by any other carrier.  The bytes that did reach the wire are kept apart from k_wire
   ([f_tail]), so that the whole of CarrierLayer's invariants (whole frames only in k_wire) carries over unchanged.
   Executable definitions only (proofs: Proofs/CarrierFailProofs.v). *)
From Coq Require Import List NArith Bool Arith.
From Snow Require Import Lib.Wire Model.Encap Model.CarrierLayer.
Import ListNotations.

Inductive fop :=
| F_Op (o : sop)                      (* any operation of the carrier layer *)
| F_SendFail (i : nat) (n : nat).     (* carrier i's next downstream write fails after n bytes of the frame *)

Record fstate := {
  f_s : sstate;
  f_tail : list (nat * bytes)         (* (carrier, the bytes of the frame whose write failed that reached its wire) *)
}.

Definition finit : fstate := {| f_s := sinit; f_tail := [] |}.

(* the failing write: Some tail when the step happened (carrier open, a packet queued for its ClientID) *)
Definition fail_send (s : sstate) (i n : nat) : sstate * option bytes :=
  match nth_error (carriers s) i with
  | Some k =>
      match k_state k, q_lookup (k_cid k) (sendqs s) with
      | K_Open, p :: q' =>
          ({| carriers := kupd i kill (carriers s); recvq := recvq s; sendqs := q_set (k_cid k) q' (sendqs s);
              accepted := accepted s; delivered := delivered s;
              consumed := consumed s ++ [(None, k_cid k, p)] |},
           Some (match write_data p with Some w => firstn n w | None => [] end))
      | _, _ => (s, None)
      end
  | None => (s, None)
  end.

Definition fstep (s : fstate) (o : fop) : fstate :=
  match o with
  | F_Op o => {| f_s := sstep (f_s s) o; f_tail := f_tail s |}
  | F_SendFail i n =>
      let '(s', t) := fail_send (f_s s) i n in
      {| f_s := s'; f_tail := match t with Some t => f_tail s ++ [(i, t)] | None => f_tail s end |}
  end.

Definition frun (ops : list fop) : fstate := fold_left fstep ops finit.

Definition tail_of (i : nat) (tails : list (nat * bytes)) : bytes :=
  concat (map snd (filter (fun x => Nat.eqb (fst x) i) tails)).

(* everything carrier i was written, as bytes on its connection *)
Definition full_wire (s : fstate) (i : nat) (k : carrier) : bytes := k_wire k ++ tail_of i (f_tail s).
