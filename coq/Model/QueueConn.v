(* QueueConn.v — common/turbotunnel/queuepacketconn.go: QueuePacketConn over ClientMap.

   State: the bounded receive queue of (payload, addr), the client map (per-address bounded
   send queues), the closed flag.  Payloads are *values*: QueueIncoming and WriteTo copy the
   caller's slice before enqueueing, so whatever the caller does to its buffer afterwards is
   invisible; the Go driver overwrites its buffers after every call, so an implementation that
   aliased them would answer differently from this model.

   The clock is explicit: the operations that reach ClientMap.SendQueue take the value that
   time.Now() had; the periodic sweeper of NewClientMap is the operation [QSweep now].
   ReadFrom is the non-blocking view: it returns the head, an error after Close, or
   "would block" (the Go method then waits for a packet or Close).

   WriteTo is modelled as one atomic step (the Go method looks the queue up under the map's
   lock and performs the channel send after releasing it).

   Executable definitions only. *)
From Coq Require Import List NArith ZArith Bool Arith.
From Snow Require Import Model.GoHeap Model.ClientMap.
Import ListNotations.

Record qconn := mkqc {
  recvq : list (payload * N);
  clients : cmap;
  qclosed : bool
}.

Definition qc_empty : qconn := mkqc [] cm_empty false.

Inductive qop :=
| QIncoming (p : payload) (a : N)        (* QueueIncoming(p, addr) *)
| QRead (n : nat)                        (* ReadFrom(buf) with len(buf) = n *)
| QWrite (p : payload) (a : N) (now : Z) (* WriteTo(p, addr) *)
| QOutRecv (a : N) (now : Z)             (* ch := OutgoingQueue(addr); non-blocking receive on ch *)
| QHeldRecv (k : nat)                    (* non-blocking receive on a queue obtained earlier *)
| QSweep (now : Z)                       (* the sweeper goroutine's removeExpired(now, timeout) *)
| QClose.                                (* Close() *)

Inductive qout :=
| ONone                                   (* QueueIncoming / sweep: no result *)
| OIncoming (accepted : bool)             (* ghost: whether the packet was enqueued *)
| ORead (p : payload) (a : N)             (* n, addr, nil *)
| OWouldBlock
| OErrClosed                              (* an operation failed because the conn is closed *)
| OWrote (len : nat) (k : nat) (accepted : bool)   (* len(p), nil ; ghost: queue, enqueued? *)
| ORecv (k : nat) (r : rcv)
| OCloseOk.

Section Params.
  Variable cap : nat.          (* queueSize *)
  Variable timeout : Z.

  Definition qstep (s : qconn) (o : qop) : qconn * qout :=
    match o with
    | QIncoming p a =>
        if qclosed s then (s, OIncoming false)
        else if length (recvq s) <? cap
        then (mkqc (recvq s ++ [(p, a)]) (clients s) (qclosed s), OIncoming true)
        else (s, OIncoming false)
    | QRead n =>
        if qclosed s then (s, OErrClosed)
        else match recvq s with
             | [] => (s, OWouldBlock)
             | (p, a) :: q => (mkqc q (clients s) (qclosed s), ORead (firstn n p) a)
             end
    | QWrite p a now =>
        if qclosed s then (s, OErrClosed)
        else
          let '(c1, k) := send_queue a now (clients s) in
          let '(c2, ok) := q_send cap k p c1 in
          (mkqc (recvq s) c2 (qclosed s), OWrote (length p) k ok)
    | QOutRecv a now =>
        let '(c1, k) := send_queue a now (clients s) in
        let '(c2, r) := q_recv k c1 in
        (mkqc (recvq s) c2 (qclosed s), ORecv k r)
    | QHeldRecv k =>
        let '(c2, r) := q_recv k (clients s) in
        (mkqc (recvq s) c2 (qclosed s), ORecv k r)
    | QSweep now =>
        (mkqc (recvq s) (remove_expired now timeout (clients s)) (qclosed s), ONone)
    | QClose =>
        if qclosed s then (s, OErrClosed)
        else (mkqc (recvq s) (clients s) true, OCloseOk)
    end.

  Fixpoint qrun (ops : list qop) (s : qconn) : qconn * list qout :=
    match ops with
    | [] => (s, [])
    | o :: ops' =>
        let '(s1, r) := qstep s o in
        let '(s2, rs) := qrun ops' s1 in
        (s2, r :: rs)
    end.
End Params.
