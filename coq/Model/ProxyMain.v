(* ProxyMain.v — the flag -> configuration wiring of the standalone proxy: /repo/proxy/main.go followed by the
   defaulting and the configuration checks of SnowflakeProxy.Start() (/repo/proxy/lib/snowflake.go).
   Executable definitions only (proofs: Proofs/ProxyMainProofs.v).

     main():   relayURL := flag.String("relay", sf.DefaultRelayURL, ..)
               allowedRelayHostNamePattern := flag.String("allowed-relay-hostname-pattern", "snowflake.torproject.net$", ..)
               allowNonTLSRelay := flag.Bool("allow-non-tls-relay", false, ..)
               rawBrokerURL := flag.String("broker", sf.DefaultBrokerURL, ..);  stunURL := flag.String("stun", sf.DefaultSTUNURL, ..)
               capacity, keep-local-addresses, log, unsafe-logging, verbose, nat-retest-interval, summary-interval
               flag.Parse()
               proxy := sf.SnowflakeProxy{Capacity: capacity, STUNURL: stunURL, BrokerURL: rawBrokerURL,      (the flag values)
                          KeepLocalAddresses: keepLocalAddresses, RelayURL: relayURL,
                          NATTypeMeasurementInterval: .., EventDispatcher: ..,
                          RelayDomainNamePattern: allowedRelayHostNamePattern, AllowNonTLSRelay: allowNonTLSRelay}
               ... log wiring (C07) ...
               err := proxy.Start();  if err != nil { log.Fatal(err) }

     Start():  "" -> default for BrokerURL, RelayURL, STUNURL, NATProbeURL, ProxyType;
               newSignalingServer(BrokerURL) / url.Parse(STUNURL) / url.Parse(RelayURL) must succeed;
               namematcher.IsValidRule(RelayDomainNamePattern) must hold;  else the error is returned (main: log.Fatal).

   A flag that is not given has its default ([None] below); NATProbeURL and ProxyType have no flag. *)
From Coq Require Import List NArith Bool Arith String.
From Snow Require Import Lib.Wire Model.NameMatcher Model.RelayCheck Model.ProxyRelay.
Import ListNotations.
Open Scope N_scope.

Definition DEFAULT_RELAY_URL : bytes := bs "wss://snowflake.bamsoftware.com/".
Definition DEFAULT_BROKER_URL : bytes := bs "https://snowflake-broker.torproject.net/".
Definition DEFAULT_PROBE_URL : bytes := bs "https://snowflake-broker.torproject.net:8443/probe".
Definition DEFAULT_STUN_URL : bytes := bs "stun:stun.stunprotocol.org:3478".
Definition DEFAULT_PROXY_TYPE : bytes := bs "standalone".
Definition DEFAULT_RELAY_PATTERN : bytes := bs "snowflake.torproject.net$".

(* the command line of the proxy, flag by flag *)
Record proxy_flags := mk_proxy_flags {
  fl_relay : option bytes;            (* -relay *)
  fl_pattern : option bytes;          (* -allowed-relay-hostname-pattern *)
  fl_allow_non_tls : bool;            (* -allow-non-tls-relay *)
  fl_broker : option bytes;           (* -broker *)
  fl_stun : option bytes;             (* -stun *)
  fl_capacity : N;                    (* -capacity *)
  fl_keep_local : bool;               (* -keep-local-addresses *)
  fl_log : option bytes;              (* -log *)
  fl_unsafe_logging : bool;           (* -unsafe-logging *)
  fl_verbose : bool;                  (* -verbose *)
  fl_nat_retest : option bytes;       (* -nat-retest-interval *)
  fl_summary : option bytes           (* -summary-interval *)
}.

Definition flag_or (d : bytes) (o : option bytes) : bytes := match o with Some v => v | None => d end.

(* the struct literal main() builds (the fields the relay URL test and its surroundings read) *)
Definition proxy_struct_of_flags (f : proxy_flags) : proxy_conf :=
  mk_proxy_conf (flag_or DEFAULT_RELAY_URL (fl_relay f))
                (flag_or DEFAULT_RELAY_PATTERN (fl_pattern f))
                (fl_allow_non_tls f)
                (flag_or DEFAULT_BROKER_URL (fl_broker f))
                []
                (flag_or DEFAULT_STUN_URL (fl_stun f))
                [].

(* Start(): blank configurations revert to default *)
Definition or_default (d v : bytes) : bytes := if beq v [] then d else v.
Definition start_defaults (c : proxy_conf) : proxy_conf :=
  mk_proxy_conf (or_default DEFAULT_RELAY_URL (pc_relay_url c))
                (pc_pattern c)
                (pc_allow_non_tls c)
                (or_default DEFAULT_BROKER_URL (pc_broker_url c))
                (or_default DEFAULT_PROBE_URL (pc_probe_url c))
                (or_default DEFAULT_STUN_URL (pc_stun_url c))
                (or_default DEFAULT_PROXY_TYPE (pc_proxy_type c)).

(* the configuration a proxy started with these flags runs under *)
Definition proxy_config_of_flags (f : proxy_flags) : proxy_conf := start_defaults (proxy_struct_of_flags f).

(* Start() goes on to poll (true) or returns a configuration error, which main() turns into log.Fatal (false) *)
Definition parses (lib : urllib) (s : bytes) : bool :=
  match ul_parse lib s with ParseError => false | Parsed _ _ => true end.
Definition start_ok (lib : urllib) (c : proxy_conf) : bool :=
  parses lib (pc_broker_url c) && parses lib (pc_stun_url c) && parses lib (pc_relay_url c) && is_valid_rule (pc_pattern c).

(* main(): None = the process ends in log.Fatal before the first poll *)
Definition proxy_main (lib : urllib) (f : proxy_flags) : option proxy_conf :=
  let c := proxy_config_of_flags f in
  if start_ok lib c then Some c else None.

(* the life of the process: the sessions of the proxy main() started *)
Definition proxy_main_run (lib : urllib) (f : proxy_flags) (evs : list pevent) : option (pstate * list (option session_outcome)) :=
  match proxy_main lib f with
  | Some c => Some (prun lib (pinit c) evs)
  | None => None
  end.
