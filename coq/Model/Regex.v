(* Regex.v — regular expressions over bytes and an executable model of Go's regexp
   matching (leftmost-first = priority backtracking) with capture groups.
   Executable definitions only; proofs are in Proofs/RegexProofs.v.

   Symbols are bytes (N).  Go's engine works on UTF-8 runes; the translator
   (harness/overlay/zz_verif/regex2coq) only accepts classes that contain all or none of the
   non-ASCII runes, and maps "all" to the byte range 128..255, so that every byte >= 0x80 is one
   symbol of such a class (see lib/checks/c07.py for how this reading is validated). *)
From Coq Require Import List NArith Bool Arith.
From Snow Require Import Lib.Wire.
Import ListNotations.
Open Scope N_scope.

Definition cls := list (N * N).          (* union of inclusive ranges *)

Inductive re : Type :=
| Emp                                    (* matches nothing *)
| Eps                                    (* empty word *)
| Cls (rs : cls)                         (* one symbol in one of the ranges *)
| Seq (a b : re)
| Alt (a b : re)                         (* a preferred over b *)
| Star (a : re)                          (* greedy *)
| Rep (a : re) (m n : nat)               (* a{m,n}, greedy; a? = Rep a 0 1 *)
| Bol                                    (* ^ without (?m): beginning of text *)
| Eol                                    (* $ without (?m): end of text *)
| Grp (k : nat) (a : re).                (* capture group k *)

Fixpoint in_cls (c : N) (rs : cls) : bool :=
  match rs with
  | [] => false
  | (lo, hi) :: t => ((lo <=? c) && (c <=? hi)) || in_cls c t
  end.

(* capture state: most recent binding first *)
Definition caps := list (nat * (nat * nat)).

Fixpoint cap_lookup (k : nat) (cs : caps) : option (nat * nat) :=
  match cs with
  | [] => None
  | (k', se) :: t => if Nat.eqb k k' then Some se else cap_lookup k t
  end.

Definition mres := option (nat * caps).   (* end position, captures *)
Definition cont := bytes -> nat -> caps -> mres.

(* a{m,n}: up to n more iterations, at least m; greedy *)
Fixpoint rep_loop (step : bytes -> nat -> caps -> cont -> mres) (k : cont) (m n : nat)
                  (s : bytes) (pos : nat) (cs : caps) {struct n} : mres :=
  match n with
  | O => match m with O => k s pos cs | S _ => None end
  | S n' =>
      match step s pos cs (fun s' p' c' => rep_loop step k (pred m) n' s' p' c') with
      | Some x => Some x
      | None => match m with O => k s pos cs | S _ => None end
      end
  end.

(* a*: greedy; an iteration that consumes nothing is not repeated *)
Fixpoint star_loop (step : bytes -> nat -> caps -> cont -> mres) (k : cont) (fuel : nat)
                   (s : bytes) (pos : nat) (cs : caps) {struct fuel} : mres :=
  match fuel with
  | O => k s pos cs
  | S f =>
      match step s pos cs (fun s' p' c' => if Nat.eqb p' pos then None else star_loop step k f s' p' c') with
      | Some x => Some x
      | None => k s pos cs
      end
  end.

(* bt r s pos cs k: match r against a prefix of the remaining input s, which starts at
   absolute position pos of the text; alternatives are tried in priority order and the first
   one whose continuation succeeds wins. *)
Fixpoint bt (r : re) (s : bytes) (pos : nat) (cs : caps) (k : cont) {struct r} : mres :=
  match r with
  | Emp => None
  | Eps => k s pos cs
  | Cls rs =>
      match s with
      | c :: s' => if in_cls c rs then k s' (S pos) cs else None
      | [] => None
      end
  | Seq a b => bt a s pos cs (fun s' p' c' => bt b s' p' c' k)
  | Alt a b =>
      match bt a s pos cs k with
      | Some x => Some x
      | None => bt b s pos cs k
      end
  | Star a => star_loop (bt a) k (S (length s)) s pos cs
  | Rep a m n => rep_loop (bt a) k m n s pos cs
  | Bol => match pos with O => k s pos cs | S _ => None end
  | Eol => match s with [] => k s pos cs | _ :: _ => None end
  | Grp g a => bt a s pos cs (fun s' p' c' => k s' p' ((g, (pos, p')) :: c'))
  end.

Definition kdone : cont := fun _ p c => Some (p, c).

(* anchored attempt at the current position *)
Definition match_here (r : re) (s : bytes) (pos : nat) : mres := bt r s pos [] kdone.

(* unanchored search: leftmost start first; result (start, end, captures) *)
Fixpoint search (r : re) (s : bytes) (pos : nat) : option (nat * nat * caps) :=
  match match_here r s pos with
  | Some (e, c) => Some (pos, e, c)
  | None =>
      match s with
      | [] => None
      | _ :: s' => search r s' (S pos)
      end
  end.

(* whole-word acceptance by the executable matcher (used for spot checks) *)
Definition matchb (r : re) (w : bytes) : bool :=
  match bt r w 0 [] (fun s p c => match s with [] => Some (p, c) | _ => None end) with
  | Some _ => true
  | None => false
  end.
