(* Extraction of the executable model runner.  ExtrOcamlBasic only: N, Z, positive, nat
   stay Coq inductives. *)
From Coq Require Import Extraction ExtrOcamlBasic.
From Snow Require Import Gen.Dispatch.
Extraction Language OCaml.
Extraction "model.ml" Dispatch.run_line.
