(* Wire.v — byte strings as [list N], and the line protocol shared by the
   extracted model runner and the in-Coq (vm_compute) cross-check.
   Executable definitions only. *)
From Coq Require Import List NArith ZArith Ascii String Bool Arith.
From Coq Require DecimalString DecimalN Decimal.
Import ListNotations.
Open Scope N_scope.

Definition bytes := list N.

Definition bs (x : string) : bytes := map Byte.to_N (list_byte_of_string x).

Fixpoint beq (a b : bytes) : bool :=
  match a, b with
  | [], [] => true
  | x :: a', y :: b' => (x =? y) && beq a' b'
  | _, _ => false
  end.

(* split on a separator byte; always returns at least one field *)
Fixpoint split_on_aux (sep : N) (l cur : bytes) : list bytes :=
  match l with
  | [] => [List.rev' cur]
  | c :: l' => if c =? sep then List.rev' cur :: split_on_aux sep l' [] else split_on_aux sep l' (c :: cur)
  end.
Definition split_on (sep : N) (l : bytes) : list bytes := split_on_aux sep l [].

Definition SP : N := 32.
Definition COMMA : N := 44.
Definition COLON : N := 58.
Definition SEMI : N := 59.

Fixpoint join (sep : bytes) (ls : list bytes) : bytes :=
  match ls with
  | [] => []
  | [x] => x
  | x :: xs => x ++ sep ++ join sep xs
  end.

Definition hexval (c : N) : option N :=
  if (48 <=? c) && (c <=? 57) then Some (c - 48)
  else if (97 <=? c) && (c <=? 102) then Some (c - 87)
  else if (65 <=? c) && (c <=? 70) then Some (c - 55)
  else None.

Fixpoint hex_decode (l : bytes) : option bytes :=
  match l with
  | [] => Some []
  | a :: b :: l' =>
      match hexval a, hexval b, hex_decode l' with
      | Some x, Some y, Some r => Some (16 * x + y :: r)
      | _, _, _ => None
      end
  | _ => None
  end.

Definition hexdigit (n : N) : N := if n <? 10 then 48 + n else 87 + n.

Fixpoint hex_encode (l : bytes) : bytes :=
  match l with
  | [] => []
  | b :: l' => hexdigit (N.shiftr b 4) :: hexdigit (N.land b 15) :: hex_encode l'
  end.

Definition dec_print (n : N) : bytes := bs (DecimalString.NilZero.string_of_uint (N.to_uint n)).

Fixpoint dec_parse_aux (l : bytes) (acc : N) : option N :=
  match l with
  | [] => Some acc
  | c :: l' => if (48 <=? c) && (c <=? 57) then dec_parse_aux l' (10 * acc + (c - 48)) else None
  end.
Definition dec_parse (l : bytes) : option N :=
  match l with [] => None | _ => dec_parse_aux l 0 end.

Definition dec_parse_nat (l : bytes) : option nat := option_map N.to_nat (dec_parse l).

(* signed decimal, "-5" *)
Definition zdec_print (z : Z) : bytes :=
  match z with
  | Z0 => bs "0"
  | Zpos p => dec_print (Npos p)
  | Zneg p => 45 :: dec_print (Npos p)
  end.
Definition zdec_parse (l : bytes) : option Z :=
  match l with
  | 45 :: l' => option_map (fun n => Z.opp (Z.of_N n)) (dec_parse l')
  | _ => option_map Z.of_N (dec_parse l)
  end.

(* Payload spec used to keep case files small:
     x<hex>            literal bytes
     g<len>.<a>        bytes b_i = (a + i) mod 256, i < len
   The Go harness implements the same expansion. *)
Fixpoint gen_bytes (len : nat) (a : N) : bytes :=
  match len with
  | O => []
  | S k => let a := if a <? 256 then a else a mod 256 in
           a :: gen_bytes k (if a =? 255 then 0 else a + 1)
  end.

Definition DOT : N := 46.

Definition payload_parse (l : bytes) : option bytes :=
  match l with
  | 120 :: h => hex_decode h
  | 103 :: r =>
      match split_on DOT r with
      | [a; b] => match dec_parse a, dec_parse b with
                  | Some len, Some s => Some (gen_bytes (N.to_nat len) s)
                  | _, _ => None
                  end
      | _ => None
      end
  | _ => None
  end.

Fixpoint map_opt {A B} (f : A -> option B) (l : list A) : option (list B) :=
  match l with
  | [] => Some []
  | x :: l' => match f x, map_opt f l' with
               | Some y, Some r => Some (y :: r)
               | _, _ => None
               end
  end.

(* comma-separated list token; "-" denotes the empty list *)
Definition list_parse {A} (f : bytes -> option A) (l : bytes) : option (list A) :=
  if beq l (bs "-") then Some [] else map_opt f (split_on COMMA l).
Definition list_print (ls : list bytes) : bytes :=
  match ls with [] => bs "-" | _ => join [COMMA] ls end.

Definition bool_print (b : bool) : bytes := if b then bs "1" else bs "0".
Definition bool_parse (l : bytes) : option bool :=
  if beq l (bs "1") then Some true else if beq l (bs "0") then Some false else None.

Definition ERR_BADCASE : bytes := bs "!badcase".
