(* AmpPathUtil.v — small shared lemmas for the C11 proofs (byte-string equality test). *)
From Coq Require Import List NArith Bool.
From Snow Require Import Lib.Wire.
Import ListNotations.
Open Scope N_scope.

Lemma beq_refl : forall a, beq a a = true.
Proof. induction a; cbn; [reflexivity|]. rewrite N.eqb_refl. assumption. Qed.
Lemma beq_eq : forall a b, beq a b = true <-> a = b.
Proof.
  induction a as [|x a IH]; destruct b as [|y b]; cbn; split; try discriminate; auto.
  - intros H. apply andb_true_iff in H. destruct H as [H1 H2]. apply N.eqb_eq in H1. apply IH in H2. congruence.
  - intros H. inversion H; subst. rewrite N.eqb_refl. apply beq_refl.
Qed.
Lemma beq_neq : forall a b, beq a b = false <-> a <> b.
Proof.
  intros a b. split.
  - intros H E. apply beq_eq in E. congruence.
  - intros H. destruct (beq a b) eqn:E; [apply beq_eq in E; congruence|reflexivity].
Qed.
Lemma beq_nil_false : forall a, a <> [] -> beq a [] = false.
Proof. destruct a; [congruence|reflexivity]. Qed.
