(* ProxySessionProofs.v — invariants of the proxy session machine (Model/ProxySession.v) and the
   C16 lemmas.  V1 (repaired code): all schedules.  V0 (pinned code): witnesses of the double
   release, and the V1 results transferred to tie-free schedules. *)
From Coq Require Import List ZArith Arith Bool Lia.
From Snow Require Import Model.Tokens Model.ProxySession.
Import ListNotations.
Local Open Scope nat_scope.

(* ------------------------------------------------------------------ sums over sessions *)

Definition pend (c : sess) : nat := match hp c with HRetRecv => 1 | _ => 0 end.
Definition mpend (m : mpc) : nat := match m with MRetRecv => 1 | _ => 0 end.
Definition mget (m : mpc) : Z := match m with MGetSend => 1%Z | _ => 0%Z end.
Definition idle (m : mpc) : bool := match m with MTop | MGetSend | MStopped => true | _ => false end.

Definition tot (f : sess -> nat) (st : state) : nat :=
  sum (map f (bg st)) + match cur st with Some c => f c | None => 0 end.

Lemma sum_map_app : forall (f : sess -> nat) l c, sum (map f (l ++ [c])) = sum (map f l) + f c.
Proof. induction l as [|x l IH]; intros c; cbn; [lia | rewrite IH; lia]. Qed.

Lemma sum_sessions : forall f st, sum (map f (sessions st)) = tot f st.
Proof.
  intros f st. unfold sessions, tot. destruct (cur st) as [c|].
  - apply sum_map_app.
  - rewrite app_nil_r. lia.
Qed.

Lemma in_use_tot : forall st, in_use st = tot holds st.
Proof. intros. unfold in_use. apply sum_sessions. Qed.

Lemma sum_upd : forall (f : sess -> nat) l i c c',
  nth_error l i = Some c ->
  sum (map f (upd i (fun _ => c') l)) + f c = sum (map f l) + f c'.
Proof.
  induction l as [|x l IH]; intros i c c' H.
  - destruct i; discriminate.
  - destruct i as [|k]; cbn in *.
    + inversion H; subst. lia.
    + specialize (IH k c c' H). lia.
Qed.

Lemma length_upd : forall A (g : A -> A) l i, length (upd i g l) = length l.
Proof. induction l as [|x l IH]; intros [|k]; cbn; auto. Qed.

Lemma Forall_upd : forall (P : sess -> Prop) l i c',
  Forall P l -> P c' -> Forall P (upd i (fun _ => c') l).
Proof.
  induction l as [|x l IH]; intros i c' HF Hc; [destruct i; cbn; auto|].
  inversion HF; subst. destruct i; cbn; constructor; auto.
Qed.

Lemma length_sessions : forall st,
  length (sessions st) = length (bg st) + match cur st with Some _ => 1 | None => 0 end.
Proof. intros. unfold sessions. rewrite app_length. destruct (cur st); cbn; lia. Qed.

(* ------------------------------------------------------------------ per-session invariant (V1) *)

Definition is_h (h : hpc) (l : list hpc) : bool :=
  existsb (fun x => match x, h with
                    | HNone, HNone | HStart, HStart | HRun, HRun | HRetRecv, HRetRecv | HDone, HDone => true
                    | _, _ => false end) l.
Definition is_m (m : mpc) (l : list mpc) : bool :=
  existsb (fun x => match x, m with
                    | MTop, MTop | MGetSend, MGetSend | MPoll, MPoll | MRelay, MRelay | MMakePC, MMakePC
                    | MAnswer, MAnswer | MSelect, MSelect | MGiveUp, MGiveUp | MClosing, MClosing
                    | MRetRecv, MRetRecv | MStopped, MStopped => true
                    | _, _ => false end) l.

(* a session runSession has returned from *)
Definition bg_ok (c : sess) : bool :=
  match own c with
  | ONone => is_h (hp c) [HStart] && dc c && negb (mrel c) && negb (hrel c)
  | OMain => mrel c && negb (hrel c) && is_h (hp c) [HNone; HStart; HDone]
             && eqb (negb (dc c)) (is_h (hp c) [HNone])
  | OHandler => negb (mrel c) && dc c &&
                ((is_h (hp c) [HRun] && negb (hrel c)) || (is_h (hp c) [HRetRecv; HDone] && hrel c))
  end.

(* the session runSession is in, at main stage m *)
Definition cur_ok (m : mpc) (c : sess) : bool :=
  eqb (negb (dc c)) (is_h (hp c) [HNone]) &&
  (negb (dc c) || dc_stage m || is_m m [MRetRecv]) &&
  match own c with
  | ONone => negb (mrel c) && negb (hrel c) && is_h (hp c) [HNone; HStart]
             && is_m m [MPoll; MRelay; MMakePC; MAnswer; MSelect; MGiveUp]
  | OMain => negb (hrel c) && is_h (hp c) [HNone; HStart; HDone]
             && ((is_m m [MClosing] && negb (mrel c)) || (is_m m [MRetRecv] && mrel c))
  | OHandler => negb (mrel c) && dc c && is_m m [MAnswer; MSelect; MGiveUp]
                && ((is_h (hp c) [HRun] && negb (hrel c)) || (is_h (hp c) [HRetRecv; HDone] && hrel c))
  end.

Definition poll_ok (p : Z * nat) : Prop :=
  (8 | fst p)%Z /\ (0 <= fst p <= Z.of_nat (snd p))%Z.

Record Inv (N : nat) (st : state) : Prop := mkInv {
  inv_cap : cap (tok st) = N;
  inv_bg : Forall (fun c => bg_ok c = true) (bg st);
  inv_cur : match cur st with Some c => cur_ok (mn st) c = true | None => idle (mn st) = true end;
  inv_clients : clients (tok st) = (Z.of_nat (tot holds st) + mget (mn st))%Z;
  inv_ch : N <> 0 -> chlen (tok st) = tot holds st + (tot pend st + mpend (mn st)) /\ chlen (tok st) <= N;
  inv_gets : gets st = length (sessions st);
  inv_polls : Forall poll_ok (polls st)
}.

Lemma Inv_init : forall N, Inv N (init N).
Proof. intros N. constructor; cbn; auto. intros _. lia. Qed.

(* effect of one handler step on a well-formed session *)
Ltac crush_sess c :=
  destruct c as [h d o mr hr]; destruct h, d, o, mr, hr; cbn in *; try discriminate.

Lemma hstep_bg : forall a t c c' t',
  hstep V1 a t c = Some (c', t') -> bg_ok c = true ->
  bg_ok c' = true /\
  match a with
  | HClaim => t' = t /\ holds c' = holds c /\ pend c' = pend c
  | HEnd => t' = tok_dec t /\ holds c = 1 /\ holds c' = 0 /\ pend c = 0 /\ pend c' = 1
  | HRecv => recv_ready t = true /\ t' = tok_recv t /\ holds c = 0 /\ holds c' = 0 /\ pend c = 1 /\ pend c' = 0
  end.
Proof.
  intros a t c c' t' H Hok. destruct a; crush_sess c;
    try (destruct (recv_ready t) eqn:R; try discriminate);
    inversion H; subst; cbn; auto 10.
Qed.

Lemma hstep_cur : forall a t m c c' t',
  hstep V1 a t c = Some (c', t') -> cur_ok m c = true ->
  cur_ok m c' = true /\
  match a with
  | HClaim => t' = t /\ holds c' = holds c /\ pend c' = pend c
  | HEnd => t' = tok_dec t /\ holds c = 1 /\ holds c' = 0 /\ pend c = 0 /\ pend c' = 1
  | HRecv => recv_ready t = true /\ t' = tok_recv t /\ holds c = 0 /\ holds c' = 0 /\ pend c = 1 /\ pend c' = 0
  end.
Proof.
  intros a t m c c' t' H Hok. destruct a; crush_sess c; destruct m; cbn in *; try discriminate;
    try (destruct (recv_ready t) eqn:R; try discriminate);
    inversion H; subst; cbn; auto 10.
Qed.

(* token arithmetic *)
Lemma recv_ready_pos : forall t, cap t <> 0 -> recv_ready t = true -> 0 < chlen t.
Proof.
  intros t Hc H. unfold recv_ready in H. apply orb_true_iff in H as [H|H].
  - apply Nat.eqb_eq in H. contradiction.
  - apply Nat.ltb_lt in H. exact H.
Qed.

Lemma cap_eqb_false : forall t, cap t <> 0 -> (cap t =? 0) = false.
Proof. intros. apply Nat.eqb_neq. assumption. Qed.

(* ------------------------------------------------------------------ preservation (V1) *)

Lemma reported_ok : forall t u, clients t = Z.of_nat u -> poll_ok (reported t, u).
Proof.
  intros t u H. unfold poll_ok, reported, count. cbn [fst snd]. rewrite H.
  assert (Hq : (0 <= Z.quot (Z.of_nat u) 8)%Z) by (apply Z.quot_pos; lia).
  assert (Hm : (8 * Z.quot (Z.of_nat u) 8 <= Z.of_nat u)%Z) by (apply Z.mul_quot_le; lia).
  split.
  - exists (Z.quot (Z.of_nat u) 8). reflexivity.
  - lia.
Qed.

Ltac tok_case t :=
  destruct t as [cp cl ch]; unfold tok_inc, tok_dec, tok_send, tok_recv, send_ready, recv_ready in *;
  cbn [cap clients chlen] in *.

Lemma step_handler_inv : forall N st i a st',
  Inv N st -> step V1 st (LH i a) = Some st' -> Inv N st'.
Proof.
  intros N st i a st' I H. destruct I as [Icap Ibg Icur Icl Ich Ig Ip].
  destruct st as [t m b cu ps g]. cbn [step tok bg cur mn polls gets] in *.
  destruct (nth_error b i) as [c|] eqn:Hn.
  - destruct (hstep V1 a t c) as [[c' t']|] eqn:Hs; [|discriminate]. inversion H; subst; clear H.
    assert (Hc : bg_ok c = true).
    { rewrite Forall_forall in Ibg. apply Ibg. eapply nth_error_In; eauto. }
    destruct (hstep_bg _ _ _ _ _ Hs Hc) as [Hok Heff].
    assert (Sh := sum_upd holds b i c c' Hn). assert (Sp := sum_upd pend b i c c' Hn).
    unfold tot, set_tok, set_bg in *. cbn [tok bg cur mn polls gets] in *.
    constructor; unfold tot; cbn [tok bg cur mn polls gets]; auto.
    + destruct a; destruct Heff as [? Heff]; subst; tok_case t; auto; try tauto.
      destruct Heff as [? _]; subst; cbn. destruct (cp =? 0); auto.
    + apply Forall_upd; auto.
    + destruct a.
      * destruct Heff as (-> & E1 & E2). lia.
      * destruct Heff as (-> & E1 & E2 & E3 & E4). tok_case t. lia.
      * destruct Heff as (R & -> & E1 & E2 & E3 & E4). tok_case t. destruct (cp =? 0); cbn; lia.
    + intros HN. specialize (Ich HN). destruct a.
      * destruct Heff as (-> & E1 & E2). lia.
      * destruct Heff as (-> & E1 & E2 & E3 & E4). tok_case t. lia.
      * destruct Heff as (R & -> & E1 & E2 & E3 & E4). tok_case t.
        destruct (Nat.eqb_spec cp 0); [lia|]. cbn [cap clients chlen]. lia.
    + rewrite length_sessions in *. cbn [bg cur] in *. rewrite length_upd. exact Ig.
  - destruct (i =? length b); [|discriminate]. destruct cu as [c|]; [|discriminate].
    destruct (hstep V1 a t c) as [[c' t']|] eqn:Hs; [|discriminate]. inversion H; subst; clear H.
    destruct (hstep_cur _ _ _ _ _ _ Hs Icur) as [Hok Heff].
    unfold tot, set_tok, set_cur in *. cbn [tok bg cur mn polls gets] in *.
    constructor; unfold tot; cbn [tok bg cur mn polls gets]; auto.
    + destruct a; destruct Heff as [? Heff]; subst; tok_case t; auto; try tauto.
      destruct Heff as [? _]; subst; cbn. destruct (cp =? 0); auto.
    + destruct a.
      * destruct Heff as (-> & E1 & E2). lia.
      * destruct Heff as (-> & E1 & E2 & E3 & E4). tok_case t. lia.
      * destruct Heff as (R & -> & E1 & E2 & E3 & E4). tok_case t. destruct (cp =? 0); cbn; lia.
    + intros HN. specialize (Ich HN). destruct a.
      * destruct Heff as (-> & E1 & E2). lia.
      * destruct Heff as (-> & E1 & E2 & E3 & E4). tok_case t. lia.
      * destruct Heff as (R & -> & E1 & E2 & E3 & E4). tok_case t.
        destruct (Nat.eqb_spec cp 0); [lia|]. cbn [cap clients chlen]. lia.
    + rewrite length_sessions in *. cbn [bg cur] in *. exact Ig.
Qed.
