(* ProxySessionProofs.v — invariants of the proxy session machine (Model/ProxySession.v) and the
   C16 lemmas.  V1 (repaired code): all schedules.  V0 (pinned code): witnesses of the double
   release, and the V1 results transferred to tie-free schedules. *)
From Coq Require Import List ZArith Arith Bool Lia.
From Snow Require Import Model.Tokens Model.ProxySession.
Import ListNotations.
Local Open Scope nat_scope.

(* ------------------------------------------------------------------ sums over sessions *)

Definition pend (c : sess) : nat := match hp c with HRetRecv => 1 | _ => 0 end.
Definition mpend (m : mpc) : nat := match m with MRetRecv => 1 | _ => 0 end.
Definition mget (m : mpc) : Z := match m with MGetSend => 1%Z | _ => 0%Z end.
Definition idle (m : mpc) : bool := match m with MTop | MGetSend | MStopped => true | _ => false end.

Definition tot (f : sess -> nat) (st : state) : nat :=
  sum (map f (bg st)) + match cur st with Some c => f c | None => 0 end.

Lemma sum_map_app : forall (f : sess -> nat) l c, sum (map f (l ++ [c])) = sum (map f l) + f c.
Proof. induction l as [|x l IH]; intros c; cbn; [lia | rewrite IH; lia]. Qed.

Lemma sum_sessions : forall f st, sum (map f (sessions st)) = tot f st.
Proof.
  intros f st. unfold sessions, tot. destruct (cur st) as [c|].
  - apply sum_map_app.
  - rewrite app_nil_r. lia.
Qed.

Lemma in_use_tot : forall st, in_use st = tot holds st.
Proof. intros. unfold in_use. apply sum_sessions. Qed.

Lemma sum_upd : forall (f : sess -> nat) l i c c',
  nth_error l i = Some c ->
  sum (map f (upd i (fun _ => c') l)) + f c = sum (map f l) + f c'.
Proof.
  induction l as [|x l IH]; intros i c c' H.
  - destruct i; discriminate.
  - destruct i as [|k]; cbn in *.
    + inversion H; subst. lia.
    + specialize (IH k c c' H). lia.
Qed.

Lemma length_upd : forall A (g : A -> A) l i, length (upd i g l) = length l.
Proof. induction l as [|x l IH]; intros [|k]; cbn; auto. Qed.

Lemma Forall_upd : forall (P : sess -> Prop) l i c',
  Forall P l -> P c' -> Forall P (upd i (fun _ => c') l).
Proof.
  induction l as [|x l IH]; intros i c' HF Hc; [destruct i; cbn; auto|].
  inversion HF; subst. destruct i; cbn; constructor; auto.
Qed.

Lemma length_sessions : forall st,
  length (sessions st) = length (bg st) + match cur st with Some _ => 1 | None => 0 end.
Proof. intros. unfold sessions. rewrite app_length. destruct (cur st); cbn; lia. Qed.

(* ------------------------------------------------------------------ per-session invariant (V1) *)

Definition is_h (h : hpc) (l : list hpc) : bool :=
  existsb (fun x => match x, h with
                    | HNone, HNone | HStart, HStart | HDial, HDial | HRun, HRun | HRetRecv, HRetRecv | HDone, HDone => true
                    | _, _ => false end) l.
Definition is_m (m : mpc) (l : list mpc) : bool :=
  existsb (fun x => match x, m with
                    | MTop, MTop | MGetSend, MGetSend | MPoll, MPoll | MRelay, MRelay | MMakePC, MMakePC
                    | MAnswer, MAnswer | MSelect, MSelect | MGiveUp, MGiveUp | MClosing, MClosing
                    | MRetRecv, MRetRecv | MStopped, MStopped => true
                    | _, _ => false end) l.

(* a session runSession has returned from *)
Definition bg_ok (c : sess) : bool :=
  match own c with
  | ONone => is_h (hp c) [HStart] && dc c && negb (mrel c) && negb (hrel c)
  | OMain => mrel c && negb (hrel c) && is_h (hp c) [HNone; HStart; HDone]
             && eqb (negb (dc c)) (is_h (hp c) [HNone])
  | OHandler => negb (mrel c) && dc c &&
                ((is_h (hp c) [HDial; HRun] && negb (hrel c)) || (is_h (hp c) [HRetRecv; HDone] && hrel c))
  end.

(* the session runSession is in, at main stage m *)
Definition cur_ok (m : mpc) (c : sess) : bool :=
  eqb (negb (dc c)) (is_h (hp c) [HNone]) &&
  (negb (dc c) || dc_stage m || is_m m [MRetRecv]) &&
  match own c with
  | ONone => negb (mrel c) && negb (hrel c) && is_h (hp c) [HNone; HStart]
             && is_m m [MPoll; MRelay; MMakePC; MAnswer; MSelect; MGiveUp]
  | OMain => negb (hrel c) && is_h (hp c) [HNone; HStart; HDone]
             && ((is_m m [MClosing] && negb (mrel c)) || (is_m m [MRetRecv] && mrel c))
  | OHandler => negb (mrel c) && dc c && is_m m [MAnswer; MSelect; MGiveUp]
                && ((is_h (hp c) [HDial; HRun] && negb (hrel c)) || (is_h (hp c) [HRetRecv; HDone] && hrel c))
  end.

Definition poll_ok (p : Z * nat) : Prop :=
  (8 | fst p)%Z /\ (0 <= fst p <= Z.of_nat (snd p))%Z.

Record Inv (N : nat) (st : state) : Prop := mkInv {
  inv_cap : cap (tok st) = N;
  inv_bg : Forall (fun c => bg_ok c = true) (bg st);
  inv_cur : match cur st with Some c => cur_ok (mn st) c = true | None => idle (mn st) = true end;
  inv_clients : clients (tok st) = (Z.of_nat (tot holds st) + mget (mn st))%Z;
  inv_ch : N <> 0 -> chlen (tok st) = tot holds st + (tot pend st + mpend (mn st)) /\ chlen (tok st) <= N;
  inv_gets : gets st = length (sessions st);
  inv_polls : Forall poll_ok (polls st)
}.

Lemma Inv_init : forall N, Inv N (init N).
Proof. intros N. constructor; cbn; auto. intros _. lia. Qed.

(* effect of one handler step on a well-formed session: it keeps the slot (claim, relay dialled), calls tokens.ret()
   (the dial failed or timed out, datachannelHandler ended), or finishes ret *)
Inductive hkind := KKeep | KRel | KRecv.
Definition hkind_of (a : hact) : hkind :=
  match a with HClaim | HDialOk => KKeep | HDialFail | HDialTimer | HEnd => KRel | HRecv => KRecv end.
Definition heffect (a : hact) (t : tokens) (c c' : sess) (t' : tokens) : Prop :=
  match hkind_of a with
  | KKeep => t' = t /\ holds c' = holds c /\ pend c' = pend c
  | KRel => t' = tok_dec t /\ holds c = 1 /\ holds c' = 0 /\ pend c = 0 /\ pend c' = 1
  | KRecv => recv_ready t = true /\ t' = tok_recv t /\ holds c = 0 /\ holds c' = 0 /\ pend c = 1 /\ pend c' = 0
  end.

Ltac crush_sess c :=
  destruct c as [h d o mr hr]; destruct h, d, o, mr, hr; cbn in *; try discriminate.

Lemma hstep_bg : forall a t c c' t',
  hstep V1 a t c = Some (c', t') -> bg_ok c = true ->
  bg_ok c' = true /\
  heffect a t c c' t'.
Proof.
  intros a t c c' t' H Hok. unfold heffect. destruct a; crush_sess c;
    try (destruct (recv_ready t) eqn:R; try discriminate);
    inversion H; subst; cbn; auto 10.
Qed.

Lemma hstep_cur : forall a t m c c' t',
  hstep V1 a t c = Some (c', t') -> cur_ok m c = true ->
  cur_ok m c' = true /\
  heffect a t c c' t'.
Proof.
  intros a t m c c' t' H Hok. unfold heffect. destruct a; crush_sess c; destruct m; cbn in *; try discriminate;
    try (destruct (recv_ready t) eqn:R; try discriminate);
    inversion H; subst; cbn; auto 10.
Qed.

(* token arithmetic *)
Lemma recv_ready_pos : forall t, cap t <> 0 -> recv_ready t = true -> 0 < chlen t.
Proof.
  intros t Hc H. unfold recv_ready in H. apply orb_true_iff in H as [H|H].
  - apply Nat.eqb_eq in H. contradiction.
  - apply Nat.ltb_lt in H. exact H.
Qed.

Lemma cap_eqb_false : forall t, cap t <> 0 -> (cap t =? 0) = false.
Proof. intros. apply Nat.eqb_neq. assumption. Qed.

(* ------------------------------------------------------------------ preservation (V1) *)

Lemma reported_ok : forall t u, clients t = Z.of_nat u -> poll_ok (reported t, u).
Proof.
  intros t u H. unfold poll_ok, reported, count. cbn [fst snd]. rewrite H.
  assert (Hq : (0 <= Z.quot (Z.of_nat u) 8)%Z) by (apply Z.quot_pos; lia).
  assert (Hm : (8 * Z.quot (Z.of_nat u) 8 <= Z.of_nat u)%Z) by (apply Z.mul_quot_le; lia).
  split.
  - exists (Z.quot (Z.of_nat u) 8). reflexivity.
  - lia.
Qed.

Ltac tok_case t :=
  destruct t as [cp cl ch]; unfold tok_inc, tok_dec, tok_send, tok_recv, send_ready, recv_ready in *;
  cbn [cap clients chlen] in *.

Lemma step_handler_inv : forall N st i a st',
  Inv N st -> step V1 st (LH i a) = Some st' -> Inv N st'.
Proof.
  intros N st i a st' I H. destruct I as [Icap Ibg Icur Icl Ich Ig Ip].
  destruct st as [t m b cu ps g]. cbn [step tok bg cur mn polls gets] in *.
  destruct (nth_error b i) as [c|] eqn:Hn.
  - destruct (hstep V1 a t c) as [[c' t']|] eqn:Hs; [|discriminate]. inversion H; subst; clear H.
    assert (Hc : bg_ok c = true).
    { rewrite Forall_forall in Ibg. apply Ibg. eapply nth_error_In; eauto. }
    destruct (hstep_bg _ _ _ _ _ Hs Hc) as [Hok Heff].
    assert (Sh := sum_upd holds b i c c' Hn). assert (Sp := sum_upd pend b i c c' Hn).
    unfold tot, set_tok, set_bg in *. cbn [tok bg cur mn polls gets] in *.
    constructor; unfold tot; cbn [tok bg cur mn polls gets]; auto.
    + unfold heffect in Heff. destruct (hkind_of a); destruct Heff as [? Heff]; subst; tok_case t; auto; try tauto.
      destruct Heff as [? _]; subst; cbn. destruct (cp =? 0); auto.
    + apply Forall_upd; auto.
    + unfold heffect in Heff. destruct (hkind_of a).
      * destruct Heff as (-> & E1 & E2). lia.
      * destruct Heff as (-> & E1 & E2 & E3 & E4). tok_case t. lia.
      * destruct Heff as (R & -> & E1 & E2 & E3 & E4). tok_case t. destruct (cp =? 0); cbn; lia.
    + intros HN. specialize (Ich HN). unfold heffect in Heff. destruct (hkind_of a).
      * destruct Heff as (-> & E1 & E2). lia.
      * destruct Heff as (-> & E1 & E2 & E3 & E4). tok_case t. lia.
      * destruct Heff as (R & -> & E1 & E2 & E3 & E4). tok_case t.
        destruct (Nat.eqb_spec cp 0); [lia|]. cbn [cap clients chlen]. lia.
    + rewrite length_sessions in *. cbn [bg cur] in *. rewrite length_upd. exact Ig.
  - destruct (i =? length b); [|discriminate]. destruct cu as [c|]; [|discriminate].
    destruct (hstep V1 a t c) as [[c' t']|] eqn:Hs; [|discriminate]. inversion H; subst; clear H.
    destruct (hstep_cur _ _ _ _ _ _ Hs Icur) as [Hok Heff].
    unfold tot, set_tok, set_cur in *. cbn [tok bg cur mn polls gets] in *.
    constructor; unfold tot; cbn [tok bg cur mn polls gets]; auto.
    + unfold heffect in Heff. destruct (hkind_of a); destruct Heff as [? Heff]; subst; tok_case t; auto; try tauto.
      destruct Heff as [? _]; subst; cbn. destruct (cp =? 0); auto.
    + unfold heffect in Heff. destruct (hkind_of a).
      * destruct Heff as (-> & E1 & E2). lia.
      * destruct Heff as (-> & E1 & E2 & E3 & E4). tok_case t. lia.
      * destruct Heff as (R & -> & E1 & E2 & E3 & E4). tok_case t. destruct (cp =? 0); cbn; lia.
    + intros HN. specialize (Ich HN). unfold heffect in Heff. destruct (hkind_of a).
      * destruct Heff as (-> & E1 & E2). lia.
      * destruct Heff as (-> & E1 & E2 & E3 & E4). tok_case t. lia.
      * destruct Heff as (R & -> & E1 & E2 & E3 & E4). tok_case t.
        destruct (Nat.eqb_spec cp 0); [lia|]. cbn [cap clients chlen]. lia.
    + rewrite length_sessions in *. cbn [bg cur] in *. exact Ig.
Qed.

Lemma Forall_snoc : forall A (P : A -> Prop) l x, Forall P l -> P x -> Forall P (l ++ [x]).
Proof. intros. apply Forall_app. split; auto. Qed.

Ltac unf :=
  unfold main_ret, record_poll, finish, set_mn, set_tok, set_cur, set_bg, in_use, tot, sessions in *;
  cbn [tok bg cur mn polls gets] in *.

Ltac case_cap :=
  repeat match goal with
  | H : context [?x =? 0] |- _ => destruct (Nat.eqb_spec x 0)
  | |- context [?x =? 0] => destruct (Nat.eqb_spec x 0)
  end.

Lemma sum_app : forall l1 l2, sum (l1 ++ l2) = sum l1 + sum l2.
Proof. induction l1 as [|x l IH]; intros; cbn; [lia | rewrite IH; lia]. Qed.

Ltac arith t :=
  try rewrite !map_app in *; try rewrite !sum_app in *; try rewrite !app_length; try rewrite !app_nil_r;
  tok_case t; unfold holds, pend, new_sess in *; cbn [map sum length mrel hrel hp orb mpend mget] in *;
  case_cap; cbn [cap clients chlen] in *;
  repeat match goal with H : _ || _ = true |- _ => apply orb_true_iff in H end;
  repeat match goal with H : _ \/ _ |- _ => destruct H end; try discriminate;
  repeat match goal with H : (_ <? _) = true |- _ => apply Nat.ltb_lt in H end;
  try lia.

Lemma step_main_inv : forall N st l st',
  (forall i a, l <> LH i a) -> Inv N st -> step V1 st l = Some st' -> Inv N st'.
Proof.
  intros N st l st' Hl I H. destruct I as [Icap Ibg Icur Icl Ich Ig Ip].
  destruct st as [t m b cu ps g]. cbn [tok bg cur mn polls gets] in *.
  assert (Hpoll : m = MPoll -> poll_ok (reported t, sum (map holds (b ++ match cu with Some c => [c] | None => [] end)))).
  { intros ->. apply reported_ok. rewrite Icl. unfold tot. cbn [bg cur mget].
    destruct cu; [rewrite sum_map_app | rewrite app_nil_r]; f_equal; lia. }
  destruct l; try (exfalso; eapply Hl; reflexivity); clear Hl;
    cbn [step] in H; cbn [tok bg cur mn polls gets] in H;
    destruct m; try discriminate; destruct cu as [c|]; cbn in Icur; try discriminate;
    unf;
    try (destruct (send_ready t) eqn:SR; [|discriminate]);
    try (destruct (recv_ready t) eqn:RR; [|discriminate]);
    try (crush_sess c; cbn in Icur; try discriminate);
    inversion H; subst; clear H;
    (constructor; unf;
     [ tok_case t; case_cap; auto
     | try (apply Forall_snoc; auto; reflexivity); auto
     | cbn; auto
     | arith t
     | intros HN; specialize (Ich HN); arith t
     | arith t
     | try (apply Forall_snoc; auto; apply Hpoll; reflexivity); auto ]).
Qed.

Lemma step_inv : forall N st l st', Inv N st -> step V1 st l = Some st' -> Inv N st'.
Proof.
  intros N st l st' I H. destruct l;
    try (eapply step_main_inv; [ | exact I | exact H ]; intros; discriminate).
  eapply step_handler_inv; eauto.
Qed.

Lemma run_inv_from : forall N ls st st', Inv N st -> run V1 st ls = Some st' -> Inv N st'.
Proof.
  induction ls as [|l ls IH]; intros st st' I H; cbn in H.
  - inversion H; subst; auto.
  - destruct (step V1 st l) as [s1|] eqn:E; [|discriminate]. eapply IH; [|exact H]. eapply step_inv; eauto.
Qed.

Lemma run_inv : forall N ls st, run V1 (init N) ls = Some st -> Inv N st.
Proof. intros. eapply run_inv_from; [apply Inv_init | eauto]. Qed.

(* ------------------------------------------------------------------ consequences of Inv *)

Lemma bg_active_le : forall l, Forall (fun c => bg_ok c = true) l ->
  sum (map (fun c => if serving c then 1 else 0) l) <= sum (map holds l).
Proof.
  induction 1 as [|c l Hc _ IH]; cbn; [lia|].
  assert ((if serving c then 1 else 0) <= holds c) by (crush_sess c; lia). lia.
Qed.

Lemma inv_active_le_in_use : forall N st, Inv N st -> n_active st <= in_use st.
Proof.
  intros N st [_ Ibg Icur _ _ _ _]. rewrite in_use_tot. unfold n_active, tot.
  assert (H := bg_active_le _ Ibg).
  destruct (cur st) as [c|]; [|lia].
  assert ((if serving c || (negotiating (mn st) && handler_pending c) then 1 else 0) <= holds c).
  { destruct (mn st); crush_sess c; lia. }
  lia.
Qed.

Lemma inv_in_use_le_cap : forall N st, N <> 0 -> Inv N st -> in_use st <= N.
Proof. intros N st HN I. rewrite in_use_tot. destruct (inv_ch _ _ I HN). lia. Qed.

Lemma sess_released_le1 : forall N st c, Inv N st -> In c (sessions st) -> released c <= 1.
Proof.
  intros N st c [_ Ibg Icur _ _ _ _] Hin. unfold sessions in Hin. apply in_app_or in Hin as [Hin|Hin].
  - rewrite Forall_forall in Ibg. specialize (Ibg _ Hin). crush_sess c; lia.
  - destruct (cur st) as [c0|]; [|contradiction]. destruct Hin as [<-|[]].
    destruct (mn st); crush_sess c0; lia.
Qed.

Lemma sess_terminated_released : forall N st c, Inv N st ->
  In c (bg st) -> handler_quiet c = true -> released c = 1.
Proof.
  intros N st c [_ Ibg _ _ _ _ _] Hin Hq. rewrite Forall_forall in Ibg. specialize (Ibg _ Hin).
  crush_sess c; reflexivity.
Qed.

Lemma quiet_holds0 : forall l, Forall (fun c => bg_ok c = true) l -> forallb handler_quiet l = true ->
  sum (map holds l) = 0 /\ sum (map pend l) = 0.
Proof.
  induction 1 as [|c l Hc _ IH]; cbn; intros Hq; [auto|].
  apply andb_true_iff in Hq as [Hq1 Hq2]. destruct (IH Hq2) as [E1 E2].
  assert (holds c = 0 /\ pend c = 0) by (crush_sess c; auto). lia.
Qed.

Lemma inv_all_terminated : forall N st, Inv N st -> all_terminated st = true ->
  in_use st = 0 /\ count (tok st) = mget (mn st) /\ (N <> 0 -> chlen (tok st) = 0) /\ idle (mn st) = true.
Proof.
  intros N st I Ht. unfold all_terminated in Ht. apply andb_true_iff in Ht as [Hc Hq].
  destruct I as [_ Ibg Icur Icl Ich _ _]. rewrite in_use_tot. unfold tot, count in *.
  destruct (cur st); [discriminate|]. destruct (quiet_holds0 _ Ibg Hq) as [E1 E2].
  rewrite E1, E2 in *. repeat split; auto; try lia.
  intros HN. specialize (Ich HN). destruct (mn st); cbn in *; try discriminate; lia.
Qed.

Lemma inv_polls_again : forall N st, Inv N st -> all_terminated st = true -> mn st = MTop ->
  exists st1 st2, step V1 st LGet = Some st1 /\ step V1 st1 LGetSend = Some st2 /\
                  mn st2 = MPoll /\ in_use st2 = 1.
Proof.
  intros N st I Ht Hm. destruct (inv_all_terminated _ _ I Ht) as (Hu & Hc & Hch & _).
  assert (Hcap := inv_cap _ _ I).
  unfold all_terminated in Ht. apply andb_true_iff in Ht as [Hcur Hq].
  destruct st as [t m b cu ps g]. cbn [tok mn bg cur] in *. subst m. destruct cu; [discriminate|].
  cbn [step mn tok set_tok set_mn].
  assert (SR : send_ready (tok_inc t) = true).
  { tok_case t. destruct (Nat.eqb_spec cp 0) as [|n]; [reflexivity|]. cbn. apply Nat.ltb_lt.
    rewrite Hch by lia. lia. }
  eexists. eexists. split; [reflexivity|]. cbn [step mn tok set_tok set_mn bg cur polls gets]. rewrite SR.
  split; [reflexivity|]. split; [reflexivity|].
  rewrite in_use_tot in *. unfold tot in *. cbn [bg cur] in *. cbn. lia.
Qed.

Lemma inv_ret_never_blocks : forall N st, Inv N st ->
  (mn st = MRetRecv \/ exists c, In c (sessions st) /\ hp c = HRetRecv) -> recv_ready (tok st) = true.
Proof.
  intros N st I H. unfold recv_ready. destruct (Nat.eqb_spec (cap (tok st)) 0) as [|n]; [reflexivity|].
  rewrite (inv_cap _ _ I) in n. destruct (inv_ch _ _ I n) as [E _]. cbn [orb]. apply Nat.ltb_lt.
  destruct H as [H | (c & Hin & Hc)].
  - rewrite H in E. cbn in E. lia.
  - assert (1 <= tot pend st).
    { rewrite <- sum_sessions. clear E. induction (sessions st) as [|x l IH]; [contradiction|].
      cbn. destruct Hin as [->|Hin]; [unfold pend at 1; rewrite Hc; lia | specialize (IH Hin); lia]. }
    lia.
Qed.

(* ------------------------------------------------------------------ V0: tie-free schedules *)

Lemma nth_sessions : forall st i,
  nth_error (sessions st) i =
  match nth_error (bg st) i with
  | Some c => Some c
  | None => if i =? length (bg st) then cur st else None
  end.
Proof.
  intros st i. unfold sessions. destruct (nth_error (bg st) i) as [c|] eqn:E.
  - rewrite nth_error_app1; [auto|]. apply nth_error_Some. congruence.
  - apply nth_error_None in E. rewrite nth_error_app2 by lia.
    destruct (Nat.eqb_spec i (length (bg st))) as [->|n].
    + rewrite Nat.sub_diag. destruct (cur st); reflexivity.
    + destruct (cur st); [|apply nth_error_None; cbn; lia].
      destruct (i - length (bg st)) as [|k] eqn:D; [lia|]. cbn. destruct k; reflexivity.
Qed.

Lemma step_v0_v1 : forall st l, tie_step st l = false -> step V0 st l = step V1 st l.
Proof.
  intros st l Ht. destruct l; try reflexivity.
  - cbn [step]. destruct (mn st); try reflexivity. cbn in Ht.
    destruct (cur st) as [c|]; [|reflexivity]. destruct (own c); try reflexivity. discriminate.
  - cbn [step]. cbn [tie_step] in Ht. destruct a; try reflexivity.
    rewrite nth_sessions in Ht.
    destruct (nth_error (bg st) i) as [c|].
    + unfold hstep. destruct (hp c); try reflexivity. destruct (own c); try reflexivity. discriminate.
    + destruct (i =? length (bg st)); [|reflexivity]. destruct (cur st) as [c|]; [|reflexivity].
      unfold hstep. destruct (hp c); try reflexivity. destruct (own c); try reflexivity. discriminate.
Qed.

Lemma run_v0_v1 : forall ls st, tie_free V0 st ls = true -> run V0 st ls = run V1 st ls.
Proof.
  induction ls as [|l ls IH]; intros st Ht; [reflexivity|].
  cbn in *. apply andb_true_iff in Ht as [H1 H2]. apply negb_true_iff in H1.
  rewrite <- (step_v0_v1 _ _ H1). destruct (step V0 st l); [apply IH; exact H2 | reflexivity].
Qed.

(* ------------------------------------------------------------------ V0 witnesses *)

(* sendAnswer reports an error after the broker has forwarded the answer and the client has
   opened its data channel: runSession releases, and the handler releases again when it ends. *)
Definition w_answer_fail : list label :=
  [LGet; LGetSend; LPollOffer; LRelayOk; LPcOk; LDcOpen; LH 0 HClaim;
   LAnswerFail; LGiveUp; LClose; LMainRecv; LH 0 HDialOk; LH 0 HEnd].

(* the data channel opens while the 20 s timer fires: the select takes the timer case *)
Definition w_select_tie : list label :=
  [LGet; LGetSend; LPollOffer; LRelayOk; LPcOk; LAnswerOk; LDcOpen; LH 0 HClaim;
   LSelectTimeout; LGiveUp; LClose; LMainRecv; LH 0 HDialOk; LH 0 HEnd].

Definition w_open (i : nat) : list label :=
  [LGet; LGetSend; LPollOffer; LRelayOk; LPcOk; LAnswerOk; LDcOpen; LH i HClaim; LH i HDialOk; LSelectOpen].

(* capacity 2: a served client, then a doubly released session, then two more served clients *)
Definition w_capacity : list label :=
  w_open 0 ++
  [LGet; LGetSend; LPollOffer; LRelayOk; LPcOk; LDcOpen; LH 1 HClaim;
   LAnswerFail; LGiveUp; LClose; LMainRecv; LH 1 HDialOk; LH 1 HEnd; LH 1 HRecv] ++
  w_open 2 ++ w_open 3.

Lemma v0_answer_fail_double_release :
  exists st c, run V0 (init 1) w_answer_fail = Some st /\ nth_error (sessions st) 0 = Some c /\
               released c = 2 /\ count (tok st) = (-1)%Z /\ step V0 st (LH 0 HRecv) = None.
Proof. eexists. eexists. vm_compute. repeat split. Qed.

Lemma v0_select_tie_double_release :
  exists st c, run V0 (init 1) w_select_tie = Some st /\ nth_error (sessions st) 0 = Some c /\
               released c = 2 /\ count (tok st) = (-1)%Z.
Proof. eexists. eexists. vm_compute. repeat split. Qed.

Lemma v0_capacity_exceeded :
  exists st, run V0 (init 2) w_capacity = Some st /\ n_active st = 3 /\ count (tok st) = 2%Z.
Proof. eexists. vm_compute. repeat split. Qed.

(* the same races on the repaired machine: runSession sees that the handler owns the session *)
Definition w1_answer_fail : list label :=
  [LGet; LGetSend; LPollOffer; LRelayOk; LPcOk; LDcOpen; LH 0 HClaim;
   LAnswerFail; LGiveUp; LH 0 HDialFail; LH 0 HRecv].
Definition w1_select_tie_late_handler : list label :=
  [LGet; LGetSend; LPollOffer; LRelayOk; LPcOk; LAnswerOk; LSelectTimeout; LGiveUp; LDcOpen;
   LClose; LH 0 HClaim; LMainRecv].

Lemma v1_race_schedules_ok :
  (exists st, run V1 (init 1) w1_answer_fail = Some st /\ all_terminated st = true /\
              in_use st = 0 /\ count (tok st) = 0%Z) /\
  (exists st, run V1 (init 1) w1_select_tie_late_handler = Some st /\ all_terminated st = true /\
              in_use st = 0 /\ count (tok st) = 0%Z).
Proof. split; eexists; vm_compute; repeat split. Qed.
