(* SweeperLockProofs.v — the sweeper goroutine of NewClientMap when the map's lock is busy.

   for { time.Sleep(period); now := time.Now(); m.lock.Lock(); removeExpired(now, timeout); m.lock.Unlock() }
   A sweeper that WAITS for the lock performs its k-th sweep at tick k + d_k, where d_k >= 0 is how long the lock was
   held by somebody else (bounded by D: critical sections of the map are short, or a goroutine was descheduled inside one).
   A sweeper that gives the round up when the lock is busy (TryLock; seed C17-m14) performs no sweep at that tick at all.
   Both are histories of the same machine (Proofs/QueueRetentionProofs.v: `swept`, sweeps at arbitrary instants). *)
From Coq Require Import List ZArith NArith Arith Bool Lia.
From Snow Require Import Model.GoHeap Model.ClientMap Model.QueueConn.
From Snow Require Import Proofs.GoHeapProofs Proofs.ClientMapProofs Proofs.QueueOutProofs Proofs.QueueRetentionProofs.
Import ListNotations.

(* segments of operations, the i-th followed by the (k+i)-th sweep, delayed by snd *)
Fixpoint with_delayed_ticks (phase period : Z) (k : nat) (segs : list (list qop * Z)) : list (list qop * Z) :=
  match segs with
  | [] => []
  | (seg, d) :: rest => (seg, (tick phase period (S k) + d)%Z) :: with_delayed_ticks phase period (S k) rest
  end.

Lemma with_delayed_idle : forall phase period a q segs k,
  Forall (fun x => forallb (idle_op a q) (fst x) = true) segs ->
  idle_segs a q (with_delayed_ticks phase period k segs).
Proof.
  intros phase period a q segs. induction segs as [|[seg d] rest IH]; intros k H; cbn [with_delayed_ticks]; [constructor|].
  inversion H; subst. constructor; [assumption|]. apply IH; assumption.
Qed.

Lemma with_delayed_nth : forall phase period segs k i seg d,
  nth_error segs i = Some (seg, d) ->
  In (seg, (tick phase period (k + S i) + d)%Z) (with_delayed_ticks phase period k segs).
Proof.
  intros phase period segs. induction segs as [|[sg dd] rest IH]; intros k i seg d H.
  - destruct i; discriminate.
  - destruct i as [|j]; cbn [nth_error] in H; cbn [with_delayed_ticks].
    + inversion H; subst. left. replace (k + 1) with (S k) by lia. reflexivity.
    + right. replace (k + S (S j)) with (S k + S j) by lia. apply IH. exact H.
Qed.

Lemma with_delayed_in : forall phase period segs k x,
  In x (with_delayed_ticks phase period k segs) ->
  exists i seg d, nth_error segs i = Some (seg, d) /\ x = (seg, (tick phase period (k + S i) + d)%Z).
Proof.
  intros phase period segs. induction segs as [|[sg dd] rest IH]; intros k x H; cbn [with_delayed_ticks] in H; [contradiction|].
  destruct H as [H|H].
  - exists 0, sg, dd. split; [reflexivity|]. replace (k + 1) with (S k) by lia. symmetry. exact H.
  - destruct (IH (S k) x H) as (i & seg & d & Hn & E). exists (S i), seg, d. split; [exact Hn|].
    replace (k + S (S i)) with (S k + S i) by lia. exact E.
Qed.

(* a sweeper that waits for the lock: a client idle from the k0-th tick on (not yet due then) is gone after the first sweep
   whose tick is at or after last_seen + timeout, that sweep happens before last_seen + timeout + period + D, and no
   sweep before the timeout removes it *)
Theorem delayed_sweeper_removes : forall cap timeout phase period D k0 segs s a r,
  (0 < period)%Z -> cm_inv (clients s) -> rec_of (clients s) a = Some r ->
  Forall (fun x => forallb (idle_op a (c_qid r)) (fst x) = true) segs ->
  Forall (fun x => (0 <= snd x <= D)%Z) segs ->
  (tick phase period k0 < c_seen r + timeout)%Z ->
  exists n, 1 <= n /\
    (c_seen r + timeout <= tick phase period (k0 + n) < c_seen r + timeout + period)%Z /\
    let s' := fst (qrun cap timeout (swept (with_delayed_ticks phase period k0 segs)) s) in
    (n <= length segs ->
       rec_of (clients s') a = None /\ In (c_qid r) (map fst (dead (clients s'))) /\
       exists seg d, nth_error segs (n - 1) = Some (seg, d) /\
                     (c_seen r + timeout <= tick phase period (k0 + n) + d < c_seen r + timeout + period + D)%Z) /\
    (Forall (fun x => (snd x < c_seen r + timeout)%Z) (with_delayed_ticks phase period k0 segs) ->
       rec_of (clients s') a = Some r).
Proof.
  intros cap timeout phase period D k0 segs s a r Hp Hinv Hrec Hidle Hd Hk0.
  destruct (first_tick phase period k0 (c_seen r + timeout)%Z Hp Hk0) as (n & Hn1 & Hwin & _).
  exists n. split; [exact Hn1|]. split; [exact Hwin|].
  pose proof (with_delayed_idle phase period a (c_qid r) segs k0 Hidle) as Hidle'.
  destruct (swept_idle cap timeout (with_delayed_ticks phase period k0 segs) s a r Hinv Hrec Hidle') as [K G].
  cbv zeta. split.
  - intro Hlen.
    destruct (nth_error segs (n - 1)) as [[seg d]|] eqn:En.
    2:{ apply nth_error_None in En. lia. }
    assert (Hdb : (0 <= d <= D)%Z).
    { pose proof (proj1 (Forall_forall _ _) Hd (seg, d) (nth_error_In _ _ En)) as X. cbn [snd] in X. exact X. }
    pose proof (with_delayed_nth phase period segs k0 (n - 1) seg d En) as Hin.
    replace (k0 + S (n - 1)) with (k0 + n) in Hin by lia.
    assert (Ex : Exists (fun x => (snd x - c_seen r >= timeout)%Z) (with_delayed_ticks phase period k0 segs)).
    { apply Exists_exists. eexists. split; [exact Hin|]. cbn [snd]. lia. }
    destruct (G Ex) as [G1 G2]. split; [exact G1|]. split; [exact G2|].
    exists seg, d. split; [reflexivity|]. lia.
  - intro Hall. apply K. apply Forall_forall. intros x Hx.
    pose proof (proj1 (Forall_forall _ _) Hall x Hx) as X. cbn beta in X. lia.
Qed.

(* a sweeper that gives its round up whenever the lock is busy: if the lock is busy at every tick, nothing is swept -
   after any number of rounds, whatever else happens to other clients, the idle client still has its record and queue *)
Theorem skipping_sweeper_never_removes : forall cap timeout (rounds : list (list qop)) s a r,
  cm_inv (clients s) -> rec_of (clients s) a = Some r ->
  Forall (fun seg => forallb (idle_op a (c_qid r)) seg = true) rounds ->
  rec_of (clients (fst (qrun cap timeout (concat rounds) s))) a = Some r.
Proof.
  intros cap timeout rounds s a r Hinv Hrec Hidle. apply idle_run; [exact Hinv|exact Hrec|].
  induction Hidle as [|seg rest Hs _ IH]; [reflexivity|]. cbn [concat]. rewrite forallb_app, Hs, IH. reflexivity.
Qed.
