(* StalenessProofs.v — proofs about Model/Staleness.v *)
From Coq Require Import List NArith Bool Lia.
From Snow Require Import Model.Staleness.
Import ListNotations.
Open Scope N_scope.

Lemma w_step_closed timeout s e : w_closed s = true -> w_step timeout s e = s.
Proof. intros H. unfold w_step. rewrite H. reflexivity. Qed.
Lemma w_step_tick timeout s t : w_closed s = false -> w_step timeout s (WTick t) = w_tick timeout s t.
Proof. intros H. unfold w_step. rewrite H. reflexivity. Qed.

Lemma w_closed_stays step_timeout : forall evs s, w_closed s = true ->
  w_closed (fold_left (w_step step_timeout) evs s) = true.
Proof.
  induction evs as [|e evs IH]; intros s H; cbn [fold_left]; [exact H|].
  apply IH. unfold w_step. rewrite H. exact H.
Qed.

(* invariant while the proxy may still be talking: armed, and the last receipt is not later than T *)
Lemma armed_until : forall timeout T pre s,
  recv_by T pre = true -> w_armed s = true -> w_last s <= T ->
  let s' := fold_left (w_step timeout) pre s in
  w_closed s' = true \/ (w_armed s' = true /\ w_last s' <= T).
Proof.
  induction pre as [|e pre IH]; intros s Hr Ha Hl; cbn [fold_left].
  - right. split; assumption.
  - destruct (w_closed s) eqn:Ec.
    { left. apply w_closed_stays. unfold w_step. rewrite Ec. exact Ec. }
    destruct e as [t|t|t]; cbn [recv_by] in Hr; [discriminate| |].
    + apply andb_prop in Hr. destruct Hr as [Ht Hr]. apply N.leb_le in Ht.
      apply IH; [exact Hr| |]; unfold w_step; rewrite Ec; cbn [w_armed w_last]; assumption.
    + assert (E : w_step timeout s (WTick t) = w_tick timeout s t) by (unfold w_step; rewrite Ec; reflexivity).
      rewrite E. unfold w_tick.
      destruct (w_armed s && (timeout <? t - w_last s)).
      * left. apply w_closed_stays. reflexivity.
      * apply IH; assumption.
Qed.

(* A peer whose proxy goes silent is closed: the data channel opens at t0; whatever arrives afterwards arrives by T
   (t0 <= T; possibly NOTHING arrives at all); then any turn of the watchdog later than T + timeout closes the peer,
   and it stays closed. *)
Theorem silent_peer_closed : forall timeout t0 T pre t post,
  t0 <= T -> recv_by T pre = true -> T + timeout < t ->
  w_closed (w_run (w_step timeout) (WOpen t0 :: pre ++ [WTick t] ++ post)) = true.
Proof.
  intros timeout t0 T pre t post H0 Hr Ht. unfold w_run. cbn [fold_left].
  rewrite fold_left_app. cbn [app fold_left].
  set (s0 := w_step timeout w_init (WOpen t0)).
  assert (Ha : w_armed s0 = true) by reflexivity.
  assert (Hl : w_last s0 <= T) by exact H0.
  destruct (armed_until timeout T pre s0 Hr Ha Hl) as [Hc|[Ha' Hl']].
  - apply w_closed_stays. rewrite w_step_closed by exact Hc. exact Hc.
  - apply w_closed_stays.
    destruct (w_closed (fold_left (w_step timeout) pre s0)) eqn:Ec.
    { rewrite w_step_closed by exact Ec. exact Ec. }
    rewrite w_step_tick by exact Ec.
    unfold w_tick. rewrite Ha'. cbn [andb].
    destruct (N.ltb_spec timeout (t - w_last (fold_left (w_step timeout) pre s0))) as [_|Hge]; [reflexivity|lia].
Qed.

(* ... and only such a peer: while every turn of the watchdog finds the last message (or the opening) at most
   [timeout] old, the peer is not closed *)
Lemma fresh_not_closed : forall timeout evs s, w_closed s = false ->
  fresh timeout (w_last s) evs = true -> w_closed (fold_left (w_step timeout) evs s) = false.
Proof.
  induction evs as [|e evs IH]; intros s Hc Hf; cbn [fold_left]; [exact Hc|].
  destruct e as [t|t|t]; cbn [fresh] in Hf.
  - apply IH; unfold w_step; rewrite Hc; cbn [w_closed w_last]; [reflexivity | exact Hf].
  - apply IH; unfold w_step; rewrite Hc; cbn [w_closed w_last]; [reflexivity | exact Hf].
  - apply andb_prop in Hf. destruct Hf as [Ht Hf]. apply N.leb_le in Ht.
    assert (E : w_step timeout s (WTick t) = s).
    { unfold w_step. rewrite Hc. unfold w_tick.
      destruct (N.ltb_spec timeout (t - w_last s)) as [Hlt|_]; [lia|]. rewrite andb_false_r. reflexivity. }
    rewrite E. apply IH; assumption.
Qed.

Theorem fresh_peer_not_closed : forall timeout t0 evs,
  fresh timeout t0 evs = true -> w_closed (w_run (w_step timeout) (WOpen t0 :: evs)) = false.
Proof.
  intros timeout t0 evs Hf. unfold w_run. cbn [fold_left].
  apply fresh_not_closed; [reflexivity | exact Hf].
Qed.

(* the watchdog started by the first message: a proxy that is silent from the start is never declared stale *)
Lemma lazy_never_armed : forall timeout evs s,
  w_armed s = false -> w_closed s = false ->
  forallb (fun e => match e with WRecv _ => false | _ => true end) evs = true ->
  w_closed (fold_left (w_step_lazy timeout) evs s) = false.
Proof.
  induction evs as [|e evs IH]; intros s Ha Hc Hn; cbn [fold_left]; [exact Hc|].
  cbn [forallb] in Hn. apply andb_prop in Hn. destruct Hn as [He Hn].
  assert (E : w_step_lazy timeout s e = s).
  { unfold w_step_lazy. rewrite Hc. destruct e as [t|t|t]; [reflexivity|discriminate|].
    unfold w_tick. rewrite Ha. reflexivity. }
  rewrite E. apply IH; assumption.
Qed.

Theorem lazy_watchdog_refuted : forall timeout t0 ticks,
  w_closed (w_run (w_step_lazy timeout) (WOpen t0 :: map WTick ticks)) = false.
Proof.
  intros timeout t0 ticks. unfold w_run. cbn [fold_left].
  apply lazy_never_armed; try reflexivity.
  induction ticks as [|t ticks IH]; [reflexivity | exact IH].
Qed.
